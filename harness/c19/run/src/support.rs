//! Observation helpers and the statically typed part of the C19 run-time monitor.
//! Output protocol (stdout, one JSON object per line):
//!   SEQ {"id":n, ...observation...}      — one per generated call sequence
//!   STATIC {"check":name,"ok":bool,...}  — results of the fixed checks below
#![allow(dead_code)]

use std::fmt::Debug;

use ordered_float::OrderedFloat;
use push::{
    instruction::{
        variable_name::VariableName, Instruction, IntInstruction, PushInstruction,
    },
    push_vm::{
        program::PushProgram,
        push_state::PushState,
        stack::{Stack, StackError},
        HasStack, State,
    },
};
use serde_json::{json, Value};

use crate::fixtures::{Bare, Crossed, Extra, Odd, Solo, Twin, Wide};

pub trait Show {
    fn show(&self) -> String;
}
macro_rules! show_display {
    ($($t:ty),*) => {$(impl Show for $t { fn show(&self) -> String { format!("{}", self) } })*};
}
show_display!(i64, i128, u8, u16, bool, String, char);
impl Show for OrderedFloat<f64> {
    fn show(&self) -> String {
        format!("{:?}", self.0)
    }
}
impl Show for PushProgram {
    fn show(&self) -> String {
        match self {
            PushProgram::Instruction(PushInstruction::IntInstruction(IntInstruction::Push(v))) => {
                format!("push({})", v.0)
            }
            other => format!("{other:?}"),
        }
    }
}

/// (max size, items top first) by popping a clone.
pub fn dump<T: Clone + Show>(s: &Stack<T>) -> Value {
    let mut c = s.clone();
    let mut items = Vec::new();
    while let Ok(x) = c.pop() {
        items.push(x.show());
    }
    let cap = s.max_stack_size();
    json!({"cap": if cap == usize::MAX { json!("MAX") } else { json!(cap) }, "top_first": items, "size": s.size()})
}

pub fn err_name(e: &StackError) -> &'static str {
    match e {
        StackError::Overflow { .. } => "Overflow",
        StackError::Underflow { .. } => "Underflow",
    }
}

fn probe(st: &PushState, name: &str) -> String {
    let mut c = st.clone();
    c.stack_mut::<i64>().set_max_stack_size(usize::MAX);
    c.stack_mut::<OrderedFloat<f64>>().set_max_stack_size(usize::MAX);
    c.stack_mut::<bool>().set_max_stack_size(usize::MAX);
    let (i0, f0, b0) = (
        c.stack::<i64>().size(),
        c.stack::<OrderedFloat<f64>>().size(),
        c.stack::<bool>().size(),
    );
    let instr = PushInstruction::InputVar(VariableName::from(name));
    let r = std::panic::catch_unwind(std::panic::AssertUnwindSafe(|| instr.perform(c)));
    match r {
        Err(_) => "unbound".to_string(),
        Ok(Err(_)) => "error".to_string(),
        Ok(Ok(s)) => {
            if s.stack::<i64>().size() == i0 + 1 {
                format!("int:{}", s.stack::<i64>().top().unwrap().show())
            } else if s.stack::<OrderedFloat<f64>>().size() == f0 + 1 {
                format!("float:{}", s.stack::<OrderedFloat<f64>>().top().unwrap().show())
            } else if s.stack::<bool>().size() == b0 + 1 {
                format!("bool:{}", s.stack::<bool>().top().unwrap().show())
            } else {
                "nothing-pushed".to_string()
            }
        }
    }
}

pub fn obs_push_state(st: &PushState, names: &[&str]) -> Value {
    let mut inputs = serde_json::Map::new();
    for n in names {
        inputs.insert((*n).to_string(), json!(probe(st, n)));
    }
    json!({
        "exec": dump(st.stack::<PushProgram>()),
        "stacks": {
            "int": dump(st.stack::<i64>()),
            "float": dump(st.stack::<OrderedFloat<f64>>()),
            "bool": dump(st.stack::<bool>()),
        },
        "steps": st.max_instruction_steps(),
        "inputs": inputs,
    })
}

fn map_inputs<V: Debug>(m: &std::collections::HashMap<VariableName, V>) -> Value {
    let mut out = serde_json::Map::new();
    for (k, v) in m {
        out.insert(k.to_string(), json!(format!("{v:?}")));
    }
    Value::Object(out)
}

pub fn obs_twin(st: &Twin, _names: &[&str]) -> Value {
    json!({
        "exec": dump(&st.code),
        "stacks": {"left": dump(&st.a), "b": dump(&st.b)},
        "steps": st.max_steps,
        "inputs": map_inputs(&st.inputs),
    })
}

pub fn obs_bare(st: &Bare, _names: &[&str]) -> Value {
    json!({
        "exec": dump(&st.exec),
        "stacks": {"words": dump(&st.words)},
        "steps": Value::Null,
        "inputs": {},
    })
}

pub fn obs_solo(st: &Solo, _names: &[&str]) -> Value {
    // through the *generated* accessor
    json!({
        "exec": dump(st.stack::<u16>()),
        "stacks": {},
        "steps": st.lim,
        "inputs": {},
    })
}

pub fn obs_wide(st: &Wide, _names: &[&str]) -> Value {
    json!({
        "exec": dump(&st.exec),
        "stacks": {"big_numbers": dump(&st.big_numbers), "flag": dump(&st.some_flags), "text": dump(&st.text)},
        "steps": st.step_budget,
        "inputs": map_inputs(&st.input_table),
    })
}

pub fn obs_odd(st: &Odd, _names: &[&str]) -> Value {
    json!({
        "exec": dump(&st.program),
        "stacks": {"num": dump(&st.numbers), "words": dump(&st.words)},
        "steps": st.budget,
        "inputs": map_inputs(&st.table),
    })
}

pub fn seq_ok(id: usize, obs: Value) {
    println!("SEQ {}", json!({"id": id, "ok": true, "obs": obs}));
}

pub fn seq_err(id: usize, at: usize, e: &StackError) {
    println!("SEQ {}", json!({"id": id, "ok": false, "at": at, "error": err_name(e)}));
}

fn report(check: &str, ok: bool, detail: Value) {
    println!("STATIC {}", json!({"check": check, "ok": ok, "detail": detail}));
}

fn permutations(n: usize) -> Vec<Vec<usize>> {
    fn go(cur: &mut Vec<usize>, used: &mut Vec<bool>, out: &mut Vec<Vec<usize>>) {
        if cur.len() == used.len() {
            out.push(cur.clone());
            return;
        }
        for i in 0..used.len() {
            if !used[i] {
                used[i] = true;
                cur.push(i);
                go(cur, used, out);
                cur.pop();
                used[i] = false;
            }
        }
    }
    let mut out = Vec::new();
    go(&mut Vec::new(), &mut vec![false; n], &mut out);
    out
}

/// Named inputs resolve to their values regardless of declaration order: all n! orders.
fn inputs_any_order() {
    #[derive(Clone, Copy)]
    enum V {
        I(i64),
        F(f64),
        B(bool),
    }
    let all = [
        ("alpha", V::I(11)),
        ("beta", V::F(2.5)),
        ("gamma", V::B(true)),
        ("delta", V::I(-4)),
        ("epsilon", V::B(false)),
    ];
    let mut orders = 0usize;
    for n in 0..=all.len() {
        let decl = &all[..n];
        let mut reference: Option<PushState> = None;
        for perm in permutations(n) {
            let mut b = PushState::builder()
                .with_max_stack_size(8)
                .with_no_program()
                .with_instruction_step_limit(10);
            for &i in &perm {
                let (name, v) = decl[i];
                b = match v {
                    V::I(x) => b.with_int_input(name, x),
                    V::F(x) => b.with_float_input(name, OrderedFloat(x)),
                    V::B(x) => b.with_bool_input(name, x),
                };
            }
            let st = b.build();
            orders += 1;
            for (name, v) in decl {
                let want = match v {
                    V::I(x) => format!("int:{x}"),
                    V::F(x) => format!("float:{x:?}"),
                    V::B(x) => format!("bool:{x}"),
                };
                let got = probe(&st, name);
                if got != want {
                    report("inputs-any-order", false, json!({"declaration_order": perm.iter().map(|i| decl[*i].0).collect::<Vec<_>>(), "name": name, "expected": want, "observed": got}));
                    return;
                }
            }
            match &reference {
                None => reference = Some(st),
                Some(r) => {
                    if *r != st {
                        report("inputs-any-order", false, json!({"declaration_order": perm.iter().map(|i| decl[*i].0).collect::<Vec<_>>(), "problem": "states built with different declaration orders are not equal"}));
                        return;
                    }
                }
            }
        }
    }
    report("inputs-any-order", true, json!({"declaration_orders_tried": orders}));
}

/// The first element of the supplied program is the first to execute (observed by running).
fn program_order_by_running() {
    let mut tried = 0;
    for n in 0..=6usize {
        let prog: Vec<PushProgram> = (0..n).map(|k| PushProgram::from(IntInstruction::push(100 + k as i64))).collect();
        let st = PushState::builder()
            .with_max_stack_size(10)
            .with_program(prog)
            .unwrap()
            .with_instruction_step_limit(100)
            .build();
        // one step executes exactly the first element
        if n > 0 {
            let one = PushState::builder()
                .with_max_stack_size(10)
                .with_program((0..n).map(|k| PushProgram::from(IntInstruction::push(100 + k as i64))).collect::<Vec<_>>())
                .unwrap()
                .with_instruction_step_limit(1)
                .build()
                .run_to_completion()
                .unwrap();
            if one.stack::<i64>().top().ok() != Some(&100) {
                report("program-order", false, json!({"program_len": n, "problem": "after one step the int stack does not hold the first program element", "int": dump(one.stack::<i64>())}));
                return;
            }
        }
        let done = st.run_to_completion().unwrap();
        let got = dump(done.stack::<i64>());
        let want: Vec<String> = (0..n).rev().map(|k| format!("{}", 100 + k)).collect();
        tried += 1;
        if got["top_first"] != json!(want) {
            report("program-order", false, json!({"program_len": n, "expected_top_first": want, "observed": got}));
            return;
        }
    }
    report("program-order", true, json!({"programs_run": tried}));
}

/// More values / program elements than the maximum => Overflow; exactly at capacity => Ok.
fn overflow_boundary() {
    let mut cases = 0usize;
    for cap in 0..=5usize {
        for len in 0..=7usize {
            let fits = len <= cap;
            let ints: Vec<i64> = (0..len as i64).collect();
            let floats: Vec<OrderedFloat<f64>> = (0..len).map(|k| OrderedFloat(k as f64)).collect();
            let bools: Vec<bool> = (0..len).map(|k| k % 2 == 0).collect();
            let prog: Vec<PushProgram> = (0..len).map(|k| PushProgram::from(IntInstruction::push(k as i64))).collect();
            let base = || PushState::builder().with_max_stack_size(9).with_instruction_step_limit(1);
            let results = [
                ("int", base().with_int_max_size(cap).with_int_values(ints.clone()).map(|b| b.with_no_program().build().stack::<i64>().size()).map_err(|e| err_name(&e))),
                ("float", base().with_float_max_size(cap).with_float_values(floats.clone()).map(|b| b.with_no_program().build().stack::<OrderedFloat<f64>>().size()).map_err(|e| err_name(&e))),
                ("bool", base().with_bool_max_size(cap).with_bool_values(bools.clone()).map(|b| b.with_no_program().build().stack::<bool>().size()).map_err(|e| err_name(&e))),
                ("program", PushState::builder().with_max_stack_size(cap).with_instruction_step_limit(1).with_program(prog.clone()).map(|b| b.build().stack::<PushProgram>().size()).map_err(|e| err_name(&e))),
                ("twin.left", Twin::builder().with_max_stack_size(9).with_left_max_size(cap).with_left_values(ints.clone()).map(|b| b.with_no_program().with_instruction_step_limit(0).build().a.size()).map_err(|e| err_name(&e))),
                ("twin.b", Twin::builder().with_max_stack_size(9).with_b_max_size(cap).with_b_values(ints.clone()).map(|b| b.with_no_program().with_instruction_step_limit(0).build().b.size()).map_err(|e| err_name(&e))),
                ("twin.program", Twin::builder().with_max_stack_size(cap).with_program(ints.clone()).map(|b| b.with_instruction_step_limit(0).build().code.size()).map_err(|e| err_name(&e))),
            ];
            for (what, r) in results {
                cases += 1;
                let ok = if fits { r == Ok(len) } else { r == Err("Overflow") };
                if !ok {
                    report("overflow-boundary", false, json!({"stack": what, "max_size": cap, "values_supplied": len, "expected": if fits { "Ok" } else { "Err(Overflow)" }, "observed": format!("{r:?}")}));
                    return;
                }
            }
            // second call on top of a first one: the total counts
            if cap >= 2 {
                cases += 1;
                let r = base().with_int_max_size(cap).with_int_values(vec![1i64, 2]).unwrap().with_int_values(ints.clone());
                let fits2 = 2 + len <= cap;
                if r.is_ok() != fits2 {
                    report("overflow-boundary", false, json!({"stack": "int (second with_int_values call)", "max_size": cap, "already_loaded": 2, "values_supplied": len, "expected_ok": fits2}));
                    return;
                }
            }
        }
    }
    // the overflow that is reported does not depend on the form in which the program was handed
    // over (programs, instructions, integer instructions: all convert into programs)
    {
        use push::instruction::PushInstruction;
        let as_programs: Vec<PushProgram> = (0..5).map(|k| PushProgram::from(IntInstruction::push(k))).collect();
        let as_instructions: Vec<PushInstruction> = (0..5).map(|k| PushInstruction::from(IntInstruction::push(k))).collect();
        let as_int_instructions: [IntInstruction; 5] = std::array::from_fn(|k| IntInstruction::push(k as i64));
        let build = || PushState::builder().with_max_stack_size(3).with_instruction_step_limit(1);
        let e1 = build().with_program(as_programs).map(|_| ()).map_err(|e| format!("{e:?}"));
        let e2 = build().with_program(as_instructions).map(|_| ()).map_err(|e| format!("{e:?}"));
        let e3 = build().with_program(as_int_instructions).map(|_| ()).map_err(|e| format!("{e:?}"));
        cases += 1;
        if e1.is_ok() || e1 != e2 || e1 != e3 {
            report("overflow-boundary", false, json!({"stack": "program of 5 on an exec stack of 3, supplied in three forms", "as Vec<PushProgram>": format!("{e1:?}"), "as Vec<PushInstruction>": format!("{e2:?}"), "as [IntInstruction; 5]": format!("{e3:?}"), "expected": "the same Overflow error from all three"}));
            return;
        }
    }
    // supplies that only *announce* their length (exact-size iterators of up to usize::MAX items),
    // onto empty and already loaded stacks, bounded and unbounded: an overflow error, never a
    // panic or an attempt to reserve what was announced
    for (what, loaded, cap) in [("empty bounded", 0usize, 5usize), ("loaded bounded", 2, 5), ("loaded unbounded", 3, usize::MAX), ("loaded, nearly unbounded", 1, usize::MAX - 1)] {
        for announce in [usize::MAX, usize::MAX - 1, usize::MAX - loaded, usize::MAX / 2 + 1, 6] {
            cases += 1;
            let fits = loaded.checked_add(announce).is_some_and(|t| t <= cap);
            if fits {
                continue; // would really have to materialise the values
            }
            let r = std::panic::catch_unwind(|| {
                let b = PushState::builder().with_max_stack_size(cap).with_instruction_step_limit(1).with_int_values((0..loaded as i64).collect::<Vec<_>>()).map_err(|e| err_name(&e))?;
                let by_repeat = b.with_int_values(std::iter::repeat_n(7i64, announce)).map(|_| ()).map_err(|e| err_name(&e));
                let b = PushState::builder().with_max_stack_size(cap).with_instruction_step_limit(1).with_int_values((0..loaded as i64).collect::<Vec<_>>()).map_err(|e| err_name(&e))?;
                let by_range = b.with_int_values((0..announce).map(|x| x as i64)).map(|_| ()).map_err(|e| err_name(&e));
                Ok::<_, &'static str>((by_repeat, by_range))
            });
            let ok = matches!(&r, Ok(Ok((Err("Overflow"), Err("Overflow")))));
            if !ok {
                let observed = match &r { Ok(x) => format!("{x:?}"), Err(_) => "panic".to_string() };
                report("overflow-boundary", false, json!({"stack": format!("int ({what})"), "max_size": cap.to_string(), "already_loaded": loaded, "values_announced_by_an_exact_size_iterator": announce.to_string(), "expected": "Err(Overflow) from both supplies", "observed": observed}));
                return;
            }
        }
    }
    // ... and the same for programs: a lazily produced program of astronomic announced length is
    // refused from its length, for PushState and for a macro fixture
    for announce in [usize::MAX, usize::MAX - 1, 1usize << 60, 1 << 40] {
        cases += 1;
        let r = std::panic::catch_unwind(|| {
            let a = PushState::builder().with_max_stack_size(16).with_instruction_step_limit(1).with_program((0..announce).map(|k| PushProgram::from(IntInstruction::push(k as i64)))).map(|_| ()).map_err(|e| err_name(&e));
            let b = PushState::builder().with_max_stack_size(16).with_instruction_step_limit(1).with_program(std::iter::repeat_n(IntInstruction::push(1), announce)).map(|_| ()).map_err(|e| err_name(&e));
            let c = Twin::builder().with_max_stack_size(16).with_program((0..announce).map(|k| k as i64)).map(|_| ()).map_err(|e| err_name(&e));
            (a, b, c)
        });
        if !matches!(&r, Ok((Err("Overflow"), Err("Overflow"), Err("Overflow")))) {
            let observed = match &r { Ok(x) => format!("{x:?}"), Err(_) => "panic".to_string() };
            report("overflow-boundary", false, json!({"stack": "exec (program supplied lazily)", "max_size": 16, "program_elements_announced_by_an_exact_size_iterator": announce.to_string(), "expected": "Err(Overflow) from all three supplies", "observed": observed}));
            return;
        }
    }
    report("overflow-boundary", true, json!({"cases": cases}));
}

/// `stack::<T>()` and `stack_mut::<T>()` address the field declared for T.
fn accessors() {
    let st = PushState::builder()
        .with_max_stack_size(7)
        .with_int_max_size(3)
        .with_float_max_size(4)
        .with_bool_max_size(5)
        .with_program(vec![PushProgram::from(IntInstruction::push(1))])
        .unwrap()
        .with_int_values([10i64, 20])
        .unwrap()
        .with_float_values([OrderedFloat(0.5)])
        .unwrap()
        .with_bool_values([true, false, true])
        .unwrap()
        .with_instruction_step_limit(2)
        .build();
    let mut ok = st.stack::<i64>().max_stack_size() == 3
        && st.stack::<OrderedFloat<f64>>().max_stack_size() == 4
        && st.stack::<bool>().max_stack_size() == 5
        && st.stack::<PushProgram>().max_stack_size() == 7
        && st.stack::<i64>().size() == 2
        && st.stack::<OrderedFloat<f64>>().size() == 1
        && st.stack::<bool>().size() == 3
        && st.stack::<PushProgram>().size() == 1;
    // stack_mut writes where stack reads, and nowhere else
    let mut m = st.clone();
    m.stack_mut::<i64>().push(99).unwrap();
    ok &= m.stack::<i64>().top().ok() == Some(&99)
        && m.stack::<bool>() == st.stack::<bool>()
        && m.stack::<OrderedFloat<f64>>() == st.stack::<OrderedFloat<f64>>()
        && m.stack::<PushProgram>() == st.stack::<PushProgram>();
    let mut m2 = st.clone();
    m2.stack_mut::<bool>().pop().unwrap();
    ok &= m2.stack::<bool>().size() == 2 && m2.stack::<i64>() == st.stack::<i64>();
    let mut m3 = st.clone();
    m3.stack_mut::<PushProgram>().pop().unwrap();
    ok &= m3.stack::<PushProgram>().size() == 0 && m3.stack::<i64>() == st.stack::<i64>();
    let mut s = Solo::builder().with_max_stack_size(3).with_program([5u16, 6]).unwrap().with_instruction_step_limit(1).build();
    s.stack_mut::<u16>().push(7).unwrap();
    ok &= s.exec.size() == 3 && s.exec.top().ok() == Some(&7) && s.stack::<u16>().max_stack_size() == 3;
    report("accessors", ok, json!({"push_state": obs_push_state(&st, &[])}));
}

/// Builder names that are each other's field names: every `with_<name>_*` method must act on the
/// field that *declares* that builder name.
fn crossed_builder_names() {
    let built = Crossed::builder()
        .with_max_stack_size(9)
        .with_locals_max_size(2)
        .with_globals_max_size(5)
        .with_locals_values(vec![1i64, 2])
        .and_then(|b| b.with_globals_values(vec![10i64, 20, 30, 40]))
        .map(|b| b.with_no_program().build());
    let ok = match &built {
        Ok(st) => dump(&st.globals) == dump_of(&[1, 2], 2) && dump(&st.locals) == dump_of(&[10, 20, 30, 40], 5),
        Err(_) => false,
    };
    // three values exceed the limit of 2 set through the `locals` builder name only
    let over = Crossed::builder().with_max_stack_size(9).with_locals_max_size(2).with_globals_max_size(5).with_locals_values(vec![1i64, 2, 3]).map(|_| ()).map_err(|e| err_name(&e));
    let fits = Crossed::builder().with_max_stack_size(9).with_locals_max_size(2).with_globals_max_size(5).with_globals_values(vec![1i64, 2, 3]).map(|_| ()).map_err(|e| err_name(&e));
    let ok = ok && over == Err("Overflow") && fits == Ok(());
    report("crossed-builder-names", ok, json!({"built": built.as_ref().map(|st| json!({"field globals (builder name locals)": dump(&st.globals), "field locals (builder name globals)": dump(&st.locals)})).map_err(|e| err_name(e)),
        "three values through with_locals_values (limit 2)": format!("{over:?}"), "three values through with_globals_values (limit 5)": format!("{fits:?}")}));
}

fn dump_of(values_top_first: &[i64], max: usize) -> Value {
    let mut s: Stack<i64> = Stack::default();
    s.set_max_stack_size(max);
    let _ = s.push_many(values_top_first.to_vec());
    dump(&s)
}

/// Fields the macro knows nothing about keep the values the struct's own `Default` gives them.
fn extra_fields_preserved() {
    let st = Extra::builder().with_max_stack_size(4).with_nums_values(vec![7i64]).map(|b| b.with_program(vec![1u8, 2]).map(|b| b.with_instruction_step_limit(9).build()));
    let ok = matches!(&st, Ok(Ok(s)) if s.fuel == 1000 && s.label == "fresh" && s.lim == 9 && s.nums.size() == 1 && s.exec.size() == 2);
    report("extra-fields-preserved", ok, json!({"built": format!("{st:?}").chars().take(400).collect::<String>(), "expected": "fuel = 1000, label = \"fresh\" (the struct's own Default), lim = 9"}));
}

/// "has the maximum size last set for it (globally or individually)" over the whole range of
/// sizes, far beyond anything that could be filled: 0, 1, around 2^31 / 2^32 / 2^63 and usize::MAX.
fn extreme_sizes() {
    let sizes = [0usize, 1, 2, u32::MAX as usize - 1, u32::MAX as usize, u32::MAX as usize + 1, (1usize << 32) + 1, i64::MAX as usize - 1, i64::MAX as usize, i64::MAX as usize + 1, usize::MAX / 2 + 2, usize::MAX - 1, usize::MAX];
    let mut cases = 0usize;
    for &s in &sizes {
        cases += 1;
        let st = PushState::builder().with_max_stack_size(s).with_no_program().with_instruction_step_limit(1).build();
        let global = [st.stack::<i64>().max_stack_size(), st.stack::<OrderedFloat<f64>>().max_stack_size(), st.stack::<bool>().max_stack_size(), st.stack::<PushProgram>().max_stack_size()];
        let st = PushState::builder().with_max_stack_size(3).with_int_max_size(s).with_bool_max_size(s).with_no_program().with_instruction_step_limit(1).build();
        let individual = [st.stack::<i64>().max_stack_size(), st.stack::<OrderedFloat<f64>>().max_stack_size(), st.stack::<bool>().max_stack_size(), st.stack::<PushProgram>().max_stack_size()];
        let st = PushState::builder().with_max_stack_size(s).with_float_max_size(7).with_max_stack_size(5).with_float_max_size(s).with_float_max_size(2).with_int_max_size(s).with_no_program().with_instruction_step_limit(1).build();
        let last_wins = [st.stack::<i64>().max_stack_size(), st.stack::<OrderedFloat<f64>>().max_stack_size(), st.stack::<bool>().max_stack_size(), st.stack::<PushProgram>().max_stack_size()];
        let tw = Twin::builder().with_max_stack_size(4).with_left_max_size(s).with_no_program().with_instruction_step_limit(0).build();
        let twin = [tw.a.max_stack_size(), tw.b.max_stack_size(), tw.code.max_stack_size()];
        if global != [s; 4] || individual != [s, 3, s, 3] || last_wins != [s, 2, 5, 5] || twin != [s, 4, 4] {
            let show = |v: &[usize]| v.iter().map(|x| x.to_string()).collect::<Vec<_>>();
            report("extreme-sizes", false, json!({"size": s.to_string(), "global [int, float, bool, exec]": show(&global), "int and bool individually after a global 3": show(&individual), "expected": show(&[s, 3, s, 3]),
                "global s, float 7, global 5, float s, float 2, int s": show(&last_wins), "expected_last_wins": show(&[s, 2, 5, 5]), "twin [left, b, code] with left set individually after a global 4": show(&twin)}));
            return;
        }
    }
    report("extreme-sizes", true, json!({"sizes": cases}));
}

pub fn static_checks() {
    extreme_sizes();
    crossed_builder_names();
    extra_fields_preserved();
    inputs_any_order();
    program_order_by_running();
    overflow_boundary();
    accessors();
}
