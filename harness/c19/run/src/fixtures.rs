//! Harness-defined state structs the `#[push_state]` macro is applied to: different
//! numbers, names and element types of stacks, renamed builder methods, custom input
//! instructions, with and without input / step-limit fields.
#![allow(dead_code)]

use std::collections::HashMap;

use push::{instruction::variable_name::VariableName, push_vm::stack::Stack};

/// Value type of `Twin`'s input map: remembers which stack's constructor made it.
#[derive(Debug, Clone, PartialEq, Eq)]
pub enum TwinInput {
    Left(i64),
    Right(i64),
}

impl TwinInput {
    pub fn left(v: i64) -> Self {
        Self::Left(v)
    }
    pub fn right(v: i64) -> Self {
        Self::Right(v)
    }
}

/// Two stacks of the *same* element type (so only the macro's field bookkeeping keeps
/// them apart), one with a renamed builder method, custom input instructions.
#[derive(Default, Debug, Clone, PartialEq)]
#[push::push_state(!has_stack, builder)]
pub struct Twin {
    #[stack(exec)]
    pub code: Stack<i64>,
    #[stack(builder_name = left, instruction_name = TwinInput::left)]
    pub a: Stack<i64>,
    #[stack(instruction_name = TwinInput::right)]
    pub b: Stack<i64>,
    #[input_instructions]
    pub inputs: HashMap<VariableName, TwinInput>,
    #[instruction_step_limit]
    pub max_steps: usize,
}

/// No inputs, no step limit, a non-Copy element type.
#[derive(Default, Debug, Clone, PartialEq)]
#[push::push_state(!has_stack, builder)]
pub struct Bare {
    #[stack(exec)]
    pub exec: Stack<u8>,
    #[stack]
    pub words: Stack<String>,
}

/// Exec stack only, with the generated `HasStack` accessors (default flags + builder).
#[derive(Default, Debug, Clone, PartialEq)]
#[push::push_state(builder)]
pub struct Solo {
    #[stack(exec)]
    pub exec: Stack<u16>,
    #[instruction_step_limit]
    pub lim: usize,
}

/// Three data stacks of distinct types with snake_case names of several words.
#[derive(Default, Debug, Clone, PartialEq)]
#[push::push_state(!has_stack, builder)]
pub struct Wide {
    #[stack(exec)]
    pub exec: Stack<char>,
    #[stack(instruction_name = WideInput::Big)]
    pub big_numbers: Stack<i128>,
    #[stack(builder_name = flag, instruction_name = WideInput::Flag)]
    pub some_flags: Stack<bool>,
    #[stack(instruction_name = WideInput::Text)]
    pub text: Stack<String>,
    #[input_instructions]
    pub input_table: HashMap<VariableName, WideInput>,
    #[instruction_step_limit]
    pub step_budget: usize,
}

#[derive(Debug, Clone, PartialEq, Eq)]
pub enum WideInput {
    Big(i128),
    Flag(bool),
    Text(String),
}

/// Fields in an unusual order (input table first, a data stack, the step limit in the middle,
/// another data stack, the exec stack *last*), macro flags and attribute options written in the
/// other order, `sample_values` present: the macro must go by the attributes, not by position.
#[derive(Default, Debug, Clone, PartialEq)]
#[push::push_state(builder, !has_stack)]
pub struct Odd {
    #[input_instructions]
    pub table: HashMap<VariableName, OddInput>,
    // options spread over several attributes, the instruction name first
    #[stack(instruction_name = OddInput::Num)]
    #[stack(builder_name = num)]
    #[stack(sample_values = [1, 2])]
    pub numbers: Stack<i64>,
    #[instruction_step_limit]
    pub budget: usize,
    #[stack(sample_values = ["x".to_string()], instruction_name = OddInput::Word)]
    pub words: Stack<String>,
    #[stack(exec)]
    pub program: Stack<u16>,
}

#[derive(Debug, Clone, PartialEq, Eq)]
pub enum OddInput {
    Num(i64),
    Word(String),
}

/// Two stacks of the same element type whose builder names are *each other's field names*:
/// `with_locals_*` configures the field `globals` and vice versa.
#[derive(Default, Debug, Clone, PartialEq)]
#[push::push_state(!has_stack, builder)]
pub struct Crossed {
    #[stack(exec)]
    pub exec: Stack<u8>,
    #[stack(builder_name = locals)]
    pub globals: Stack<i64>,
    #[stack(builder_name = globals)]
    pub locals: Stack<i64>,
}

/// Extra, non-annotated fields and a hand-written `Default` that gives them non-trivial values:
/// a built state keeps them.
#[derive(Debug, Clone, PartialEq)]
#[push::push_state(!has_stack, builder)]
pub struct Extra {
    #[stack(exec)]
    pub exec: Stack<u8>,
    pub fuel: u32,
    #[stack]
    pub nums: Stack<i64>,
    pub label: String,
    #[instruction_step_limit]
    pub lim: usize,
}

impl Default for Extra {
    fn default() -> Self {
        Self { exec: Stack::default(), fuel: 1000, nums: Stack::default(), label: "fresh".to_string(), lim: 0 }
    }
}
