//! One binary per property: a change to the library that stops another monitor's harness code from
//! compiling (a narrowed bound, a renamed item) must not take this monitor down with it.
#![allow(dead_code)]

#[path = "../common.rs"]
mod common;
#[path = "../c08.rs"]
mod c08;

fn main() {
    let args = vh_core::Args::parse();
    std::process::exit(c08::run(&args));
}
