//! One binary per property: a change to the library that stops another monitor's harness code from
//! compiling (a narrowed bound, a renamed item) must not take this monitor down with it.
#![allow(dead_code)]

#[path = "../c11.rs"]
mod c11;

fn main() {
    let args = vh_core::Args::parse();
    std::process::exit(c11::run(&args));
}
