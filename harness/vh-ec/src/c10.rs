//! C10 — crossover recombines parental genes position-wise and reports misuse as errors.
//!
//! Oracle: tagged parents (gene = (parent, position); for `Bitstring` complementary parents
//! so that the origin of every bit is readable, plus random parents). Child length = parent
//! length; child[i] is p1[i] or p2[i]; two-point: the positions taken from the second
//! parent form one contiguous (possibly empty) segment and over the draws *every* segment
//! [i, j) with 0 <= i < j <= len and the empty exchange occur; empty parents give an empty
//! child; different lengths give `DifferentGenomeLength` with both lengths. Exchange
//! primitives on `Bitstring`: every index / range argument on genomes of length 0..=4
//! (equal and different lengths): in range => exactly the addressed genes swapped,
//! out of range of either genome => `Err`, never a panic, both genomes unchanged.

use std::collections::BTreeSet;

use ec_core::operator::recombinator::Recombinator;
use ec_linear::{
    genome::bitstring::Bitstring,
    recombinator::{crossover::Crossover, two_point_xo::TwoPointXo, uniform_xo::UniformXo},
};
use vh_core::{catch, fnv_str, json, mix, shard::run_shards, Args, Report, TraceRng};

type Tag = (u8, u32);

fn tagged(parent: u8, len: usize) -> Vec<Tag> {
    (0..len as u32).map(|i| (parent, i)).collect()
}

#[derive(Clone, Copy, Debug, PartialEq, Eq, Hash)]
enum Xo {
    TwoPoint,
    Uniform,
}

#[derive(Clone, Copy, Debug, PartialEq, Eq, Hash)]
enum Flavour {
    VecArray,
    VecTuple,
    BitArray,
    BitTuple,
}

/// Which positions of the child came from the second parent; None = structural violation.
fn origin_vec(child: &[Tag], len: usize) -> Result<Vec<bool>, String> {
    if child.len() != len {
        return Err(format!("child length {} != parent length {len}", child.len()));
    }
    child
        .iter()
        .enumerate()
        .map(|(i, (p, pos))| {
            if *pos as usize != i {
                Err(format!("child position {i} holds a gene from position {pos}"))
            } else if *p > 1 {
                Err(format!("child position {i} holds a gene of neither parent"))
            } else {
                Ok(*p == 1)
            }
        })
        .collect()
}

fn segment_of(from_second: &[bool]) -> Result<Option<(usize, usize)>, String> {
    let ones: Vec<usize> = from_second.iter().enumerate().filter(|(_, b)| **b).map(|(i, _)| i).collect();
    if ones.is_empty() {
        return Ok(None);
    }
    let (lo, hi) = (ones[0], *ones.last().unwrap());
    if hi - lo + 1 != ones.len() {
        return Err(format!("positions taken from the second parent {ones:?} are not contiguous"));
    }
    Ok(Some((lo, hi + 1)))
}

fn run_xo(xo: Xo, fl: Flavour, len: usize, draws: u64, seed: u64, rep: &mut Report) {
    let cfg = format!("{xo:?}/{fl:?}/len={len}");
    let mut rng = TraceRng::derive(seed, "C10", fnv_str(&cfg));
    let mut segments: BTreeSet<Option<(usize, usize)>> = BTreeSet::new();
    let mut masks: BTreeSet<u64> = BTreeSet::new();
    for d in 0..draws {
        rep.eval();
        let r: Result<Result<Vec<bool>, String>, vh_core::PanicInfo> = catch(|| match fl {
            Flavour::VecArray | Flavour::VecTuple => {
                let (a, b) = (tagged(0, len), tagged(1, len));
                let child: Result<Vec<Tag>, String> = match (xo, fl) {
                    (Xo::TwoPoint, Flavour::VecArray) => TwoPointXo.recombine([a, b], &mut rng).map_err(|e| format!("{e:?}")),
                    (Xo::TwoPoint, _) => TwoPointXo.recombine((a, b), &mut rng).map_err(|e| format!("{e:?}")),
                    (Xo::Uniform, Flavour::VecArray) => UniformXo.recombine([a, b], &mut rng).map_err(|e| format!("{e:?}")),
                    (Xo::Uniform, _) => UniformXo.recombine((a, b), &mut rng).map_err(|e| format!("{e:?}")),
                };
                child.and_then(|c| origin_vec(&c, len))
            }
            Flavour::BitArray | Flavour::BitTuple => {
                let a = Bitstring { bits: vec![false; len] };
                let b = Bitstring { bits: vec![true; len] };
                let child: Result<Bitstring, String> = match (xo, fl) {
                    (Xo::TwoPoint, Flavour::BitArray) => TwoPointXo.recombine([a, b], &mut rng).map_err(|e| format!("{e:?}")),
                    (Xo::TwoPoint, _) => TwoPointXo.recombine((a, b), &mut rng).map_err(|e| format!("{e:?}")),
                    (Xo::Uniform, Flavour::BitArray) => UniformXo.recombine([a, b], &mut rng).map_err(|e| format!("{e:?}")),
                    (Xo::Uniform, _) => UniformXo.recombine((a, b), &mut rng).map_err(|e| format!("{e:?}")),
                };
                child.and_then(|c| {
                    if c.bits.len() == len {
                        Ok(c.bits)
                    } else {
                        Err(format!("child length {} != parent length {len}", c.bits.len()))
                    }
                })
            }
        });
        let from_second = match r {
            Err(p) => {
                let what = if len == 0 { "empty-parents-panic" } else { "panic" };
                rep.violation(format!("C10/{xo:?}/{what}"), || json!({"config": cfg, "draw": d, "panic": p.to_string()}));
                return;
            }
            Ok(Err(e)) => {
                rep.violation(format!("C10/{xo:?}/child-structure"), || json!({"config": cfg, "draw": d, "problem": e}));
                return;
            }
            Ok(Ok(f)) => f,
        };
        if rep.wants_sample() && len == 5 && d == 7 {
            rep.sample(|| json!({"kind": "one recombination of tagged parents", "config": cfg, "draw": d, "child_gene_taken_from_second_parent": from_second}));
        }
        if len <= 16 {
            masks.insert(from_second.iter().enumerate().fold(0u64, |m, (i, b)| m | (u64::from(*b) << i)));
        }
        if xo == Xo::TwoPoint {
            match segment_of(&from_second) {
                Ok(s) => {
                    segments.insert(s);
                }
                Err(e) => {
                    rep.violation("C10/TwoPoint/not-contiguous", || json!({"config": cfg, "draw": d, "from_second_parent": from_second, "problem": e}));
                    return;
                }
            }
        }
    }
    rep.distinct(fnv_str(&cfg));
    // coverage: every segment can occur
    if xo == Xo::TwoPoint && len <= 6 {
        let mut missing = Vec::new();
        // the empty exchange (both cut points equal) is recorded but not demanded: the statement
        // speaks of segments, and a sampler that never leaves the child a pure copy is not wrong
        rep.count(if segments.contains(&None) { "TwoPoint:empty-exchange-seen" } else { "TwoPoint:empty-exchange-never-seen(not judged)" });
        for i in 0..len {
            for j in i + 1..=len {
                if !segments.contains(&Some((i, j))) {
                    missing.push(format!("[{i},{j})"));
                }
            }
        }
        let right_end: Vec<&String> = missing.iter().filter(|m| m.ends_with(&format!(",{len})"))).collect();
        if !missing.is_empty() {
            let sig = if right_end.len() == missing.len() { "C10/TwoPoint/segments-touching-right-end-never-occur" } else { "C10/TwoPoint/segment-never-occurs" };
            rep.violation(sig, || json!({"config": cfg, "draws": draws, "segments_never_seen": missing, "segments_seen": segments.iter().map(|s| format!("{s:?}")).collect::<Vec<_>>()}));
        }
        rep.table_push("segment_coverage", json!({"config": cfg, "draws": draws, "distinct_segments_seen": segments.len(), "possible": len * (len + 1) / 2 + 1}));
    }
    if xo == Xo::TwoPoint && len > 6 {
        // longer genomes: not every segment can be expected within the budget, but the classes
        // "touches the left end", "touches the right end", "whole genome", "no exchange" and
        // "strictly inside" have known probabilities under independent uniform cut points; a class
        // (other than "no exchange", which the statement does not require) is demanded only when
        // >= 600 such draws are expected under that law, so that any sampler under which the
        // class is even a tenth as likely still shows it (miss probability < e^-60)
        let l1 = (len + 1) as f64;
        let classes: [(&str, f64, Box<dyn Fn(&Option<(usize, usize)>) -> bool>); 5] = [
            ("a segment touching the left end", 1.0 - (len as f64 / l1).powi(2) - 1.0 / (l1 * l1), Box::new(|s| matches!(s, Some((0, _))))),
            ("a segment touching the right end", 1.0 - (len as f64 / l1).powi(2) - 1.0 / (l1 * l1), Box::new(move |s| matches!(s, Some((_, e)) if *e == len))),
            ("the whole genome", 2.0 / (l1 * l1), Box::new(move |s| *s == Some((0, len)))),
            ("no exchange", 1.0 / l1, Box::new(|s| s.is_none())),
            ("a segment strictly inside", ((len as f64 - 1.0) / l1).powi(2) - (len as f64 - 1.0) / (l1 * l1), Box::new(move |s| matches!(s, Some((a, e)) if *a > 0 && *e < len))),
        ];
        let mut rows = Vec::new();
        for (what, p, pred) in &classes {
            let expected = draws as f64 * p;
            let seen = segments.iter().filter(|s| pred(s)).count();
            rows.push(json!({"class": what, "expected_draws": expected, "distinct_segments_seen": seen, "demanded": expected >= 600.0 && !what.starts_with("no ")}));
            if expected >= 600.0 && seen == 0 && !what.starts_with("no ") {
                let sig = if what.contains("right end") || what.contains("whole") { "C10/TwoPoint/segments-touching-right-end-never-occur" } else { "C10/TwoPoint/segment-never-occurs" };
                rep.violation(sig, || json!({"config": cfg, "draws": draws, "class_never_seen": what, "expected_number_of_such_draws": expected, "distinct_segments_seen": segments.len()}));
            }
        }
        rep.table_push("segment_class_coverage", json!({"config": cfg, "draws": draws, "distinct_segments_seen": segments.len(), "classes": rows}));
    }
    if xo == Xo::Uniform && len <= 6 {
        // "decides every position independently": every one of the 2^len masks occurs
        let all = 1u64 << len;
        if (masks.len() as u64) < all {
            rep.violation("C10/Uniform/mask-never-occurs", || json!({"config": cfg, "draws": draws, "masks_seen": masks.len(), "possible": all}));
        }
        rep.table_push("mask_coverage", json!({"config": cfg, "draws": draws, "distinct_masks_seen": masks.len(), "possible": all}));
    }
}

/// Random (non-complementary) parents: child[i] must be p1[i] or p2[i].
fn random_parents(seed: u64, rounds: usize, rep: &mut Report) {
    let mut g = vh_core::Xo::derive(seed, "C10-random", 0);
    for r in 0..rounds {
        let len = if r % 50 == 0 { *g.pick(&[31usize, 32, 33, 63, 64, 65, 100, 127, 128, 129, 255, 256, 257, 1000, 2049]) } else { g.usize_below(12) };
        let a: Vec<bool> = (0..len).map(|_| g.chance(1, 2)).collect();
        let b: Vec<bool> = (0..len).map(|_| g.chance(1, 2)).collect();
        let mut rng = TraceRng::stream(mix(seed, r as u64));
        for xo in [Xo::TwoPoint, Xo::Uniform] {
            rep.eval();
            let pa = Bitstring { bits: a.clone() };
            let pb = Bitstring { bits: b.clone() };
            let child = catch(|| match xo {
                Xo::TwoPoint => TwoPointXo.recombine([pa, pb], &mut rng).map_err(|e| format!("{e:?}")),
                Xo::Uniform => UniformXo.recombine([pa, pb], &mut rng).map_err(|e| format!("{e:?}")),
            });
            match child {
                Ok(Ok(c)) if c.bits.len() == len && c.bits.iter().enumerate().all(|(i, x)| *x == a[i] || *x == b[i]) => {}
                Err(p) if len == 0 => rep.violation(format!("C10/{xo:?}/empty-parents-panic"), || json!({"panic": p.to_string()})),
                other => rep.violation(format!("C10/{xo:?}/random-parents"), || json!({"p1": a, "p2": b, "observed": format!("{other:?}")})),
            }
        }
    }
}

fn different_lengths(rep: &mut Report) {
    let mut pairs: Vec<(usize, usize)> = Vec::new();
    for l1 in 0..=5usize {
        for l2 in 0..=5usize {
            pairs.push((l1, l2));
        }
    }
    for (a, b) in [(63usize, 64usize), (64, 65), (65, 64), (0, 64), (64, 0), (127, 128), (128, 129), (256, 255), (1000, 1001), (1001, 1000), (0, 1000), (1, 1000), (1000, 1), (64, 128), (4096, 4097)] {
        pairs.push((a, b));
    }
    {
        for (l1, l2) in pairs {
            if l1 == l2 {
                continue;
            }
            let mut rng = TraceRng::stream((l1 * 10 + l2) as u64);
            let before = rng.fingerprint();
            let mut outs: Vec<(&'static str, Result<Result<(), String>, vh_core::PanicInfo>)> = Vec::new();
            outs.push(("TwoPoint/[Vec;2]", catch(|| TwoPointXo.recombine([tagged(0, l1), tagged(1, l2)], &mut rng).map(|_| ()).map_err(|e| format!("{e:?}")))));
            outs.push(("TwoPoint/(Vec,Vec)", catch(|| TwoPointXo.recombine((tagged(0, l1), tagged(1, l2)), &mut rng).map(|_| ()).map_err(|e| format!("{e:?}")))));
            outs.push(("Uniform/[Vec;2]", catch(|| UniformXo.recombine([tagged(0, l1), tagged(1, l2)], &mut rng).map(|_| ()).map_err(|e| format!("{e:?}")))));
            outs.push(("Uniform/(Vec,Vec)", catch(|| UniformXo.recombine((tagged(0, l1), tagged(1, l2)), &mut rng).map(|_| ()).map_err(|e| format!("{e:?}")))));
            let bs = |n: usize| Bitstring { bits: vec![true; n] };
            outs.push(("TwoPoint/[Bitstring;2]", catch(|| TwoPointXo.recombine([bs(l1), bs(l2)], &mut rng).map(|_| ()).map_err(|e| format!("{e:?}")))));
            outs.push(("TwoPoint/(Bitstring,Bitstring)", catch(|| TwoPointXo.recombine((bs(l1), bs(l2)), &mut rng).map(|_| ()).map_err(|e| format!("{e:?}")))));
            outs.push(("Uniform/[Bitstring;2]", catch(|| UniformXo.recombine([bs(l1), bs(l2)], &mut rng).map(|_| ()).map_err(|e| format!("{e:?}")))));
            outs.push(("Uniform/(Bitstring,Bitstring)", catch(|| UniformXo.recombine((bs(l1), bs(l2)), &mut rng).map(|_| ()).map_err(|e| format!("{e:?}")))));
            for (what, out) in outs {
                rep.eval();
                rep.distinct(fnv_str(&format!("difflen{what}{l1}{l2}")));
                let want = format!("DifferentGenomeLength({l1}, {l2})");
                match out {
                    Ok(Err(e)) if e.contains(&want) => rep.count("different-lengths:reported"),
                    other => rep.violation("C10/different-lengths", || json!({"recombinator": what, "lengths": [l1, l2], "expected_error": want, "observed": format!("{other:?}")})),
                }
            }
            let _ = before;
        }
    }
}

fn exchange_primitives(rep: &mut Report) {
    let pattern = |n: usize, salt: usize| -> Vec<bool> { (0..n).map(|i| (i * 3 + salt) % 2 == 0 || i == salt).collect() };
    for l1 in 0..=4usize {
        for l2 in 0..=4usize {
            for salt in 0..2usize {
                let a0 = Bitstring { bits: pattern(l1, salt) };
                let b0 = Bitstring { bits: pattern(l2, salt + 1).iter().map(|x| !x).collect() };
                // single genes
                let mut indices: Vec<usize> = (0..=l1.max(l2) + 2).collect();
                indices.push(usize::MAX);
                for idx in indices {
                    let (mut a, mut b) = (a0.clone(), b0.clone());
                    let r = catch(|| a.crossover_gene(&mut b, idx).map_err(|e| format!("{e:?}")));
                    rep.eval();
                    rep.distinct(fnv_str(&format!("gene{l1}{l2}{salt}{idx}")));
                    let in_range = idx < l1 && idx < l2;
                    let ok = match &r {
                        Err(_) => false,
                        Ok(Ok(())) => {
                            in_range
                                && a.bits.len() == l1
                                && b.bits.len() == l2
                                && (0..l1).all(|i| a.bits[i] == if i == idx { b0.bits[i] } else { a0.bits[i] })
                                && (0..l2).all(|i| b.bits[i] == if i == idx { a0.bits[i] } else { b0.bits[i] })
                        }
                        Ok(Err(_)) => !in_range && a == a0 && b == b0,
                    };
                    rep.count(if in_range { "crossover_gene:in-range" } else { "crossover_gene:out-of-range" });
                    if !ok {
                        let what = if r.is_err() { "panic" } else if in_range { "wrong-swap" } else { "out-of-range-not-rejected" };
                        rep.violation(format!("C10/crossover_gene/{what}"), || {
                            json!({"self": a0.bits, "other": b0.bits, "index": if idx == usize::MAX { json!("usize::MAX") } else { json!(idx) },
                                   "observed": format!("{r:?}"), "self_after": a.bits, "other_after": b.bits})
                        });
                    }
                }
                // segments
                let lim = l1.max(l2) + 2;
                // ... including ranges of astronomic length: they address positions outside both
                // genomes and must be refused before anything is sized after them
                let mut ranges: Vec<(usize, usize)> = (0..=lim).flat_map(|a| (0..=lim).map(move |b| (a, b))).collect();
                ranges.extend([(0, usize::MAX), (1, usize::MAX), (usize::MAX - 1, usize::MAX), (usize::MAX, usize::MAX), (0, usize::MAX / 2 + 1), (2, 1 << 40), (0, 1 << 33), (usize::MAX, 0)]);
                for (start, end) in ranges {
                    {
                        let (mut a, mut b) = (a0.clone(), b0.clone());
                        let r = catch(|| a.crossover_segment(&mut b, start..end).map_err(|e| format!("{e:?}")));
                        rep.eval();
                        rep.distinct(fnv_str(&format!("seg{l1}{l2}{salt}{start}{end}")));
                        let min = l1.min(l2);
                        if start > end {
                            // a reversed range addresses nothing that could be exchanged: whether it
                            // is an error or an empty exchange is not judged, but it must not panic
                            // and must not touch either genome
                            rep.count("crossover_segment:reversed-range");
                            let untouched = a == a0 && b == b0;
                            if r.is_err() || !untouched {
                                let what = if r.is_err() { "out-of-range-panics" } else { "reversed-range-modifies" };
                                rep.violation(format!("C10/crossover_segment/{what}"), || {
                                    json!({"self": a0.bits, "other": b0.bits, "range": format!("{start}..{end}"), "observed": format!("{r:?}"), "self_after": a.bits, "other_after": b.bits})
                                });
                            }
                            continue;
                        }
                        // an empty range that lies beyond the end of either genome (7..7 on five
                        // genes) addresses a position outside it: judged like any other
                        // out-of-range segment (must be an error, nothing touched)
                        let in_range = end <= min;
                        let ok = match &r {
                            Err(_) => false,
                            Ok(Ok(())) => {
                                in_range
                                    && a.bits.len() == l1
                                    && b.bits.len() == l2
                                    && (0..l1).all(|i| a.bits[i] == if (start..end).contains(&i) { b0.bits[i] } else { a0.bits[i] })
                                    && (0..l2).all(|i| b.bits[i] == if (start..end).contains(&i) { a0.bits[i] } else { b0.bits[i] })
                            }
                            Ok(Err(_)) => !in_range && a == a0 && b == b0,
                        };
                        rep.count(if in_range { "crossover_segment:in-range" } else { "crossover_segment:out-of-range" });
                        if !ok {
                            let what = if r.is_err() { "out-of-range-panics" } else if in_range { "wrong-swap" } else { "out-of-range-not-rejected" };
                            rep.violation(format!("C10/crossover_segment/{what}"), || {
                                json!({"self": a0.bits, "other": b0.bits, "range": format!("{start}..{end}"), "observed": format!("{r:?}"), "self_after": a.bits, "other_after": b.bits})
                            });
                        }
                    }
                }
            }
        }
    }
}

/// Long parents (4 million genes): complementary parents (all false / all true) make every gene
/// of the child name its parent, so same length, position-wise origin and - for two-point - one
/// contiguous segment from the second parent are read off directly. A recombination whose cost
/// grows with the square of the length does not finish one evaluation within the hang budget.
fn long_parents(seed: u64, rep: &mut Report) {
    let len = 1usize << 22;
    for (what, two_point, bitstring) in [("TwoPointXo/Vec<bool>", true, false), ("TwoPointXo/Bitstring", true, true), ("UniformXo/Vec<bool>", false, false), ("UniformXo/Bitstring", false, true)] {
        vh_core::shard::set_context(format!("C10 {what} on complementary parents of {len} genes"));
        let (a, b) = (vec![false; len], vec![true; len]);
        let mut rng = TraceRng::new(mix(seed, fnv_str(what)));
        let r = catch(|| -> Result<Vec<bool>, String> {
            match (two_point, bitstring) {
                (true, false) => TwoPointXo.recombine([a, b], &mut rng).map_err(|e| format!("{e:?}")),
                (true, true) => TwoPointXo.recombine([Bitstring { bits: a }, Bitstring { bits: b }], &mut rng).map(|c| c.bits).map_err(|e| format!("{e:?}")),
                (false, false) => UniformXo.recombine([a, b], &mut rng).map_err(|e| format!("{e:?}")),
                (false, true) => UniformXo.recombine([Bitstring { bits: a }, Bitstring { bits: b }], &mut rng).map(|c| c.bits).map_err(|e| format!("{e:?}")),
            }
        });
        rep.eval();
        rep.count("long-parents");
        rep.distinct(fnv_str(&format!("long-{what}")));
        let problem = match &r {
            Err(p) => Some(format!("panic: {p}")),
            Ok(Err(e)) => Some(format!("equal-length parents were refused: {e}")),
            Ok(Ok(c)) if c.len() != len => Some(format!("child of {} genes", c.len())),
            Ok(Ok(c)) => {
                let from_second = c.iter().filter(|x| **x).count();
                // number of places where the origin changes along the child
                let switches = c.windows(2).filter(|w| w[0] != w[1]).count();
                if two_point && switches > 2 {
                    Some(format!("the genes from the second parent do not form one contiguous segment ({switches} origin changes)"))
                } else if two_point && switches == 2 && c[0] {
                    Some("the genes from the *first* parent form the inner segment".to_string())
                } else if !two_point && (from_second < len / 2 - len / 50 || from_second > len / 2 + len / 50) {
                    Some(format!("{from_second} of {len} genes come from the second parent (a fair coin per position gives half, +-2 % is more than 40 standard deviations)"))
                } else {
                    None
                }
            }
        };
        if let Some(why) = problem {
            rep.violation(format!("C10/{}/long-parents", if two_point { "TwoPoint" } else { "Uniform" }), || json!({"operator": what, "parent_length": len, "why": why}));
        }
    }
}

pub fn run(args: &Args) -> i32 {
    let draws = args.tier.pick(500_000u64, 10_000_000u64);
    let mut configs = Vec::new();
    for xo in [Xo::TwoPoint, Xo::Uniform] {
        for fl in [Flavour::VecArray, Flavour::VecTuple, Flavour::BitArray, Flavour::BitTuple] {
            for len in [0usize, 1, 2, 3, 4, 5, 6, 7, 8, 9, 15, 16, 17, 31, 32, 33, 63, 64, 65, 127, 128, 129, 257, 1000] {
                configs.push((xo, fl, len));
            }
        }
    }
    let mut rep = run_shards(configs.len(), args.threads, 16 << 20, |i| {
        let mut rep = Report::new();
        let (xo, fl, len) = configs[i];
        run_xo(xo, fl, len, if len > 8 { (draws * 8 / len as u64).max(draws / 50) } else { draws }, args.seed, &mut rep);
        rep
    });
    // "uniform crossover decides every position independently": at every distance, also
    // beyond one machine word
    let lags = run_shards(8, args.threads, 16 << 20, |i| {
        let mut rep = Report::new();
        crate::c12::uniform_xo_lags("C10/Uniform", i % 4, if i < 4 { 70 } else { 130 }, draws / 5, args.seed, &mut rep);
        rep
    });
    rep.merge(lags);
    let mut extra = Report::new();
    random_parents(args.seed, args.tier.pick(200_000, 4_000_000), &mut extra);
    different_lengths(&mut extra);
    exchange_primitives(&mut extra);
    long_parents(args.seed, &mut extra);
    rep.merge(extra);
    rep.finish(
        args,
        "exploration",
        "TwoPointXo / UniformXo x {[Vec;2], (Vec,Vec), [Bitstring;2], (Bitstring,Bitstring)} x lengths {0..8, 64} with tagged / complementary parents and the stated number of draws (segment and mask coverage for lengths <= 6); all ordered pairs of different lengths 0..5 on all eight flavours; crossover_gene / crossover_segment for every index 0..len+2, usize::MAX and every range start,end in 0..len+2 on genomes of length 0..4 (equal and different lengths). distinct_nontrivial = distinct configurations / argument tuples",
        false,
        &[
            "reversed ranges (start > end) are exercised but not judged (the statement does not speak about them); an empty range beyond the end of either genome is addressed outside it and must be an error",
            "segment coverage needs >= 2e4 draws for <= 22 segments: a correct sampler misses one with probability < 1e-300",
        ],
    )
}
