//! C11 — mutation keeps genome structure: flips stay in place, UMAD only inserts/deletes.
//!
//! Oracle on tagged genomes. Bit-flip (`WithRate`, `WithOneOverLength`; `Vec<bool>`,
//! `Bitstring`, a custom `Not` gene): same length, each gene unchanged or negated, for every
//! stream. UMAD (`Vector<Tag>`, `Plushy`): deleting the fresh genes leaves a subsequence of
//! the parent in original order; at most one fresh gene after each parent position and
//! none before the first; every fresh gene was handed out by the supplied generator
//! *during this call* (serial numbers), each at most once; empty parent => at most one gene,
//! none with `new_without_empty`. Degenerate rates are exact.

use std::cell::Cell;

use ec_core::operator::mutator::Mutator;
use ec_linear::{
    genome::{bitstring::Bitstring, vector::Vector},
    mutator::{umad::Umad, with_one_over_length::WithOneOverLength, with_rate::WithRate},
};
use push::{
    genome::plushy::{Plushy, PushGene},
    instruction::{IntInstruction, PushInstruction},
};
use rand::{distr::Distribution, Rng};
use vh_core::{catch, fnv_str, json, mix, shard::run_shards, Args, Report, TraceRng, Xo};

/// A gene that is not a bool: negation toggles a flag, keeps the payload and counts how often it
/// was applied (a negation that is not an involution: "unchanged or negated" means at most once).
#[derive(Clone, Copy, Debug, PartialEq, Eq)]
pub struct Flag {
    pub pos: u32,
    pub flipped: bool,
    pub times: u8,
}

impl std::ops::Not for Flag {
    type Output = Flag;
    fn not(self) -> Flag {
        Flag { pos: self.pos, flipped: !self.flipped, times: self.times.saturating_add(1) }
    }
}

fn rates() -> Vec<f32> {
    vec![0.0, 1e-3, 0.1, 0.3, 0.5, 0.9, 1.0, 1.5]
}

/// Genome sizes that a 32-bit float cannot hold exactly (odd sizes above 2^24): the 1/length
/// mutator converts the size to a float; structure must survive that.
fn huge_genomes(rep: &mut Report) {
    for len in [(1usize << 24) + 1, (1 << 24) + 3] {
        let bits: Vec<bool> = (0..len).map(|i| i % 7 == 0).collect();
        let mut outs: Vec<(&'static str, Result<Result<Vec<bool>, String>, vh_core::PanicInfo>)> = Vec::new();
        outs.push(("WithOneOverLength/Bitstring", catch(|| WithOneOverLength.mutate(Bitstring { bits: bits.clone() }, &mut TraceRng::new(len as u64)).map(|b| b.bits).map_err(|e| format!("{e:?}")))));
        outs.push(("WithOneOverLength/Vec<bool>", catch(|| WithOneOverLength.mutate(bits.clone(), &mut TraceRng::new(len as u64)).map_err(|e| format!("{e:?}")))));
        outs.push(("WithRate/Bitstring", catch(|| WithRate::new(0.0).mutate(Bitstring { bits: bits.clone() }, &mut TraceRng::new(len as u64)).map(|b| b.bits).map_err(|e| format!("{e:?}")))));
        for (name, out) in outs {
            rep.eval();
            rep.count(&format!("{name}:huge-genome"));
            match out {
                Ok(Ok(c)) if c.len() == len => {
                    if name.starts_with("WithRate") && c != bits {
                        rep.violation(format!("C11/{name}/rate-0-not-identity"), || json!({"length": len}));
                    }
                }
                Ok(Ok(c)) => rep.violation(format!("C11/{name}/length"), || json!({"parent_len": len, "child_len": c.len()})),
                other => rep.violation(format!("C11/{name}/failed"), || json!({"config": format!("len={len}"), "observed": format!("{other:?}").chars().take(300).collect::<String>()})),
            }
        }
    }
}

fn flips(seed: u64, shard: usize, rounds: usize, rep: &mut Report) {
    if shard == 0 {
        huge_genomes(rep);
        umad_long_parents(rep);
        flips_on_long_genomes(rep);
    }
    for r in 0..rounds {
        let mut g = Xo::derive(seed, "C11-flip", (shard * 1_000_003 + r) as u64);
        let len = if g.chance(1, 60) { *g.pick(&[63usize, 64, 65, 100, 127, 128, 129, 255, 256, 257, 1000, 1024, 1025, 4097]) } else { g.usize_below(41) };
        let rate = if g.chance(1, 3) { g.f64() as f32 } else { *g.pick(&rates()) };
        let bits: Vec<bool> = (0..len).map(|_| g.chance(1, 2)).collect();
        let flags: Vec<Flag> = (0..len as u32).map(|pos| Flag { pos, flipped: false, times: 0 }).collect();
        let s = g.next();
        let cfg = format!("len={len} rate={rate}");
        rep.distinct(fnv_str(&format!("{cfg}{}", s % 64)));

        let judge_bits = |name: &str, out: Result<Result<Vec<bool>, String>, vh_core::PanicInfo>, rate: Option<f32>, rep: &mut Report| {
            rep.eval();
            rep.count(name);
            match out {
                Ok(Ok(c)) => {
                    if c.len() != len {
                        rep.violation(format!("C11/{name}/length"), || json!({"config": cfg, "parent_len": len, "child_len": c.len()}));
                        return;
                    }
                    let flipped = c.iter().zip(&bits).filter(|(a, b)| a != b).count();
                    if let Some(rate) = rate {
                        if rate <= 0.0 && flipped != 0 {
                            rep.violation(format!("C11/{name}/rate-0-not-identity"), || json!({"config": cfg, "flipped": flipped}));
                        }
                        if rate >= 1.0 && flipped != len {
                            rep.violation(format!("C11/{name}/rate-1-not-all-flipped"), || json!({"config": cfg, "flipped": flipped, "length": len}));
                        }
                    }
                }
                other => rep.violation(format!("C11/{name}/failed"), || json!({"config": cfg, "observed": format!("{other:?}")})),
            }
        };
        let m = WithRate::new(rate);
        judge_bits("WithRate/Vec<bool>", catch(|| m.mutate(bits.clone(), &mut TraceRng::stream(s)).map_err(|e| format!("{e:?}"))), Some(rate), rep);
        judge_bits(
            "WithRate/Bitstring",
            catch(|| m.mutate(Bitstring { bits: bits.clone() }, &mut TraceRng::stream(s)).map(|b| b.bits).map_err(|e| format!("{e:?}"))),
            Some(rate),
            rep,
        );
        // 1/len: rate 1 for length 1 (all flipped), nothing to do for length 0
        let one_over = if len == 1 { Some(1.0) } else { None };
        judge_bits("WithOneOverLength/Vec<bool>", catch(|| WithOneOverLength.mutate(bits.clone(), &mut TraceRng::stream(s)).map_err(|e| format!("{e:?}"))), one_over, rep);
        judge_bits(
            "WithOneOverLength/Bitstring",
            catch(|| WithOneOverLength.mutate(Bitstring { bits: bits.clone() }, &mut TraceRng::stream(s)).map(|b| b.bits).map_err(|e| format!("{e:?}"))),
            one_over,
            rep,
        );
        // custom Not gene: positions must stay in place
        rep.eval();
        rep.count("WithRate/Vec<Flag>");
        match catch(|| m.mutate(flags.clone(), &mut TraceRng::stream(s))) {
            Ok(Ok(c)) => {
                if c.len() != len || c.iter().enumerate().any(|(i, f)| f.pos as usize != i) {
                    rep.violation("C11/WithRate/Vec<Flag>/moved", || json!({"config": cfg, "child": format!("{c:?}").chars().take(2000).collect::<String>()}));
                } else if let Some(f) = c.iter().find(|f| f.times > 1) {
                    rep.violation("C11/WithRate/Vec<Flag>/negated-more-than-once", || json!({"config": cfg, "gene": format!("{f:?}")}));
                } else if (rate <= 0.0 && c.iter().any(|f| f.times != 0)) || (rate >= 1.0 && c.iter().any(|f| f.times != 1)) {
                    rep.violation("C11/WithRate/Vec<Flag>/degenerate-rate", || json!({"config": cfg}));
                }
            }
            other => rep.violation("C11/WithRate/Vec<Flag>/failed", || json!({"config": cfg, "observed": format!("{other:?}")})),
        }
        rep.eval();
        rep.count("WithOneOverLength/Vec<Flag>");
        match catch(|| WithOneOverLength.mutate(flags.clone(), &mut TraceRng::stream(s))) {
            Ok(Ok(c)) => {
                if c.len() != len || c.iter().enumerate().any(|(i, f)| f.pos as usize != i) {
                    rep.violation("C11/WithOneOverLength/Vec<Flag>/moved", || json!({"config": cfg, "child": format!("{c:?}").chars().take(2000).collect::<String>()}));
                } else if let Some(f) = c.iter().find(|f| f.times > 1) {
                    rep.violation("C11/WithOneOverLength/Vec<Flag>/negated-more-than-once", || json!({"config": cfg, "gene": format!("{f:?}")}));
                }
            }
            other => rep.violation("C11/WithOneOverLength/Vec<Flag>/failed", || json!({"config": cfg, "observed": format!("{other:?}")})),
        }
    }
}

/// UMAD gene for `Vector`: parent genes carry their position, fresh genes a serial number.
#[derive(Clone, Copy, Debug, PartialEq, Eq)]
pub enum UGene {
    Parent(u32),
    Fresh(u32),
}

/// Gene generator that hands out serial numbers and counts how many it produced.
pub struct SerialGen {
    pub next: Cell<u32>,
}

impl SerialGen {
    pub fn new(first: u32) -> Self {
        Self { next: Cell::new(first) }
    }
}

impl Distribution<UGene> for SerialGen {
    fn sample<R: Rng + ?Sized>(&self, rng: &mut R) -> UGene {
        // consume some randomness like a real generator would
        let _ = rng.next_u32();
        let n = self.next.get();
        self.next.set(n + 1);
        UGene::Fresh(n)
    }
}

impl Distribution<PushGene> for SerialGen {
    fn sample<R: Rng + ?Sized>(&self, rng: &mut R) -> PushGene {
        let _ = rng.next_u32();
        let n = self.next.get();
        self.next.set(n + 1);
        // fresh Plushy genes: literals from a disjoint alphabet (>= 1_000_000)
        PushGene::Instruction(PushInstruction::push_int(1_000_000 + i64::from(n)))
    }
}

#[derive(Clone, Copy, Debug)]
struct UmadCfg {
    add: f64,
    del: f64,
    /// Some(rate) / None = without empty-genome addition / "same as add" marker -1
    empty: Option<f64>,
    ctor: u8, // 0 new, 1 new_with_empty_rate, 2 new_without_empty
}

fn check_umad_child(child: &[UGene], len: usize, handed_out: u32, first_serial: u32, cfg: &UmadCfg, cfg_text: &str, name: &str, rep: &mut Report) {
    if let Some((what, why)) = judge_umad_child(child, len, handed_out, first_serial, cfg) {
        rep.violation(format!("C11/Umad/{name}/{what}"), || json!({"config": cfg_text, "parent_len": len, "child": format!("{child:?}").chars().take(3000).collect::<String>(), "why": why}));
    }
}

/// The first way in which `child` is not a legal UMAD child of a parent of `len` tagged genes.
fn judge_umad_child(child: &[UGene], len: usize, handed_out: u32, first_serial: u32, cfg: &UmadCfg) -> Option<(&'static str, String)> {
    let mut first: Option<(&'static str, String)> = None;
    let rep = &mut first;
    let witness = |what: &'static str, rep: &mut Option<(&'static str, String)>, why: String| {
        if rep.is_none() {
            *rep = Some((what, why));
        }
    };
    // surviving parent genes in original order
    let parents: Vec<u32> = child.iter().filter_map(|g| if let UGene::Parent(p) = g { Some(*p) } else { None }).collect();
    if parents.windows(2).any(|w| w[0] >= w[1]) || parents.iter().any(|p| *p as usize >= len) {
        witness("order", rep, format!("surviving parent genes {parents:?} are not a subsequence of the parent"));
        return rep.take();
    }
    // fresh genes: from this call's generator, each at most once
    let fresh: Vec<u32> = child.iter().filter_map(|g| if let UGene::Fresh(s) = g { Some(*s) } else { None }).collect();
    let mut seen = std::collections::BTreeSet::new();
    for s in &fresh {
        if *s < first_serial || *s >= first_serial + handed_out {
            witness("foreign-gene", rep, format!("fresh gene #{s} was not handed out by the generator during this call (serials {first_serial}..{})", first_serial + handed_out));
            return rep.take();
        }
        if !seen.insert(*s) {
            witness("duplicate-gene", rep, format!("fresh gene #{s} occurs twice"));
            return rep.take();
        }
    }
    if len == 0 {
        if child.len() > 1 {
            witness("empty-parent", rep, "an empty parent yields at most one new gene".into());
        }
        if cfg.ctor == 2 && !child.is_empty() {
            witness("empty-parent-without-empty", rep, "empty-genome addition is disabled but a gene was added".into());
        }
        if let Some(e) = cfg.empty {
            if cfg.ctor != 2 {
                if e <= 0.0 && !child.is_empty() {
                    witness("empty-rate-0", rep, "empty addition rate 0 must add nothing".into());
                }
                if e >= 1.0 && child.len() != 1 {
                    witness("empty-rate-1", rep, "empty addition rate 1 must add exactly one gene".into());
                }
            }
        }
        return rep.take();
    }
    // placement: never a fresh gene before parent position 0's slot, at most one fresh
    // gene between consecutive parent positions. With deletions the slots between
    // surviving genes widen: between survivors p < q there are q - p slots.
    let mut slots_used_before_first = 0usize;
    let mut prev: Option<u32> = None;
    let mut run = 0usize;
    let mut ok = true;
    let mut why = String::new();
    for gene in child.iter().chain(std::iter::once(&UGene::Parent(len as u32))) {
        match gene {
            UGene::Fresh(_) => run += 1,
            UGene::Parent(p) => {
                // fresh genes since the previous survivor `prev` (or the start)
                let allowed = match prev {
                    // after survivor a, before survivor p: slots after positions a..p-1
                    Some(a) => (*p - a) as usize,
                    // before the first survivor p: slots after positions 0..p-1 (deleted ones)
                    None => *p as usize,
                };
                if run > allowed {
                    ok = false;
                    why = format!("{run} fresh genes between parent positions {prev:?} and {p}, at most {allowed} fit (one per parent position)");
                }
                if prev.is_none() {
                    slots_used_before_first = run;
                }
                prev = Some(*p);
                run = 0;
            }
        }
    }
    let _ = slots_used_before_first;
    if !ok {
        witness("placement", rep, why);
        return rep.take();
    }
    // degenerate rates are exact
    if cfg.add <= 0.0 && !fresh.is_empty() {
        witness("addition-rate-0", rep, "addition rate 0 must add nothing".into());
    }
    if cfg.del <= 0.0 && parents.len() != len {
        witness("deletion-rate-0", rep, "deletion rate 0 must keep every parent gene".into());
    }
    if cfg.del >= 1.0 && !child.is_empty() {
        witness("deletion-rate-1", rep, "deletion rate 1 must give the empty genome".into());
    }
    if cfg.add <= 0.0 && cfg.del <= 0.0 && child.len() != len {
        witness("rate-0-not-identity", rep, "rates 0 must be the identity".into());
    }
    if cfg.add >= 1.0 && cfg.del <= 0.0 {
        let want_ok = child.len() == 2 * len
            && child.iter().enumerate().all(|(i, g)| if i % 2 == 0 { *g == UGene::Parent((i / 2) as u32) } else { matches!(g, UGene::Fresh(_)) });
        if !want_ok {
            witness("addition-1-deletion-0", rep, "every parent gene must be followed by exactly one new gene".into());
        }
    }
    rep.take()
}

/// Long parents at the extreme rates: a million genes with deletion rate 1 (result empty),
/// deletion rate 0.999999 (long runs in which nothing survives), addition 1 / deletion 1,
/// addition 1 / deletion 0 (exactly one new gene after every parent gene) and a middle setting.
/// UMAD has to answer for every genome size; nothing in it may be sized, or recurse, with the
/// length of a run of deleted genes.
/// Bit-flip on genomes of three million genes at ordinary and extreme rates, all flavours: same
/// length, every gene kept or negated, rate 1 flips all, rate 0 none - and an answer in time
/// linear in the genome.
fn flips_on_long_genomes(rep: &mut Report) {
    let len = 3_000_000usize;
    let parent: Vec<bool> = (0..len).map(|i| i % 5 < 2).collect();
    for rate in [0.0f32, 0.5, 1.0] {
        for flavour in ["Vec<bool>", "Bitstring"] {
            vh_core::shard::set_context(format!("C11 WithRate({rate}) on a {flavour} of {len} genes"));
            let mut rng = TraceRng::new(len as u64 ^ u64::from(rate.to_bits()));
            let out = catch(|| {
                if flavour == "Bitstring" {
                    WithRate::new(rate).mutate(Bitstring { bits: parent.clone() }, &mut rng).map(|b| b.bits).map_err(|e| format!("{e:?}"))
                } else {
                    WithRate::new(rate).mutate(parent.clone(), &mut rng).map_err(|e| format!("{e:?}"))
                }
            });
            rep.eval();
            rep.count(&format!("WithRate/{flavour}:long-genome"));
            rep.distinct(fnv_str(&format!("longflip{rate}{flavour}")));
            match out {
                Ok(Ok(c)) if c.len() == len => {
                    let flipped = c.iter().zip(&parent).filter(|(a, b)| a != b).count();
                    let ok = if rate == 0.0 { flipped == 0 } else if rate >= 1.0 { flipped == len } else { flipped > len / 4 && flipped < 3 * len / 4 };
                    if !ok {
                        rep.violation(format!("C11/WithRate/{flavour}/long-genome"), || json!({"length": len, "rate": rate, "genes_flipped": flipped}));
                    }
                }
                Ok(Ok(c)) => rep.violation(format!("C11/WithRate/{flavour}/length"), || json!({"parent_len": len, "child_len": c.len()})),
                other => rep.violation(format!("C11/WithRate/{flavour}/failed"), || json!({"config": format!("len={len} rate={rate}"), "observed": format!("{other:?}").chars().take(300).collect::<String>()})),
            }
        }
    }
}

fn umad_long_parents(rep: &mut Report) {
    let len = 1_000_000usize;
    for (add, del) in [(0.0f64, 1.0f64), (1.0, 1.0), (0.0, 0.999_999), (0.3, 0.999_999), (1.0, 0.0), (0.3, 0.3)] {
        let cfg = UmadCfg { add, del, empty: Some(add), ctor: 0 };
        let cfg_text = format!("{cfg:?} on a parent of {len} genes");
        vh_core::shard::set_context(format!("C11 {cfg_text}"));
        let gen = SerialGen { next: Cell::new(5) };
        let parent: Vector<UGene> = (0..len as u32).map(UGene::Parent).collect();
        let out = catch(|| Umad::new(add, del, &gen).mutate(parent, &mut TraceRng::new(len as u64 ^ del.to_bits())));
        rep.eval();
        rep.count("Umad/Vector:long-parent");
        rep.distinct(fnv_str(&cfg_text));
        match out {
            Ok(Ok(child)) => check_umad_child(&child.genes, len, gen.next.get() - 5, 5, &cfg, &cfg_text, "Vector", rep),
            other => rep.violation("C11/Umad/Vector/failed", || json!({"config": cfg_text, "observed": format!("{other:?}").chars().take(300).collect::<String>()})),
        }
    }
}

fn umad_round(g: &mut Xo, rep: &mut Report) {
    let len = if g.chance(1, 5) { 0 } else if g.chance(1, 60) { *g.pick(&[63usize, 64, 65, 100, 127, 128, 129, 255, 256, 257, 1000, 1024, 1025, 4097]) } else { g.usize_below(41) };
    let grid = [0.0f64, 1e-3, 0.1, 0.3, 0.5, 0.9, 1.0];
    let pick = |g: &mut Xo| if g.chance(1, 3) { g.f64() } else { *g.pick(&grid) };
    let ctor = g.below(3) as u8;
    let cfg = UmadCfg { add: pick(g), del: pick(g), empty: if ctor == 1 { Some(pick(g)) } else if ctor == 0 { None } else { None }, ctor };
    // for `new`, the empty rate equals the addition rate
    let cfg = UmadCfg { empty: match ctor { 0 => Some(cfg.add), 1 => cfg.empty, _ => None }, ..cfg };
    let cfg_text = format!("{cfg:?}");
    let s = g.next();
    rep.distinct(mix(fnv_str(&cfg_text), len as u64));

    // Vector<UGene>
    let first_serial = g.below(1000) as u32;
    let gen = SerialGen { next: Cell::new(first_serial) };
    let parent: Vector<UGene> = (0..len as u32).map(UGene::Parent).collect();
    let out = catch(|| {
        let mut rng = TraceRng::stream(s);
        match cfg.ctor {
            0 => Umad::new(cfg.add, cfg.del, &gen).mutate(parent.clone(), &mut rng),
            1 => Umad::new_with_empty_rate(cfg.add, cfg.empty.unwrap_or(0.0), cfg.del, &gen).mutate(parent.clone(), &mut rng),
            _ => Umad::new_without_empty(cfg.add, cfg.del, &gen).mutate(parent.clone(), &mut rng),
        }
    });
    rep.eval();
    rep.count("Umad/Vector");
    match out {
        Ok(Ok(child)) => {
            let handed = gen.next.get() - first_serial;
            check_umad_child(&child.genes, len, handed, first_serial, &cfg, &cfg_text, "Vector", rep);
            if rep.wants_sample() && len >= 5 && child.genes.len() != len {
                rep.sample(|| json!({"kind": "UMAD on a tagged vector genome", "config": cfg_text, "parent_len": len, "child": format!("{:?}", child.genes)}));
            }
        }
        other => rep.violation("C11/Umad/Vector/failed", || json!({"config": cfg_text, "parent_len": len, "observed": format!("{:?}", other.map(|r| r.map(|v| v.genes)))})),
    }

    // Plushy: parent genes are literals 0..len, fresh genes literals >= 1_000_000
    let gen = SerialGen { next: Cell::new(first_serial) };
    // every parent gene is a distinct literal, so positions are unambiguous (a payload-free
    // Close gene could be matched to several parent positions)
    // ... except for up to four Close genes: genomes really contain them, and a genome type
    // may treat them specially. Which parent Close a child's Close came from is not observable,
    // so every order-preserving assignment is tried and the child is accepted if any fits.
    let n_close = if len >= 2 && g.chance(1, 2) { 1 + g.usize_below(4.min(len)) } else { 0 };
    let mut closes_in_parent: Vec<usize> = Vec::new();
    while closes_in_parent.len() < n_close {
        let c = match g.below(4) {
            0 => 0,
            1 => len - 1,
            _ => g.usize_below(len),
        };
        if !closes_in_parent.contains(&c) {
            closes_in_parent.push(c);
        }
    }
    closes_in_parent.sort_unstable();
    let parent = Plushy::new((0..len as i64).map(|i| if closes_in_parent.contains(&(i as usize)) { PushGene::Close } else { PushGene::Instruction(PushInstruction::push_int(i)) }));
    if n_close > 0 {
        rep.count("Umad/Plushy:parent-with-close-genes");
    }
    let out = catch(|| {
        let mut rng = TraceRng::stream(s);
        match cfg.ctor {
            0 => Umad::new(cfg.add, cfg.del, &gen).mutate(parent.clone(), &mut rng),
            1 => Umad::new_with_empty_rate(cfg.add, cfg.empty.unwrap_or(0.0), cfg.del, &gen).mutate(parent.clone(), &mut rng),
            _ => Umad::new_without_empty(cfg.add, cfg.del, &gen).mutate(parent.clone(), &mut rng),
        }
    });
    rep.eval();
    rep.count("Umad/Plushy");
    match out {
        Ok(Ok(child)) => {
            // translate back to tagged genes; a Close is a placeholder to be assigned
            let mut shape: Vec<Option<UGene>> = Vec::new();
            let mut bad = None;
            for gene in child.get_genes() {
                match gene {
                    PushGene::Close => shape.push(None),
                    PushGene::Instruction(PushInstruction::IntInstruction(IntInstruction::Push(v))) => {
                        if v.0 >= 1_000_000 {
                            shape.push(Some(UGene::Fresh((v.0 - 1_000_000) as u32)));
                        } else {
                            shape.push(Some(UGene::Parent(v.0 as u32)));
                        }
                    }
                    other => bad = Some(format!("a gene that is neither a parent gene nor from the generator: {other:?}")),
                }
            }
            let child_closes = shape.iter().filter(|x| x.is_none()).count();
            if bad.is_none() && child_closes > closes_in_parent.len() {
                bad = Some(format!("{child_closes} Close genes in the child, only {} in the parent (the generator hands out literals only)", closes_in_parent.len()));
            }
            if let Some(why) = bad {
                rep.violation("C11/Umad/Plushy/foreign-gene", || json!({"config": cfg_text, "parent_len": len, "parent_close_positions": closes_in_parent, "why": why}));
            } else {
                let handed = gen.next.get() - first_serial;
                // all order-preserving choices of `child_closes` parent Close positions
                let m = closes_in_parent.len();
                let mut verdict: Option<(&'static str, String)> = None;
                let mut accepted = false;
                let mut first_tagging: Vec<UGene> = Vec::new();
                for mask in 0u32..(1 << m) {
                    if mask.count_ones() as usize != child_closes {
                        continue;
                    }
                    let mut chosen = (0..m).filter(|i| mask & (1 << i) != 0).map(|i| closes_in_parent[i]);
                    let tagged: Vec<UGene> = shape.iter().map(|x| x.clone().unwrap_or_else(|| UGene::Parent(chosen.next().unwrap() as u32))).collect();
                    match judge_umad_child(&tagged, len, handed, first_serial, &cfg) {
                        None => {
                            accepted = true;
                            break;
                        }
                        Some(v) => {
                            if verdict.is_none() {
                                verdict = Some(v);
                                first_tagging = tagged;
                            }
                        }
                    }
                }
                if !accepted {
                    let (what, why) = verdict.unwrap_or(("foreign-gene", "no assignment of Close genes exists".into()));
                    rep.violation(format!("C11/Umad/Plushy/{what}"), || json!({"config": cfg_text, "parent_len": len, "parent_close_positions": closes_in_parent,
                        "child": format!("{:?}", child.get_genes()).chars().take(3000).collect::<String>(), "one_reading_of_the_child": format!("{first_tagging:?}").chars().take(2000).collect::<String>(),
                        "why": format!("under every assignment of the child's Close genes to parent Close genes the child is illegal; e.g. {why}")}));
                }
            }
        }
        other => rep.violation("C11/Umad/Plushy/failed", || json!({"config": cfg_text, "parent_len": len, "observed": format!("{:?}", other.map(|r| r.map(|p| p.get_genes().len())))})),
    }
}

pub fn run(args: &Args) -> i32 {
    let rounds = args.tier.pick(2_000_000usize, 40_000_000usize);
    let rep = run_shards(64, args.threads, 16 << 20, |s| {
        let mut rep = Report::new();
        flips(args.seed, s, rounds / 64 / 4, &mut rep);
        for n in 0..rounds / 64 {
            let mut g = Xo::derive(args.seed, "C11-umad", (s * 1_000_003 + n) as u64);
            umad_round(&mut g, &mut rep);
        }
        rep
    });
    rep.finish(
        args,
        "exploration",
        "genomes of length 0..40 (every 60th: 63..4097, around word and block boundaries) x rates from the grid {0, 1e-3, .1, .3, .5, .9, 1, (1.5 for flips)} and random rates x independent seeded streams; bit-flip on Vec<bool>, Bitstring and a custom Not gene, UMAD through all three constructors on Vector<tagged gene> and Plushy. distinct_nontrivial = distinct (mutator configuration, genome length[, stream class])",
        false,
        &[
            "fresh genes come from a serial-number generator, so 'drawn from the supplied generator during this call, at most once' is decided by set membership",
            "Close genes of a Plushy parent carry no payload and are matched to parent positions in the most permissive way",
        ],
    )
}
