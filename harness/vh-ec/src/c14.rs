//! C14 — composed operators run their parts in order and stop at the first failure.
//!
//! Oracle: a combinator-algebra evaluator. Leaf probes log (leaf id, input seen, random
//! word drawn) and fail at a scripted call. A composition term is evaluated twice from the
//! same generator state: by the real combinators (`then`, `and`, `map` over pair / array /
//! vector, `apply_n_times`, `Identity`, `Constant`; arbitrary nesting through boxed
//! `DynOperator`s) and by a short reference evaluator. Compared: output, complete leaf-call
//! log, random-stream fingerprint afterwards, and on failure which leaf failed and the error
//! *path* (read through the public `Error::source()` chain and the documented `Display`
//! texts; the combinator error types are not nameable outside the crate).
//! Workload = fault enumeration: for each term with m leaf calls, failure at each call
//! 0..m-1 and none.

use std::{cell::RefCell, convert::Infallible, rc::Rc};

use ec_core::{
    individual::ec::EcIndividual,
    operator::{
        constant::Constant,
        genome_extractor::GenomeExtractor,
        genome_scorer::GenomeScorer,
        identity::Identity,
        mutator::{Mutate, Mutator},
        recombinator::{Recombinator, Recombine},
        selector::{best::Best, lexicase::Lexicase, random::Random, tournament::Tournament, Select, Selector},
        Composable, DynOperator, Operator,
    },
};
use rand::{Rng, RngCore};
use vh_core::{catch, fnv_str, json, mix, shard::run_shards, Args, Report, TraceRng, Value, Xo};

// ------------------------------------------------------------------------------------
// values, probes, errors

#[derive(Clone, Debug, PartialEq)]
pub enum V {
    I(i64),
    Pair(Box<V>, Box<V>),
    Arr(Vec<V>),
}

impl V {
    fn render(&self) -> String {
        match self {
            V::I(x) => format!("{x}"),
            V::Pair(a, b) => format!("({}, {})", a.render(), b.render()),
            V::Arr(v) => format!("[{}]", v.iter().map(V::render).collect::<Vec<_>>().join(", ")),
        }
    }

    fn digest(&self) -> i64 {
        (fnv_str(&self.render()) % 1_000_003) as i64
    }

    fn into_pair(self) -> (V, V) {
        match self {
            V::Pair(a, b) => (*a, *b),
            other => (other.clone(), other),
        }
    }

    fn into_arr2(self) -> [V; 2] {
        let (a, b) = self.into_pair();
        [a, b]
    }

    fn into_vec(self) -> Vec<V> {
        match self {
            V::Arr(v) => v,
            V::Pair(a, b) => vec![*a, *b],
            other => vec![other],
        }
    }
}

#[derive(Clone, Debug, PartialEq, Eq)]
pub enum Step {
    ThenFirst,
    ThenSecond,
    AndFirst,
    AndSecond,
    Map(usize),
    /// a level of the error chain whose text was not recognised
    Unparsed(String),
}

#[derive(Clone, Debug, PartialEq)]
pub struct PErr {
    pub leaf: usize,
    pub path: Vec<Step>,
}

impl std::fmt::Display for PErr {
    fn fmt(&self, f: &mut std::fmt::Formatter<'_>) -> std::fmt::Result {
        write!(f, "probe {} failed", self.leaf)
    }
}
impl std::error::Error for PErr {}

type Event = (usize, String, u64);

#[derive(Default)]
pub struct Ctx {
    log: RefCell<Vec<Event>>,
    counter: RefCell<usize>,
    fail_at: RefCell<Option<usize>>,
}

#[derive(Composable)]
pub struct Probe {
    id: usize,
    ctx: Rc<Ctx>,
}

/// How leaf `id` draws its word: through every `RngCore` entry point in turn, so that an adapter
/// between a combinator (or an erased component) and the shared stream that re-implements one of
/// them differently shifts the stream for the parts that follow.
fn probe_draw<R: Rng + ?Sized>(rng: &mut R, id: usize) -> u64 {
    match id % 5 {
        0 => rng.next_u64(),
        1 => u64::from(rng.next_u32()),
        2 => (u64::from(rng.next_u32()) << 32) | u64::from(rng.next_u32()),
        3 => {
            let mut b = [0u8; 5];
            rng.fill_bytes(&mut b);
            b.iter().fold(0u64, |a, x| (a << 8) | u64::from(*x))
        }
        _ => u64::from(rng.next_u32()) ^ rng.next_u64(),
    }
}

fn combine(input: &V, id: usize, word: u64) -> V {
    V::I(input.digest() * 31 + id as i64 * 7 + (word % 1000) as i64)
}

impl Operator<V> for Probe {
    type Output = V;
    type Error = PErr;

    fn apply<R: Rng + ?Sized>(&self, input: V, rng: &mut R) -> Result<V, PErr> {
        let k = {
            let mut c = self.ctx.counter.borrow_mut();
            let k = *c;
            *c += 1;
            k
        };
        let word = probe_draw(rng, self.id);
        self.ctx.log.borrow_mut().push((self.id, input.render(), word));
        if *self.ctx.fail_at.borrow() == Some(k) {
            return Err(PErr { leaf: self.id, path: vec![] });
        }
        Ok(combine(&input, self.id, word))
    }
}

/// Read the path of a combinator error through the public error interface.
fn path_of(e: &(dyn std::error::Error + 'static)) -> PErr {
    let mut path = Vec::new();
    let mut cur: &(dyn std::error::Error + 'static) = e;
    loop {
        if let Some(p) = cur.downcast_ref::<PErr>() {
            path.extend(p.path.iter().cloned());
            return PErr { leaf: p.leaf, path };
        }
        let text = cur.to_string();
        let step = if text.contains("Then<") && text.contains("first passed operator") {
            Step::ThenFirst
        } else if text.contains("Then<") && text.contains("second passed operator") {
            Step::ThenSecond
        } else if text.contains("And<") && text.contains("first passed operator") {
            Step::AndFirst
        } else if text.contains("And<") && text.contains("second passed operator") {
            Step::AndSecond
        } else if text.contains("element of the mapped iterable") {
            match text.split(|c: char| !c.is_ascii_digit()).find(|s| !s.is_empty()).and_then(|s| s.parse().ok()) {
                Some(i) => Step::Map(i),
                None => Step::Unparsed(text.clone()),
            }
        } else {
            Step::Unparsed(text.clone())
        };
        path.push(step);
        match cur.source() {
            Some(s) => cur = s,
            None => return PErr { leaf: usize::MAX, path },
        }
    }
}

/// Type adapter around a *real* combinator: converts the uniform value type to what the
/// combinator takes and back; adds no behaviour of its own.
#[derive(Composable)]
struct Adapt<Op, In, Out> {
    op: Op,
    fin: fn(V) -> In,
    fout: fn(Out) -> V,
}

impl<Op, In, Out> Operator<V> for Adapt<Op, In, Out>
where
    Op: Operator<In, Output = Out>,
    Op::Error: std::error::Error + 'static,
{
    type Output = V;
    type Error = PErr;

    fn apply<R: Rng + ?Sized>(&self, input: V, rng: &mut R) -> Result<V, PErr> {
        match self.op.apply((self.fin)(input), rng) {
            Ok(o) => Ok((self.fout)(o)),
            Err(e) => Err(path_of(&e)),
        }
    }
}

type Node = Box<dyn DynOperator<V, PErr, Output = V>>;

#[derive(Clone, Debug, PartialEq)]
pub enum Term {
    Leaf(usize),
    Then(Box<Term>, Box<Term>),
    And(Box<Term>, Box<Term>),
    MapPair(Box<Term>),
    MapArr(Box<Term>),
    MapVec(Box<Term>),
    Repeat(usize, Box<Term>),
    Identity,
    Constant(i64),
}

impl Term {
    fn render(&self) -> String {
        match self {
            Term::Leaf(i) => format!("p{i}"),
            Term::Then(a, b) => format!("{}.then({})", a.render(), b.render()),
            Term::And(a, b) => format!("{}.and({})", a.render(), b.render()),
            Term::MapPair(f) => format!("map_pair({})", f.render()),
            Term::MapArr(f) => format!("map_array({})", f.render()),
            Term::MapVec(f) => format!("map_vec({})", f.render()),
            Term::Repeat(n, f) => format!("{}.apply_n_times::<{n}>()", f.render()),
            Term::Identity => "Identity".into(),
            Term::Constant(c) => format!("Constant({c})"),
        }
    }
}

fn ident(v: V) -> V {
    v
}
fn pair_out((a, b): (V, V)) -> V {
    V::Pair(Box::new(a), Box::new(b))
}
fn arr2_out(a: [V; 2]) -> V {
    V::Arr(a.into())
}
fn vec_out(a: Vec<V>) -> V {
    V::Arr(a)
}
fn arr_out<const N: usize>(a: [V; N]) -> V {
    V::Arr(a.into())
}

/// Build the term out of the real combinators.
fn build(t: &Term, ctx: &Rc<Ctx>) -> Node {
    match t {
        Term::Leaf(id) => Box::new(Probe { id: *id, ctx: ctx.clone() }),
        Term::Then(a, b) => Box::new(Adapt { op: build(a, ctx).then(build(b, ctx)), fin: ident, fout: ident }),
        Term::And(a, b) => Box::new(Adapt { op: build(a, ctx).and(build(b, ctx)), fin: ident, fout: pair_out }),
        Term::MapPair(f) => Box::new(Adapt { op: Identity.map(build(f, ctx)), fin: V::into_pair, fout: pair_out }),
        Term::MapArr(f) => Box::new(Adapt { op: Identity.map(build(f, ctx)), fin: V::into_arr2, fout: arr2_out }),
        Term::MapVec(f) => Box::new(Adapt { op: Identity.map(build(f, ctx)), fin: V::into_vec, fout: vec_out }),
        Term::Repeat(n, f) => {
            let inner = build(f, ctx);
            match n {
                0 => Box::new(Adapt { op: inner.apply_n_times::<0>(), fin: ident, fout: arr_out::<0> }),
                1 => Box::new(Adapt { op: inner.apply_n_times::<1>(), fin: ident, fout: arr_out::<1> }),
                2 => Box::new(Adapt { op: inner.apply_twice(), fin: ident, fout: arr_out::<2> }),
                3 => Box::new(Adapt { op: inner.apply_n_times::<3>(), fin: ident, fout: arr_out::<3> }),
                5 => Box::new(Adapt { op: inner.apply_n_times::<5>(), fin: ident, fout: arr_out::<5> }),
                8 => Box::new(Adapt { op: inner.apply_n_times::<8>(), fin: ident, fout: arr_out::<8> }),
                17 => Box::new(Adapt { op: inner.apply_n_times::<17>(), fin: ident, fout: arr_out::<17> }),
                _ => Box::new(Adapt { op: inner.apply_n_times::<33>(), fin: ident, fout: arr_out::<33> }),
            }
        }
        Term::Identity => Box::new(Adapt { op: Identity, fin: ident, fout: ident }),
        Term::Constant(c) => Box::new(Adapt { op: Constant::new(V::I(*c)), fin: ident, fout: ident }),
    }
}

struct RefState {
    log: Vec<Event>,
    counter: usize,
    fail_at: Option<usize>,
}

fn prepend(step: Step, e: PErr) -> PErr {
    let mut path = vec![step];
    path.extend(e.path);
    PErr { leaf: e.leaf, path }
}

/// The reference evaluator: what the statement says the combinators do.
fn eval(t: &Term, input: V, rng: &mut TraceRng, st: &mut RefState) -> Result<V, PErr> {
    match t {
        Term::Leaf(id) => {
            let k = st.counter;
            st.counter += 1;
            let word = probe_draw(rng, *id);
            st.log.push((*id, input.render(), word));
            if st.fail_at == Some(k) {
                return Err(PErr { leaf: *id, path: vec![] });
            }
            Ok(combine(&input, *id, word))
        }
        Term::Then(a, b) => {
            let x = eval(a, input, rng, st).map_err(|e| prepend(Step::ThenFirst, e))?;
            eval(b, x, rng, st).map_err(|e| prepend(Step::ThenSecond, e))
        }
        Term::And(a, b) => {
            let x = eval(a, input.clone(), rng, st).map_err(|e| prepend(Step::AndFirst, e))?;
            let y = eval(b, input, rng, st).map_err(|e| prepend(Step::AndSecond, e))?;
            Ok(pair_out((x, y)))
        }
        Term::MapPair(f) => {
            let (a, b) = input.into_pair();
            let x = eval(f, a, rng, st).map_err(|e| prepend(Step::Map(0), e))?;
            let y = eval(f, b, rng, st).map_err(|e| prepend(Step::Map(1), e))?;
            Ok(pair_out((x, y)))
        }
        Term::MapArr(f) => {
            let [a, b] = input.into_arr2();
            let x = eval(f, a, rng, st).map_err(|e| prepend(Step::Map(0), e))?;
            let y = eval(f, b, rng, st).map_err(|e| prepend(Step::Map(1), e))?;
            Ok(V::Arr(vec![x, y]))
        }
        Term::MapVec(f) => {
            let mut out = Vec::new();
            for (i, x) in input.into_vec().into_iter().enumerate() {
                out.push(eval(f, x, rng, st).map_err(|e| prepend(Step::Map(i), e))?);
            }
            Ok(V::Arr(out))
        }
        Term::Repeat(n, f) => {
            let mut out = Vec::new();
            for _ in 0..*n {
                out.push(eval(f, input.clone(), rng, st)?);
            }
            Ok(V::Arr(out))
        }
        Term::Identity => Ok(input),
        Term::Constant(c) => Ok(V::I(*c)),
    }
}

fn gen_term(g: &mut Xo, depth: usize, next_leaf: &mut usize) -> Term {
    if depth == 0 || g.chance(1, 4) {
        return match g.below(10) {
            0 => Term::Identity,
            1 => Term::Constant(g.range(-5, 5)),
            _ => {
                *next_leaf += 1;
                Term::Leaf(*next_leaf - 1)
            }
        };
    }
    let mut sub = |g: &mut Xo| Box::new(gen_term(g, depth - 1, next_leaf));
    match g.below(9) {
        0..=2 => {
            let a = sub(g);
            let b = sub(g);
            Term::Then(a, b)
        }
        3 | 4 => {
            let a = sub(g);
            let b = sub(g);
            Term::And(a, b)
        }
        5 => Term::MapPair(sub(g)),
        6 => Term::MapArr(sub(g)),
        7 => Term::MapVec(sub(g)),
        _ => Term::Repeat(if g.chance(1, 6) { *g.pick(&[5usize, 8, 17, 33]) } else { g.usize_below(4) }, sub(g)),
    }
}

fn gen_input(g: &mut Xo) -> V {
    match g.below(4) {
        0 => V::I(g.range(-9, 9)),
        1 => V::Pair(Box::new(V::I(g.range(0, 9))), Box::new(V::I(g.range(0, 9)))),
        2 => V::Arr((0..if g.chance(1, 5) { *g.pick(&[7usize, 16, 33, 64, 100]) } else { g.usize_below(4) }).map(|_| V::I(g.range(0, 9))).collect()),
        _ => V::I(0),
    }
}

fn term_case(t: &Term, input: &V, seed: u64, rep: &mut Report) {
    // leaf calls of the failure-free run
    let mut st = RefState { log: vec![], counter: 0, fail_at: None };
    let mut r0 = TraceRng::stream(seed);
    let _ = eval(t, input.clone(), &mut r0, &mut st);
    let m = st.counter;
    if m > 130 {
        return; // keep fault enumeration bounded
    }
    rep.distinct(fnv_str(&format!("{}|{}", t.render(), input.render())));
    let ctx = Rc::new(Ctx::default());
    let real = build(t, &ctx);
    let mut fails: Vec<Option<usize>> = vec![None];
    fails.extend((0..m).map(Some));
    for fail_at in fails {
        // reference
        let mut st = RefState { log: vec![], counter: 0, fail_at };
        let mut rr = TraceRng::stream(seed);
        let want = eval(t, input.clone(), &mut rr, &mut st);
        // real
        *ctx.counter.borrow_mut() = 0;
        *ctx.fail_at.borrow_mut() = fail_at;
        ctx.log.borrow_mut().clear();
        let mut rg = TraceRng::stream(seed);
        let got = catch(|| real.apply(input.clone(), &mut rg));
        rep.eval();
        rep.count(if fail_at.is_some() { "runs:with-injected-failure" } else { "runs:failure-free" });
        let log = ctx.log.borrow().clone();
        let witness = |what: &str, rep: &mut Report, detail: Value| {
            rep.violation(format!("C14/{what}"), || {
                json!({"term": t.render(), "input": input.render(), "fail_at_leaf_call": fail_at, "detail": detail,
                       "expected_leaf_calls": st.log.iter().map(|(i, v, _)| format!("p{i}({v})")).collect::<Vec<_>>(),
                       "observed_leaf_calls": log.iter().map(|(i, v, _)| format!("p{i}({v})")).collect::<Vec<_>>()})
            });
        };
        let got = match got {
            Ok(g) => g,
            Err(p) => {
                witness("panic", rep, json!(p.to_string()));
                return;
            }
        };
        if log != st.log {
            let what = if log.len() > st.log.len() && fail_at.is_some() {
                "parts-run-after-failure"
            } else if log.iter().map(|e| e.0).ne(st.log.iter().map(|e| e.0)) {
                "call-order"
            } else if log.iter().map(|e| &e.1).ne(st.log.iter().map(|e| &e.1)) {
                "inputs-seen"
            } else {
                "random-words"
            };
            witness(what, rep, json!("leaf call log differs"));
            return;
        }
        if rg.fingerprint() != rr.fingerprint() {
            witness("stream-position", rep, json!({"expected": format!("{:?}", rr.fingerprint()), "observed": format!("{:?}", rg.fingerprint())}));
            return;
        }
        match (&want, &got) {
            (Ok(a), Ok(b)) => {
                if a != b {
                    witness("output", rep, json!({"expected": a.render(), "observed": b.render()}));
                    return;
                }
            }
            (Err(a), Err(b)) => {
                if a.leaf != b.leaf {
                    witness("failing-leaf", rep, json!({"expected": a.leaf, "observed": b.leaf}));
                    return;
                }
                if b.path.iter().any(|s| matches!(s, Step::Unparsed(_))) {
                    rep.inconclusive(format!("error text of a combinator no longer identifies the failing part: {:?}", b.path));
                } else if a.path != b.path {
                    witness("error-path", rep, json!({"expected": format!("{:?}", a.path), "observed": format!("{:?}", b.path)}));
                    return;
                }
            }
            (a, b) => {
                witness("outcome", rep, json!({"expected": format!("{a:?}"), "observed": format!("{b:?}")}));
                return;
            }
        }
    }
    if rep.wants_sample() && m >= 4 {
        rep.sample(|| json!({"kind": "composition term", "term": t.render(), "input": input.render(), "leaf_calls": m, "failure_positions_enumerated": m + 1}));
    }
}

// ------------------------------------------------------------------------------------
// statically typed shapes (no boxing, no adapters)

fn static_shapes(seed: u64, rep: &mut Report) {
    let mut g = Xo::derive(seed, "C14-static", 0);
    for round in 0..200u64 {
        let input = gen_input(&mut g);
        let s = mix(seed, round);
        for shape in 0..6usize {
            let (term, m) = match shape {
                0 => (Term::Then(Box::new(Term::Then(Box::new(Term::Leaf(0)), Box::new(Term::Leaf(1)))), Box::new(Term::Leaf(2))), 3),
                1 => (Term::And(Box::new(Term::Leaf(0)), Box::new(Term::Leaf(1))), 2),
                2 => (Term::Then(Box::new(Term::And(Box::new(Term::Leaf(0)), Box::new(Term::Leaf(1)))), Box::new(Term::MapPair(Box::new(Term::Leaf(2))))), 4),
                3 => (Term::Repeat(2, Box::new(Term::Leaf(0))), 2),
                4 => (Term::Then(Box::new(Term::Repeat(3, Box::new(Term::Leaf(0)))), Box::new(Term::MapVec(Box::new(Term::Leaf(1))))), 6),
                _ => (Term::And(Box::new(Term::Then(Box::new(Term::Leaf(0)), Box::new(Term::Identity))), Box::new(Term::Constant(4))), 1),
            };
            for fail_at in std::iter::once(None).chain((0..m).map(Some)) {
                let ctx = Rc::new(Ctx::default());
                *ctx.fail_at.borrow_mut() = fail_at;
                let p = |id: usize| Probe { id, ctx: ctx.clone() };
                let mut rg = TraceRng::stream(s);
                // each arm uses the library's combinators with their static types
                let got: Result<V, PErr> = match shape {
                    0 => p(0).then(p(1)).then(p(2)).apply(input.clone(), &mut rg).map_err(|e| path_of(&e)),
                    1 => p(0).and(p(1)).apply(input.clone(), &mut rg).map(pair_out).map_err(|e| path_of(&e)),
                    2 => p(0).and(p(1)).then_map(p(2)).apply(input.clone(), &mut rg).map(pair_out).map_err(|e| path_of(&e)),
                    3 => p(0).apply_twice().apply(input.clone(), &mut rg).map(arr_out::<2>).map_err(|e| path_of(&e)),
                    4 => {
                        // [V;3] -> Vec<V> needs a conversion step between the two real parts
                        match p(0).apply_n_times::<3>().apply(input.clone(), &mut rg) {
                            Err(e) => Err(prepend(Step::ThenFirst, path_of(&e))),
                            Ok(a) => Identity.map(p(1)).apply(Vec::from(a), &mut rg).map(vec_out).map_err(|e| prepend(Step::ThenSecond, path_of(&e))),
                        }
                    }
                    _ => p(0).then(Identity).and(Constant::new(V::I(4))).apply(input.clone(), &mut rg).map(pair_out).map_err(|e| path_of(&e)),
                };
                let mut st = RefState { log: vec![], counter: 0, fail_at };
                let mut rr = TraceRng::stream(s);
                let want = eval(&term, input.clone(), &mut rr, &mut st);
                rep.eval();
                rep.count("static-shapes:runs");
                let log = ctx.log.borrow().clone();
                if want != got || log != st.log || rg.fingerprint() != rr.fingerprint() {
                    rep.violation(format!("C14/static-shape-{shape}"), || {
                        json!({"term": term.render(), "input": input.render(), "fail_at_leaf_call": fail_at,
                               "expected": format!("{want:?}"), "observed": format!("{got:?}"),
                               "expected_calls": st.log.len(), "observed_calls": log.len()})
                    });
                }
            }
        }
    }
}

// ------------------------------------------------------------------------------------
// wrappers add no behaviour of their own

#[derive(Debug, Clone, PartialEq)]
struct ProbeMutErr(u64);
impl std::fmt::Display for ProbeMutErr {
    fn fmt(&self, f: &mut std::fmt::Formatter<'_>) -> std::fmt::Result {
        write!(f, "probe mutator failed {}", self.0)
    }
}
impl std::error::Error for ProbeMutErr {}

/// Mutator / recombinator probe: draws one word, XORs it in, fails on request.
struct PM {
    fail: bool,
}
impl Mutator<Vec<u64>> for PM {
    type Error = ProbeMutErr;
    fn mutate<R: Rng + ?Sized>(&self, mut genome: Vec<u64>, rng: &mut R) -> Result<Vec<u64>, Self::Error> {
        let w = probe_draw(rng, genome.len());
        if self.fail {
            return Err(ProbeMutErr(w));
        }
        for x in &mut genome {
            *x ^= w;
        }
        Ok(genome)
    }
}
impl Recombinator<[Vec<u64>; 2]> for PM {
    type Output = Vec<u64>;
    type Error = ProbeMutErr;
    fn recombine<R: Rng + ?Sized>(&self, [a, b]: [Vec<u64>; 2], rng: &mut R) -> Result<Vec<u64>, Self::Error> {
        let w = probe_draw(rng, a.len() + 1);
        if self.fail {
            return Err(ProbeMutErr(w));
        }
        Ok(a.iter().zip(&b).map(|(x, y)| (x ^ y).wrapping_add(w)).collect())
    }
}

fn wrappers(seed: u64, rep: &mut Report) {
    let mut g = Xo::derive(seed, "C14-wrappers", 0);
    for round in 0..2_000u64 {
        let s = mix(seed, round);
        let genome: Vec<u64> = (0..g.usize_below(6)).map(|_| g.next()).collect();
        let other: Vec<u64> = genome.iter().map(|x| x.rotate_left(7)).collect();
        for fail in [false, true] {
            let pm = PM { fail };
            // Mutate by value / by reference vs the mutator itself
            let mut r0 = TraceRng::stream(s);
            let direct = pm.mutate(genome.clone(), &mut r0);
            let mut r1 = TraceRng::stream(s);
            let by_ref = Mutate::new(&pm).apply(genome.clone(), &mut r1);
            let mut r2 = TraceRng::stream(s);
            let by_val = Mutate::new(PM { fail }).apply(genome.clone(), &mut r2);
            rep.eval();
            rep.count("wrappers:Mutate");
            if direct != by_ref || direct != by_val || r0.fingerprint() != r1.fingerprint() || r0.fingerprint() != r2.fingerprint() {
                rep.violation("C14/wrapper-Mutate", || json!({"genome": genome, "direct": format!("{direct:?}"), "by_ref": format!("{by_ref:?}"), "by_value": format!("{by_val:?}")}));
            }
            // every reference form of the forwarding impls: &M, &&M, &mut M, and the wrapper around them
            {
                let mut pm_mut = PM { fail };
                let mut pm_mut2 = PM { fail };
                let forms: Vec<(&str, Result<Vec<u64>, ProbeMutErr>, vh_core::trace_rng::Fingerprint)> = vec![
                    { let mut r = TraceRng::stream(s); let v = Mutator::mutate(&&pm, genome.clone(), &mut r); ("<&M as Mutator>::mutate", v, r.fingerprint()) },
                    { let mut r = TraceRng::stream(s); let v = Mutator::mutate(&&&pm, genome.clone(), &mut r); ("<&&M as Mutator>::mutate", v, r.fingerprint()) },
                    { let mut r = TraceRng::stream(s); let v = Mutator::mutate(&&mut pm_mut, genome.clone(), &mut r); ("<&mut M as Mutator>::mutate", v, r.fingerprint()) },
                    { let mut r = TraceRng::stream(s); let v = Mutate::new(&mut pm_mut2).apply(genome.clone(), &mut r); ("Mutate::new(&mut M)", v, r.fingerprint()) },
                    { let mut r = TraceRng::stream(s); let v = Mutate::new(&&pm).apply(genome.clone(), &mut r); ("Mutate::new(&&M)", v, r.fingerprint()) },
                    { let mut r = TraceRng::stream(s); let v = (&Mutate::new(&pm)).apply(genome.clone(), &mut r); ("(&Mutate).apply", v, r.fingerprint()) },
                ];
                for (form, v, fp) in forms {
                    rep.eval();
                    rep.count("wrappers:Mutator-reference-forms");
                    if v != direct || fp != r0.fingerprint() {
                        rep.violation("C14/wrapper-Mutate", || json!({"form": form, "genome": genome, "direct": format!("{direct:?}"), "through_this_form": format!("{v:?}"), "stream_position_equal": fp == r0.fingerprint()}));
                    }
                }
            }
            let mut r0 = TraceRng::stream(s);
            let direct = pm.recombine([genome.clone(), other.clone()], &mut r0);
            {
                let forms: Vec<(&str, Result<Vec<u64>, ProbeMutErr>, vh_core::trace_rng::Fingerprint)> = vec![
                    { let mut r = TraceRng::stream(s); let v = Recombinator::recombine(&&pm, [genome.clone(), other.clone()], &mut r); ("<&R as Recombinator>::recombine", v, r.fingerprint()) },
                    { let mut r = TraceRng::stream(s); let v = Recombinator::recombine(&&&pm, [genome.clone(), other.clone()], &mut r); ("<&&R as Recombinator>::recombine", v, r.fingerprint()) },
                    { let mut r = TraceRng::stream(s); let v = Recombine::new(&&pm).apply([genome.clone(), other.clone()], &mut r); ("Recombine::new(&&R)", v, r.fingerprint()) },
                ];
                for (form, v, fp) in forms {
                    rep.eval();
                    rep.count("wrappers:Recombinator-reference-forms");
                    if v != direct || fp != r0.fingerprint() {
                        rep.violation("C14/wrapper-Recombine", || json!({"form": form, "genome": genome, "direct": format!("{direct:?}"), "through_this_form": format!("{v:?}"), "stream_position_equal": fp == r0.fingerprint()}));
                    }
                }
            }
            let mut r1 = TraceRng::stream(s);
            let by_ref = Recombine::new(&pm).apply([genome.clone(), other.clone()], &mut r1);
            let mut r2 = TraceRng::stream(s);
            let by_val = Recombine::new(PM { fail }).apply([genome.clone(), other.clone()], &mut r2);
            rep.eval();
            rep.count("wrappers:Recombine");
            if direct != by_ref || direct != by_val || r0.fingerprint() != r1.fingerprint() || r0.fingerprint() != r2.fingerprint() {
                rep.violation("C14/wrapper-Recombine", || json!({"genome": genome, "direct": format!("{direct:?}"), "by_ref": format!("{by_ref:?}"), "by_value": format!("{by_val:?}")}));
            }
        }
        // Select by value / by reference vs the selector itself
        let n = g.usize_below(6);
        let pop = crate::common::gen_population(&mut g, n, 3);
        macro_rules! sel_case {
            ($name:expr, $mk:expr) => {{
                let sel = $mk;
                let mut r0 = TraceRng::stream(s);
                let direct = sel.select(&pop, &mut r0).map(|x| x as *const _).map_err(|e| format!("{e:?}"));
                let mut r1 = TraceRng::stream(s);
                let by_ref = Select::new(&sel).apply(&pop, &mut r1).map(|x| x as *const _).map_err(|e| format!("{e:?}"));
                let mut r2 = TraceRng::stream(s);
                let by_val = Select::new($mk).apply(&pop, &mut r2).map(|x| x as *const _).map_err(|e| format!("{e:?}"));
                {
                    let mut r = TraceRng::stream(s);
                    let v = Selector::select(&&sel, &pop, &mut r).map(|x| x as *const _).map_err(|e| format!("{e:?}"));
                    let mut r3 = TraceRng::stream(s);
                    let v3 = Selector::select(&&&sel, &pop, &mut r3).map(|x| x as *const _).map_err(|e| format!("{e:?}"));
                    let mut r4 = TraceRng::stream(s);
                    let v4 = Select::new(&&sel).apply(&pop, &mut r4).map(|x| x as *const _).map_err(|e| format!("{e:?}"));
                    rep.eval();
                    rep.count("wrappers:Selector-reference-forms");
                    if v != direct || v3 != direct || v4 != direct || r.fingerprint() != r0.fingerprint() || r3.fingerprint() != r0.fingerprint() || r4.fingerprint() != r0.fingerprint() {
                        rep.violation("C14/wrapper-Select", || json!({"selector": $name, "population_size": pop.len(), "direct": format!("{direct:?}"), "<&S>::select": format!("{v:?}"), "<&&S>::select": format!("{v3:?}"), "Select::new(&&S)": format!("{v4:?}")}));
                    }
                }
                rep.eval();
                rep.count("wrappers:Select");
                if direct != by_ref || direct != by_val || r0.fingerprint() != r1.fingerprint() || r0.fingerprint() != r2.fingerprint() {
                    rep.violation("C14/wrapper-Select", || json!({"selector": $name, "population_size": pop.len(), "direct": format!("{direct:?}"), "by_ref": format!("{by_ref:?}"), "by_value": format!("{by_val:?}")}));
                }
            }};
        }
        sel_case!("Best", Best);
        sel_case!("Random", Random);
        sel_case!("Tournament(2)", Tournament::binary());
        sel_case!("Lexicase(3)", Lexicase::new(3));
        // GenomeExtractor, Identity, Constant: no randomness, value passes through
        let ind = EcIndividual::new(genome.clone(), 5u8);
        let mut r = TraceRng::stream(s);
        let before = r.fingerprint();
        let ex: Result<Vec<u64>, Infallible> = GenomeExtractor.apply(&ind, &mut r);
        let id: Result<Vec<u64>, Infallible> = Identity.apply(genome.clone(), &mut r);
        let co: Result<u8, Infallible> = Constant::new(9u8).apply(genome.clone(), &mut r);
        rep.eval();
        rep.count("wrappers:Extractor/Identity/Constant");
        if ex != Ok(genome.clone()) || id != Ok(genome.clone()) || co != Ok(9) || r.fingerprint() != before {
            rep.violation("C14/wrapper-passthrough", || json!({"genome": genome, "extractor": format!("{ex:?}"), "identity": format!("{id:?}"), "constant": format!("{co:?}"), "randomness_consumed": r.fingerprint() != before}));
        }
        // GenomeScorer: genome maker then scorer, error passes through untouched
        for fail in [false, true] {
            let scorer = |gm: &Vec<u64>| gm.iter().fold(0u64, |a, b| a.wrapping_add(*b));
            let maker = Select::new(Best).then(GenomeExtractor).then(Mutate::new(PMu32 { fail }));
            let gs = GenomeScorer::new(Select::new(Best).then(GenomeExtractor).then(Mutate::new(PMu32 { fail })), ec_core::individual::scorer::FnScorer(|gm: &u32| u64::from(*gm) * 3));
            let mut r0 = TraceRng::stream(s);
            let direct = maker.apply(&pop, &mut r0).map_err(|e| format!("{e:?}"));
            let mut r1 = TraceRng::stream(s);
            let scored = gs.apply(&pop, &mut r1).map_err(|e| format!("{e:?}"));
            rep.eval();
            rep.count("wrappers:GenomeScorer");
            let ok = match (&direct, &scored) {
                (Ok(gm), Ok(ind)) => ind.genome == *gm && ind.test_results == u64::from(*gm) * 3,
                (Err(a), Err(b)) => a == b,
                _ => false,
            } && r0.fingerprint() == r1.fingerprint();
            if !ok {
                rep.violation("C14/wrapper-GenomeScorer", || json!({"population_size": pop.len(), "maker_alone": format!("{direct:?}"), "through_scorer": format!("{scored:?}")}));
            }
            let _ = scorer;
        }
    }
}

struct PMu32 {
    fail: bool,
}
impl Mutator<u32> for PMu32 {
    type Error = ProbeMutErr;
    fn mutate<R: Rng + ?Sized>(&self, genome: u32, rng: &mut R) -> Result<u32, Self::Error> {
        let w = probe_draw(rng, genome as usize);
        if self.fail {
            Err(ProbeMutErr(w))
        } else {
            Ok(genome ^ (w as u32 & 0xff))
        }
    }
}

/// Map over a long vector (a whole population of genomes is mapped in ordinary use): every
/// element in order, one draw each from the shared stream, stop at the first failing element -
/// for a million elements as for three. Nothing in a combinator may recurse per element.
fn long_vectors(seed: u64, rep: &mut Report) {
    struct Tick {
        fail_at: Option<usize>,
        calls: Rc<std::cell::Cell<usize>>,
    }
    impl ec_core::operator::Composable for Tick {}
    impl Operator<u32> for Tick {
        type Output = u64;
        type Error = ProbeMutErr;
        fn apply<R: Rng + ?Sized>(&self, x: u32, rng: &mut R) -> Result<u64, ProbeMutErr> {
            let k = self.calls.get();
            self.calls.set(k + 1);
            let w = rng.next_u64();
            if self.fail_at == Some(k) {
                return Err(ProbeMutErr(w));
            }
            Ok(w ^ u64::from(x))
        }
    }
    for (len, fail_at) in [(1_000usize, None), (200_000, None), (1_000_000, None), (1_000_000, Some(999_999usize)), (300_000, Some(7))] {
        vh_core::shard::set_context(format!("C14 map over a vector of {len} elements, failing element {fail_at:?}"));
        let input: Vec<u32> = (0..len as u32).collect();
        let calls = Rc::new(std::cell::Cell::new(0usize));
        let op = Tick { fail_at, calls: calls.clone() };
        let mut rng = TraceRng::new(mix(seed, len as u64));
        let mut reference = rng.clone();
        let out = catch(|| Identity.then_map(op).apply(input.clone(), &mut rng).map_err(|e| e.to_string()));
        rep.eval();
        rep.count("map-over-long-vector");
        rep.distinct(fnv_str(&format!("longvec{len}{fail_at:?}")));
        let expected_calls = fail_at.map_or(len, |f| f + 1);
        let want: Vec<u64> = (0..expected_calls).map(|i| reference.next_u64() ^ i as u64).collect();
        let problem = match (&out, fail_at) {
            (Err(p), _) => Some(format!("panic: {p}")),
            (Ok(Ok(v)), None) => (v.len() != len || *v != want).then(|| format!("{} results, expected {len} (element i = draw i xor i)", v.len())),
            (Ok(Ok(_)), Some(f)) => Some(format!("element {f} fails but the map succeeded")),
            (Ok(Err(_)), None) => Some("no element fails but the map failed".to_string()),
            (Ok(Err(_)), Some(_)) => None,
        };
        let problem = problem.or_else(|| (calls.get() != expected_calls).then(|| format!("the operator was applied {} times, expected {expected_calls}", calls.get()))).or_else(|| (rng.fingerprint() != reference.fingerprint()).then(|| "the shared stream is not where one draw per applied element leaves it".to_string()));
        if let Some(why) = problem {
            rep.violation("C14/map-over-long-vector", || json!({"elements": len, "failing_element": fail_at, "why": why}));
        }
    }
}

/// Repetition over an input that owns a lot of memory: the copies are made and consumed one
/// at a time, so N repetitions of a 1 GiB input need the room of two of them, not of N. The
/// input's clone reserves its capacity without touching it (cheap), the check runs under the
/// supervisor's address-space limit, and holding all 64 copies at once exceeds it.
fn repeat_over_a_big_input(seed: u64, rep: &mut Report) {
    struct Big(Vec<u8>);
    impl Clone for Big {
        fn clone(&self) -> Self {
            Big(Vec::with_capacity(self.0.capacity()))
        }
    }
    struct Weigh;
    impl ec_core::operator::Composable for Weigh {}
    impl Operator<Big> for Weigh {
        type Output = u64;
        type Error = Infallible;
        fn apply<R: Rng + ?Sized>(&self, x: Big, rng: &mut R) -> Result<u64, Infallible> {
            Ok((x.0.capacity() as u64) ^ (rng.next_u64() & 0xff))
        }
    }
    vh_core::shard::set_context("C14 apply_n_times::<64> over an input that owns 1 GiB".to_string());
    let mut rng = TraceRng::new(seed);
    let mut reference = rng.clone();
    let out = catch(|| Weigh.apply_n_times::<64>().apply(Big(Vec::with_capacity(1 << 30)), &mut rng));
    rep.eval();
    rep.count("repeat-over-a-big-input");
    rep.distinct(fnv_str("repeat-big"));
    let want: Vec<u64> = (0..64).map(|_| (1u64 << 30) ^ (reference.next_u64() & 0xff)).collect();
    match out {
        Ok(Ok(v)) if v.to_vec() == want => {}
        other => rep.violation("C14/repeat-over-a-big-input", || json!({"repetitions": 64, "input_owns_bytes": 1u64 << 30, "observed": format!("{other:?}").chars().take(300).collect::<String>()})),
    }
}

pub fn run(args: &Args) -> i32 {
    let per = args.tier.pick(300_000usize, 5_000_000usize);
    let mut rep = run_shards(64, args.threads, 64 << 20, |s| {
        let mut rep = Report::new();
        for n in 0..per / 64 {
            let mut g = Xo::derive(args.seed, "C14-terms", (s * 1_000_003 + n) as u64);
            let mut leaves = 0;
            let depth = 1 + g.usize_below(5);
            let t = gen_term(&mut g, depth, &mut leaves);
            let input = gen_input(&mut g);
            term_case(&t, &input, g.next(), &mut rep);
        }
        rep
    });
    let mut extra = Report::new();
    static_shapes(args.seed, &mut extra);
    wrappers(args.seed, &mut extra);
    long_vectors(args.seed, &mut extra);
    repeat_over_a_big_input(args.seed, &mut extra);
    rep.merge(extra);
    rep.finish(
        args,
        "fault_enumeration",
        "random composition terms to depth 5 over then/and/map(pair|array|vec)/apply_n_times<0..3>/Identity/Constant built from the real combinators through boxed DynOperators, plus six statically typed shapes; for each term with m leaf calls a failure is injected at each call 0..m-1 and none; wrappers (Select/Mutate/Recombine by value and by reference, GenomeExtractor, GenomeScorer, Identity, Constant) are compared with the wrapped thing. distinct_nontrivial = distinct (term, input) pairs",
        false,
        &[
            "the combinator error types are not nameable outside ec-core; which part failed is read through Error::source() and the Display texts, and an unrecognised text makes that aspect inconclusive, not a violation",
            "type adapters between boxed nodes convert values only (pair/array/vector <-> uniform value)",
        ],
    )
}
