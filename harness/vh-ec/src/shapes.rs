//! Weighted selector combinations in every nesting the library offers, with run-time
//! chosen leaves: single `Weighted`, left-nested chains built with `with_item_and_weight`,
//! right-nested and balanced `WeightedPair::new` trees, and the dynamic `DynWeighted` list.

use ec_core::{
    operator::selector::{dyn_weighted::DynWeighted, Selector},
    weighted::{
        weighted_pair::WeightedPair, with_weighted_item::WithWeightedItem, Weighted,
    },
};
use vh_core::TraceRng;

use crate::common::{observe_select, IndS, Leaf, LeafKind, SelOut};

pub type Pop = Vec<IndS>;

/// Object-safe view of any selector over `Pop` (harness-side, not the library's erasure).
pub trait AnySel {
    fn sel(&self, pop: &Pop, rng: &mut TraceRng) -> SelOut;
}

impl<S> AnySel for S
where
    S: Selector<Pop>,
    S::Error: std::fmt::Debug,
{
    fn sel(&self, pop: &Pop, rng: &mut TraceRng) -> SelOut {
        observe_select(self, pop, rng)
    }
}

#[derive(Clone, Copy, Debug, PartialEq, Eq, Hash)]
pub enum Shape {
    Single,
    Left(usize),  // 2..=5 items: ((a+b)+c)+d ...
    Right(usize), // 3..=4 items: a+(b+(c+d))
    Balanced4,    // (a+b)+(c+d)
    Mixed5,       // ((a+b)+(c+(d+e)))
    Dyn(usize),   // 1..=5 items in the dynamic list
}

impl Shape {
    pub fn arity(self) -> usize {
        match self {
            Shape::Single => 1,
            Shape::Left(n) | Shape::Right(n) | Shape::Dyn(n) => n,
            Shape::Balanced4 => 4,
            Shape::Mixed5 => 5,
        }
    }

    pub fn all() -> Vec<Shape> {
        vec![
            Shape::Single,
            Shape::Left(2),
            Shape::Left(3),
            Shape::Left(4),
            Shape::Left(5),
            Shape::Right(3),
            Shape::Right(4),
            Shape::Balanced4,
            Shape::Mixed5,
            Shape::Dyn(1),
            Shape::Dyn(2),
            Shape::Dyn(3),
            Shape::Dyn(5),
        ]
    }

    pub fn is_dyn(self) -> bool {
        matches!(self, Shape::Dyn(_))
    }
}

fn w(tag: usize, kinds: &[LeafKind], weights: &[u32]) -> Weighted<Leaf> {
    Weighted::new(Leaf::new(tag, kinds[tag].clone()), weights[tag])
}

fn boxed<S>(r: Result<S, ec_core::weighted::error::WeightSumOverflow>) -> Result<Box<dyn AnySel>, String>
where
    S: Selector<Pop> + 'static,
    S::Error: std::fmt::Debug,
{
    match r {
        Ok(s) => Ok(Box::new(s)),
        Err(e) => Err(format!("{e:?}")),
    }
}

/// Build the combination. Err(text) = rejected at construction (weight sum overflow).
pub fn build(shape: Shape, kinds: &[LeafKind], weights: &[u32]) -> Result<Box<dyn AnySel>, String> {
    assert_eq!(kinds.len(), shape.arity());
    assert_eq!(weights.len(), shape.arity());
    let l = |t: usize| Leaf::new(t, kinds[t].clone());
    match shape {
        Shape::Single => Ok(Box::new(w(0, kinds, weights))),
        Shape::Left(2) => boxed(w(0, kinds, weights).with_item_and_weight(l(1), weights[1])),
        Shape::Left(3) => boxed(
            w(0, kinds, weights)
                .with_item_and_weight(l(1), weights[1])
                .with_item_and_weight(l(2), weights[2]),
        ),
        Shape::Left(4) => boxed(
            w(0, kinds, weights)
                .with_item_and_weight(l(1), weights[1])
                .with_item_and_weight(l(2), weights[2])
                .with_item_and_weight(l(3), weights[3]),
        ),
        Shape::Left(5) => boxed(
            w(0, kinds, weights)
                .with_item_and_weight(l(1), weights[1])
                .with_item_and_weight(l(2), weights[2])
                .with_item_and_weight(l(3), weights[3])
                .with_item_and_weight(l(4), weights[4]),
        ),
        Shape::Right(3) => {
            let inner = WeightedPair::new(w(1, kinds, weights), w(2, kinds, weights));
            match inner {
                Ok(i) => boxed(WeightedPair::new(w(0, kinds, weights), i)),
                Err(e) => Err(format!("{e:?}")),
            }
        }
        Shape::Right(4) => {
            let i2 = match WeightedPair::new(w(2, kinds, weights), w(3, kinds, weights)) {
                Ok(i) => i,
                Err(e) => return Err(format!("{e:?}")),
            };
            let i1 = match WeightedPair::new(w(1, kinds, weights), i2) {
                Ok(i) => i,
                Err(e) => return Err(format!("{e:?}")),
            };
            boxed(WeightedPair::new(w(0, kinds, weights), i1))
        }
        Shape::Balanced4 => {
            let a = match WeightedPair::new(w(0, kinds, weights), w(1, kinds, weights)) {
                Ok(i) => i,
                Err(e) => return Err(format!("{e:?}")),
            };
            let b = match WeightedPair::new(w(2, kinds, weights), w(3, kinds, weights)) {
                Ok(i) => i,
                Err(e) => return Err(format!("{e:?}")),
            };
            boxed(WeightedPair::new(a, b))
        }
        Shape::Mixed5 => {
            let ab = match w(0, kinds, weights).with_item_and_weight(l(1), weights[1]) {
                Ok(i) => i,
                Err(e) => return Err(format!("{e:?}")),
            };
            let de = match WeightedPair::new(w(3, kinds, weights), w(4, kinds, weights)) {
                Ok(i) => i,
                Err(e) => return Err(format!("{e:?}")),
            };
            let cde = match WeightedPair::new(w(2, kinds, weights), de) {
                Ok(i) => i,
                Err(e) => return Err(format!("{e:?}")),
            };
            boxed(WeightedPair::new(ab, cde))
        }
        Shape::Dyn(n) => {
            let mut d: DynWeighted<Pop> = DynWeighted::new(l(0), weights[0] as usize);
            for t in 1..n {
                d = d.with_selector(l(t), weights[t] as usize);
            }
            Ok(Box::new(d))
        }
        other => Err(format!("unsupported shape {other:?}")),
    }
}

/// Does building this static shape have to fail with a weight-sum overflow? Every partial
/// sum formed while building must fit in 32 bits; in all the static shapes the root sum is
/// the total, so the total decides (partial sums never exceed it).
pub fn must_overflow(shape: Shape, weights: &[u32]) -> bool {
    if shape.is_dyn() || matches!(shape, Shape::Single) {
        return false;
    }
    weights.iter().map(|x| u64::from(*x)).sum::<u64>() > u64::from(u32::MAX)
}
