//! C18 — generators deliver exactly the requested collections and uniform member choices.
//!
//! Oracle: a counting element generator (serial number per sample): output length =
//! requested size, every element was handed out during this call, none twice — for `Vec`,
//! `Bitstring`, `Plushy` and populations of individuals, through `Generator::new`,
//! `to_collection_generator` and `into_collection_generator`. Choices: for every conversion
//! flavour (owning / borrowing / cloning on `Vec`, `&Vec`, arrays, `&[T; N]`, slices, the
//! `uniform_distribution_of!` macro) built from collections of size 1..8 with duplicate
//! *values* at distinct positions: every sample is a member (identity for borrowing
//! flavours, serial for cloning ones), frequencies uniform within Bernstein intervals,
//! `num_choices()` = size; an empty collection => `Err(EmptySlice)` at construction.

use std::cell::Cell;

use ec_core::{
    distributions::{
        choices::ChoicesDistribution,
        collection::{ConvertToCollectionGenerator, Generator},
        conversion::{IntoDistribution, ToDistribution},
        wrappers::{choose_cloning::ChooseCloning, owned::OneOfCloning},
    },
    individual::ec::{EcIndividual, IndividualGenerator},
    individual::scorer::FnScorer,
    uniform_distribution_of,
};
use ec_linear::genome::bitstring::Bitstring;
use push::{
    genome::plushy::{Plushy, PushGene},
    instruction::{IntInstruction, PushInstruction},
};
use rand::{
    distr::{slice::Choose, Distribution},
    Rng,
};
use vh_core::{catch, fnv_str, json, mix, shard::run_shards, stats::check, Args, Report, TraceRng};

#[derive(Clone, Debug, PartialEq)]
pub struct El {
    pub serial: u32,
    pub val: u8,
}

/// Counts how many elements it handed out; each carries its serial number.
pub struct Counting {
    next: Cell<u32>,
}

impl Counting {
    fn new(first: u32) -> Self {
        Self { next: Cell::new(first) }
    }
    fn take(&self) -> u32 {
        let n = self.next.get();
        self.next.set(n + 1);
        n
    }
}

impl Distribution<El> for Counting {
    fn sample<R: Rng + ?Sized>(&self, rng: &mut R) -> El {
        let val = (rng.next_u32() % 3) as u8;
        El { serial: self.take(), val }
    }
}

impl Distribution<bool> for Counting {
    fn sample<R: Rng + ?Sized>(&self, rng: &mut R) -> bool {
        self.take();
        rng.next_u32() & 1 == 1
    }
}

impl Distribution<PushGene> for Counting {
    fn sample<R: Rng + ?Sized>(&self, rng: &mut R) -> PushGene {
        let _ = rng.next_u32();
        PushGene::Instruction(PushInstruction::push_int(i64::from(self.take())))
    }
}

fn check_serials(what: &str, size: usize, serials: &[u32], first: u32, handed: u32, rep: &mut Report) {
    rep.eval();
    rep.count(&format!("collection:{what}"));
    rep.distinct(mix(fnv_str(what), size as u64));
    if serials.len() != size {
        rep.violation(format!("C18/collection/{what}/size"), || json!({"requested": size, "delivered": serials.len()}));
        return;
    }
    let mut seen = std::collections::BTreeSet::new();
    for s in serials {
        if *s < first || *s >= first + handed {
            rep.violation(format!("C18/collection/{what}/foreign-element"), || json!({"requested": size, "element_serial": s, "handed_out_during_call": [first, first + handed]}));
            return;
        }
        if !seen.insert(*s) {
            rep.violation(format!("C18/collection/{what}/duplicate-element"), || json!({"requested": size, "element_serial": s}));
            return;
        }
    }
}

/// `num_choices` as generic code sees it: through a value, a reference, a reference to a reference.
fn nc_generic<C: ChoicesDistribution>(c: C) -> usize {
    c.num_choices().get()
}

/// Nested collection generators (a collection of collections) with different inner and outer
/// sizes, owning and borrowing, by method call on a generator and through the trait.
fn nested_collections(seed: u64, rep: &mut Report) {
    for (k, (outer, inner)) in [(0usize, 3usize), (1, 0), (1, 5), (2, 7), (5, 2), (7, 1), (3, 3), (40, 6), (6, 40)].into_iter().enumerate() {
        let mut rng = TraceRng::stream(mix(seed, 900 + k as u64));
        let shape = |v: &Vec<Vec<El>>| (v.len(), v.iter().map(Vec::len).collect::<Vec<_>>());
        let want = (outer, vec![inner; outer]);
        let mut got: Vec<(&'static str, (usize, Vec<usize>))> = Vec::new();
        let c = Counting::new(0);
        let g_inner = c.to_collection_generator(inner);
        let v: Vec<Vec<El>> = g_inner.to_collection_generator(outer).sample(&mut rng);
        got.push(("generator.to_collection_generator(outer) [method call]", shape(&v)));
        let v: Vec<Vec<El>> = ConvertToCollectionGenerator::to_collection_generator(&g_inner, outer).sample(&mut rng);
        got.push(("ConvertToCollectionGenerator::to_collection_generator(&generator, outer)", shape(&v)));
        let v: Vec<Vec<El>> = Generator::new(&g_inner, outer).sample(&mut rng);
        got.push(("Generator::new(&generator, outer)", shape(&v)));
        let v: Vec<Vec<El>> = Counting::new(0).into_collection_generator(inner).into_collection_generator(outer).sample(&mut rng);
        got.push(("into_collection_generator nested", shape(&v)));
        for (how, g) in got {
            rep.eval();
            rep.count("collection:nested");
            rep.distinct(fnv_str(&format!("nested{how}{outer}x{inner}")));
            if g != want {
                rep.violation("C18/collection/nested/size", || json!({"construction": how, "requested_outer": outer, "requested_inner": inner, "delivered_outer": g.0, "delivered_inner_sizes": g.1}));
            }
        }
    }
}

/// Element generators whose elements carry no data (unit, a marker struct): the collection still
/// has exactly the requested number of elements, and the generator was asked exactly that often.
fn zero_sized_elements(seed: u64, rep: &mut Report) {
    #[derive(Debug, Clone, Copy, PartialEq)]
    struct Marker;
    struct Units(std::cell::Cell<usize>);
    impl Distribution<()> for Units {
        fn sample<R: Rng + ?Sized>(&self, rng: &mut R) {
            let _ = rng.next_u32();
            self.0.set(self.0.get() + 1);
        }
    }
    impl Distribution<Marker> for Units {
        fn sample<R: Rng + ?Sized>(&self, rng: &mut R) -> Marker {
            let _ = rng.next_u32();
            self.0.set(self.0.get() + 1);
            Marker
        }
    }
    for size in [0usize, 1, 2, 7, 64, 1000, 65_537] {
        vh_core::shard::set_context(format!("C18 collection of {size} zero-sized elements"));
        let mut rng = TraceRng::new(mix(seed, 0x257 + size as u64));
        let u = Units(std::cell::Cell::new(0));
        let r = catch(|| {
            let a: Vec<()> = Generator::new(&u, size).sample(&mut rng);
            let b: Vec<Marker> = (&u).to_collection_generator(size).sample(&mut rng);
            (a.len(), b.len())
        });
        rep.eval();
        rep.count("collection:zero-sized-elements");
        rep.distinct(fnv_str(&format!("zst{size}")));
        match r {
            Ok((a, b)) if a == size && b == size && u.0.get() == 2 * size => {}
            other => rep.violation("C18/collection/zero-sized-elements/size", || json!({"requested": size, "observed (Vec<()> len, Vec<Marker> len)": format!("{other:?}"), "element_generator_calls": u.0.get(), "expected_calls": 2 * size})),
        }
    }
}

fn collections(seed: u64, rep: &mut Report) {
    nested_collections(seed, rep);
    zero_sized_elements(seed, rep);
    let mut sizes: Vec<usize> = (0..=130).collect();
    sizes.extend([191, 192, 193, 255, 256, 257, 320, 511, 512, 513, 640, 1000, 1023, 1024, 1025, 2048, 4096, 4097, 10_000, 65_536, 65_537, 131_073, 300_000, 1_048_577, 1_200_000]);
    for (k, &size) in sizes.iter().enumerate() {
        let first = (k as u32) * 7;
        let mut rng = TraceRng::stream(mix(seed, size as u64));
        // Vec through the three construction paths
        let c = Counting::new(first);
        let v: Vec<El> = Generator::new(&c, size).sample(&mut rng);
        check_serials("Vec/Generator::new", size, &v.iter().map(|e| e.serial).collect::<Vec<_>>(), first, c.next.get() - first, rep);
        let c = Counting::new(first);
        let v: Vec<El> = c.to_collection_generator(size).sample(&mut rng);
        check_serials("Vec/to_collection_generator", size, &v.iter().map(|e| e.serial).collect::<Vec<_>>(), first, c.next.get() - first, rep);
        let c = Counting::new(first);
        let gen = c.into_collection_generator(size);
        let v: Vec<El> = gen.sample(&mut rng);
        check_serials("Vec/into_collection_generator", size, &v.iter().map(|e| e.serial).collect::<Vec<_>>(), first, gen.element_generator.next.get() - first, rep);
        // a generator can be sampled repeatedly: each sample has exactly `size` elements
        let before = gen.element_generator.next.get();
        let v2: Vec<El> = gen.sample(&mut rng);
        check_serials("Vec/second-sample", size, &v2.iter().map(|e| e.serial).collect::<Vec<_>>(), before, gen.element_generator.next.get() - before, rep);
        // size and element generator are public fields of the collection generator: what counts is
        // their value when the collection is drawn (a size changed after construction, and after
        // earlier samples, is the size delivered; a replaced element generator is the one asked)
        if size <= 4097 {
            let mut gen = gen;
            let other = sizes[(k * 7 + 3) % 140];
            gen.size = other;
            let before = gen.element_generator.next.get();
            let v3: Vec<El> = gen.sample(&mut rng);
            check_serials("Vec/size-field-reassigned", other, &v3.iter().map(|e| e.serial).collect::<Vec<_>>(), before, gen.element_generator.next.get() - before, rep);
            gen.element_generator = Counting::new(first + 1_000_000);
            gen.size = size;
            let v4: Vec<El> = gen.sample(&mut rng);
            check_serials("Vec/element-generator-field-replaced", size, &v4.iter().map(|e| e.serial).collect::<Vec<_>>(), first + 1_000_000, gen.element_generator.next.get() - (first + 1_000_000), rep);
        }
        // Bitstring
        let c = Counting::new(0);
        let b: Bitstring = c.to_collection_generator(size).sample(&mut rng);
        rep.eval();
        rep.count("collection:Bitstring");
        if b.bits.len() != size || (c.next.get() as usize) < size {
            rep.violation("C18/collection/Bitstring/size", || json!({"requested": size, "delivered": b.bits.len(), "element_generator_calls": c.next.get()}));
        }
        // every position of a random bitstring is a draw of its own: over 256 bitstrings each
        // position shows both values (a position stuck at one value would have to survive 256
        // fair draws: 2^-255 per position)
        if matches!(size, 1 | 2 | 31 | 32 | 33 | 63 | 64 | 65 | 127 | 128 | 129 | 191 | 192 | 193 | 256 | 257 | 1000 | 1024 | 1025 | 4097) {
            let mut seen_true = vec![false; size];
            let mut seen_false = vec![false; size];
            let mut seen_true_p = vec![false; size];
            let mut seen_false_p = vec![false; size];
            let mut sizes_ok = true;
            // an honest stream (the shared one may start with a scripted constant prefix)
            let mut fair = TraceRng::new(mix(seed, 0xb175 + size as u64));
            for _ in 0..256 {
                let a = Bitstring::random(size, &mut fair);
                let b = Bitstring::random_with_probability(size, 0.5, &mut fair);
                sizes_ok &= a.bits.len() == size && b.bits.len() == size;
                for (i, x) in a.bits.iter().enumerate().take(size) {
                    if *x { seen_true[i] = true } else { seen_false[i] = true }
                }
                for (i, x) in b.bits.iter().enumerate().take(size) {
                    if *x { seen_true_p[i] = true } else { seen_false_p[i] = true }
                }
            }
            rep.eval();
            rep.count("collection:Bitstring::random/every-position-drawn");
            let stuck: Vec<usize> = (0..size).filter(|i| !(seen_true[*i] && seen_false[*i])).collect();
            let stuck_p: Vec<usize> = (0..size).filter(|i| !(seen_true_p[*i] && seen_false_p[*i])).collect();
            if sizes_ok && (!stuck.is_empty() || !stuck_p.is_empty()) {
                rep.violation("C18/collection/Bitstring::random/position-never-drawn", || json!({"requested": size, "bitstrings": 256, "positions_with_a_single_value_in_all_of_them (random)": stuck.iter().take(20).collect::<Vec<_>>(), "positions_with_a_single_value (random_with_probability 0.5)": stuck_p.iter().take(20).collect::<Vec<_>>()}));
            }
        }
        let rb = Bitstring::random(size, &mut rng);
        let rp = Bitstring::random_with_probability(size, 0.3, &mut rng);
        rep.eval();
        if rb.bits.len() != size || rp.bits.len() != size {
            rep.violation("C18/collection/Bitstring::random/size", || json!({"requested": size, "random": rb.bits.len(), "random_with_probability": rp.bits.len()}));
        }
        // Plushy
        let c = Counting::new(first);
        let p: Plushy = c.to_collection_generator(size).sample(&mut rng);
        let serials: Vec<u32> = p
            .get_genes()
            .iter()
            .map(|g| match g {
                PushGene::Instruction(PushInstruction::IntInstruction(IntInstruction::Push(v))) => v.0 as u32,
                _ => u32::MAX,
            })
            .collect();
        check_serials("Plushy", size, &serials, first, c.next.get() - first, rep);
        // population of scored individuals
        if size <= 64 {
            let c = Counting::new(first);
            let ig = IndividualGenerator::new(&c, FnScorer(|e: &El| u64::from(e.serial) * 2));
            let pop: Vec<EcIndividual<El, u64>> = ig.to_collection_generator(size).sample(&mut rng);
            check_serials("population", size, &pop.iter().map(|i| i.genome.serial).collect::<Vec<_>>(), first, c.next.get() - first, rep);
            rep.eval();
            if pop.iter().any(|i| i.test_results != u64::from(i.genome.serial) * 2) {
                rep.violation("C18/collection/population/score", || json!({"requested": size}));
            }
            if rep.wants_sample() && size == 5 {
                rep.sample(|| json!({"kind": "population from a collection generator", "requested": size, "element_serials": pop.iter().map(|i| i.genome.serial).collect::<Vec<_>>(), "first_serial_of_this_call": first}));
            }
        }
    }
}

fn elements(n: usize) -> Vec<El> {
    // duplicate values at distinct positions
    (0..n).map(|i| El { serial: 100 + i as u32, val: (i % 2) as u8 }).collect()
}

/// Drive one distribution flavour: `pick` returns the index of the sampled member or None.
fn drive(name: &str, n: usize, num_choices: usize, draws: u64, seed: u64, rep: &mut Report, mut pick: impl FnMut(&mut TraceRng) -> Option<usize>) {
    let cfg = format!("{name} size={n}");
    let mut rng = TraceRng::derive(seed, "C18-choice", fnv_str(&cfg));
    let mut counts = vec![0u64; n];
    rep.distinct(fnv_str(&cfg));
    if num_choices != n {
        rep.violation(format!("C18/choice/{name}/num_choices"), || json!({"built_from": n, "num_choices": num_choices}));
    }
    for d in 0..draws {
        rep.eval();
        match pick(&mut rng) {
            Some(i) if i < n => counts[i] += 1,
            other => {
                rep.violation(format!("C18/choice/{name}/not-a-member"), || json!({"config": cfg, "draw": d, "observed": format!("{other:?}")}));
                return;
            }
        }
    }
    let mut rows = Vec::new();
    for i in 0..n {
        let c = check(format!("{cfg}: member {i}"), draws, counts[i], 1.0 / n as f64);
        if !c.ok {
            rep.violation(format!("C18/choice/{name}/not-uniform"), || json!({"config": cfg, "check": c.to_json(), "counts": counts}));
        }
        rows.push(c.to_json());
    }
    rep.count(&format!("choice:{name}"));
    if rep.wants_sample() && n == 4 {
        rep.sample(|| json!({"kind": "uniform choice", "config": cfg, "draws": draws, "counts_per_member": counts}));
    }
    rep.table_push("frequency_tables", json!({"config": cfg, "draws": draws, "members": rows}));
}

fn by_serial(e: &El) -> Option<usize> {
    (e.serial as usize).checked_sub(100)
}

fn by_identity(r: &El, base: &[El]) -> Option<usize> {
    base.iter().position(|x| std::ptr::eq(x, r))
}

macro_rules! array_flavours {
    ($n:literal, $draws:expr, $seed:expr, $rep:expr) => {{
        let v = elements($n);
        let arr: [El; $n] = v.clone().try_into().unwrap();
        // owning
        let d: OneOfCloning<[El; $n], El> = arr.clone().into_distribution().unwrap();
        let nc = d.num_choices().get();
        drive("[T;N].into_distribution (owning, cloning)", $n, nc, $draws, $seed, $rep, |r| by_serial(&d.sample(r)));
        // borrowing array reference
        let d: Choose<'_, El> = IntoDistribution::<&El>::into_distribution(&arr).unwrap();
        let nc = ChoicesDistribution::num_choices(&d).get();
        drive("&[T;N].into_distribution (borrowing)", $n, nc, $draws, $seed, $rep, |r| by_identity(d.sample(r), &arr));
        let d: ChooseCloning<'_, El> = IntoDistribution::<El>::into_distribution(&arr).unwrap();
        let nc = d.num_choices().get();
        drive("&[T;N].into_distribution (cloning)", $n, nc, $draws, $seed, $rep, |r| by_serial(&d.sample(r)));
        let d: ChooseCloning<'_, El> = ToDistribution::<El>::to_distribution(&arr).unwrap();
        let nc = d.num_choices().get();
        drive("[T;N].to_distribution (cloning)", $n, nc, $draws, $seed, $rep, |r| by_serial(&d.sample(r)));
        let d: Choose<'_, El> = ToDistribution::<&El>::to_distribution(&arr).unwrap();
        let nc = ChoicesDistribution::num_choices(&d).get();
        drive("[T;N].to_distribution (borrowing)", $n, nc, $draws, $seed, $rep, |r| by_identity(d.sample(r), &arr));
    }};
}

fn choices(draws: u64, seed: u64, rep: &mut Report) {
    for n in (1..=8usize).chain([13, 64, 100, 257, 1000]) {
        let v = elements(n);
        // Vec, owning + cloning
        let d: OneOfCloning<Vec<El>, El> = v.clone().into_distribution().unwrap();
        let nc = d.num_choices().get();
        {
            // the number of choices is the same however the distribution is reached
            let by_ref: Choose<'_, El> = IntoDistribution::<&El>::into_distribution(&v).unwrap();
            let cloning: ChooseCloning<'_, El> = IntoDistribution::<El>::into_distribution(&v).unwrap();
            let mut d_mut: OneOfCloning<Vec<El>, El> = v.clone().into_distribution().unwrap();
            let mut cloning_mut: ChooseCloning<'_, El> = IntoDistribution::<El>::into_distribution(&v).unwrap();
            let through_mut = [nc_generic(&mut d_mut), nc_generic(&mut &mut d_mut), nc_generic(&mut cloning_mut), nc_generic(&&mut cloning_mut)];
            let seen = [nc_generic(&d), nc_generic(&&d), nc_generic(&by_ref), nc_generic(&&by_ref), nc_generic(&cloning), <&OneOfCloning<Vec<El>, El> as ChoicesDistribution>::num_choices(&&d).get(), through_mut[0], through_mut[1], through_mut[2], through_mut[3]];
            rep.eval();
            if seen.iter().any(|x| *x != n) {
                rep.violation("C18/choice/num_choices-through-references", || json!({"members": n, "num_choices_seen_through [&D, &&D, &Choose, &&Choose, &ChooseCloning, <&D>::num_choices, &mut D, &mut &mut D, &mut ChooseCloning, &&mut ChooseCloning]": seen}));
            }
        }
        drive("Vec.into_distribution (owning, cloning)", n, nc, draws, seed, rep, |r| by_serial(&d.sample(r)));
        let d: OneOfCloning<Vec<El>, El> = OneOfCloning::new(v.clone()).unwrap();
        let nc = d.num_choices().get();
        drive("OneOfCloning::new", n, nc, draws, seed, rep, |r| by_serial(&d.sample(r)));
        // &Vec
        let d: Choose<'_, El> = IntoDistribution::<&El>::into_distribution(&v).unwrap();
        let nc = ChoicesDistribution::num_choices(&d).get();
        drive("&Vec.into_distribution (borrowing)", n, nc, draws, seed, rep, |r| by_identity(d.sample(r), &v));
        let d: ChooseCloning<'_, El> = IntoDistribution::<El>::into_distribution(&v).unwrap();
        let nc = d.num_choices().get();
        drive("&Vec.into_distribution (cloning)", n, nc, draws, seed, rep, |r| by_serial(&d.sample(r)));
        let d: ChooseCloning<'_, El> = ToDistribution::<El>::to_distribution(&v).unwrap();
        let nc = d.num_choices().get();
        drive("Vec.to_distribution (cloning)", n, nc, draws, seed, rep, |r| by_serial(&d.sample(r)));
        let d: Choose<'_, El> = ToDistribution::<&El>::to_distribution(&v).unwrap();
        let nc = ChoicesDistribution::num_choices(&d).get();
        drive("Vec.to_distribution (borrowing)", n, nc, draws, seed, rep, |r| by_identity(d.sample(r), &v));
        // slices
        let s: &[El] = &v;
        let d: Choose<'_, El> = IntoDistribution::<&El>::into_distribution(s).unwrap();
        let nc = ChoicesDistribution::num_choices(&d).get();
        drive("&[T].into_distribution (borrowing)", n, nc, draws, seed, rep, |r| by_identity(d.sample(r), s));
        let d: ChooseCloning<'_, El> = IntoDistribution::<El>::into_distribution(s).unwrap();
        let nc = d.num_choices().get();
        drive("&[T].into_distribution (cloning)", n, nc, draws, seed, rep, |r| by_serial(&d.sample(r)));
        let d: Choose<'_, El> = ToDistribution::<&El>::to_distribution(s).unwrap();
        let nc = ChoicesDistribution::num_choices(&d).get();
        drive("[T].to_distribution (borrowing)", n, nc, draws, seed, rep, |r| by_identity(d.sample(r), s));
        let d: ChooseCloning<'_, El> = ToDistribution::<El>::to_distribution(s).unwrap();
        let nc = d.num_choices().get();
        drive("[T].to_distribution (cloning)", n, nc, draws, seed, rep, |r| by_serial(&d.sample(r)));
        let d = ChooseCloning::new(s).unwrap();
        let nc = d.num_choices().get();
        drive("ChooseCloning::new", n, nc, draws, seed, rep, |r| by_serial(&d.sample(r)));
        // through a reference to the distribution (ChoicesDistribution for &T)
        let dr = &d;
        let nc = ChoicesDistribution::num_choices(&dr).get();
        drive("&ChooseCloning", n, nc, draws / 4, seed, rep, |r| by_serial(&dr.sample(r)));
    }
    array_flavours!(1, draws, seed, rep);
    array_flavours!(2, draws, seed, rep);
    array_flavours!(3, draws, seed, rep);
    array_flavours!(5, draws, seed, rep);
    array_flavours!(8, draws, seed, rep);
    // the macro, both forms
    let d = uniform_distribution_of![El { serial: 100, val: 0 }, El { serial: 101, val: 0 }, El { serial: 102, val: 1 }];
    let nc = d.num_choices().get();
    drive("uniform_distribution_of![..]", 3, nc, draws, seed, rep, |r| by_serial(&d.sample(r)));
    let d = uniform_distribution_of![<i64> 100i32, 101i32, 102i32, 103i32];
    let nc = d.num_choices().get();
    drive("uniform_distribution_of![<T> ..]", 4, nc, draws, seed, rep, |r| usize::try_from(d.sample(r) - 100).ok());
}

/// Uniformity on a *large* collection (3 * 2^22 members): residues of the chosen index
/// modulo 2, 3, 5 and 16 equal-width bins. An index computed through a narrow
/// intermediate (e.g. an f32 with 24 significant bits) is visibly non-uniform here while
/// looking perfect on a handful of members.
fn large_collection(draws: u64, seed: u64, rep: &mut Report) {
    let len: usize = 3 << 22;
    let v: Vec<u32> = (0..len as u32).collect();
    let mut flavours: Vec<(&'static str, Box<dyn FnMut(&mut TraceRng) -> usize + '_>)> = Vec::new();
    let owned: OneOfCloning<Vec<u32>, u32> = v.clone().into_distribution().unwrap();
    if owned.num_choices().get() != len {
        rep.violation("C18/choice/large/num_choices", || json!({"built_from": len, "num_choices": owned.num_choices().get()}));
    }
    flavours.push(("Vec.into_distribution (owning) on 3*2^22 members", Box::new(move |r| owned.sample(r) as usize)));
    let cloning: ChooseCloning<'_, u32> = ToDistribution::<u32>::to_distribution(&v).unwrap();
    flavours.push(("Vec.to_distribution (cloning) on 3*2^22 members", Box::new(move |r| cloning.sample(r) as usize)));
    let borrowing: Choose<'_, u32> = ToDistribution::<&u32>::to_distribution(&v).unwrap();
    flavours.push(("Vec.to_distribution (borrowing) on 3*2^22 members", Box::new(move |r| *borrowing.sample(r) as usize)));
    for (name, mut pick) in flavours {
        let mut rng = TraceRng::derive(seed, "C18-large", fnv_str(name));
        let mut m2 = [0u64; 2];
        let mut m3 = [0u64; 3];
        let mut m5 = [0u64; 5];
        let mut bins = [0u64; 16];
        for d in 0..draws {
            rep.eval();
            let i = pick(&mut rng);
            if i >= len {
                rep.violation("C18/choice/large/not-a-member", || json!({"flavour": name, "draw": d, "index": i}));
                return;
            }
            m2[i % 2] += 1;
            m3[i % 3] += 1;
            m5[i % 5] += 1;
            bins[i * 16 / len] += 1;
        }
        rep.distinct(fnv_str(name));
        rep.count("choice:large-collection");
        let mut rows = Vec::new();
        let mut cat = |label: String, count: u64, p: f64, rep: &mut Report| {
            let c = check(format!("{name}: {label}"), draws, count, p);
            if !c.ok {
                rep.violation("C18/choice/large/not-uniform", || json!({"flavour": name, "check": c.to_json()}));
            }
            rows.push(c.to_json());
        };
        for (k, c) in m2.iter().enumerate() {
            cat(format!("index mod 2 = {k}"), *c, 0.5, rep);
        }
        for (k, c) in m3.iter().enumerate() {
            cat(format!("index mod 3 = {k}"), *c, 1.0 / 3.0, rep);
        }
        for (k, c) in m5.iter().enumerate() {
            let p = ((len + 4 - k) / 5) as f64 / len as f64;
            cat(format!("index mod 5 = {k}"), *c, p, rep);
        }
        for (k, c) in bins.iter().enumerate() {
            cat(format!("index in sixteenth {k}"), *c, 1.0 / 16.0, rep);
        }
        rep.table_push("frequency_tables", json!({"config": name, "draws": draws, "categories": rows}));
    }
}

fn empties(rep: &mut Report) {
    let v: Vec<El> = Vec::new();
    let arr: [El; 0] = [];
    let s: &[El] = &v;
    let results: Vec<(&'static str, bool)> = vec![
        ("Vec.into_distribution", v.clone().into_distribution().is_err()),
        ("OneOfCloning::new(Vec)", OneOfCloning::<Vec<El>, El>::new(v.clone()).is_err()),
        ("&Vec.into_distribution (borrowing)", IntoDistribution::<&El>::into_distribution(&v).is_err()),
        ("&Vec.into_distribution (cloning)", IntoDistribution::<El>::into_distribution(&v).is_err()),
        ("Vec.to_distribution (cloning)", ToDistribution::<El>::to_distribution(&v).is_err()),
        ("Vec.to_distribution (borrowing)", ToDistribution::<&El>::to_distribution(&v).is_err()),
        ("[T;0].into_distribution", arr.clone().into_distribution().is_err()),
        ("&[T;0].into_distribution (borrowing)", IntoDistribution::<&El>::into_distribution(&arr).is_err()),
        ("&[T;0].into_distribution (cloning)", IntoDistribution::<El>::into_distribution(&arr).is_err()),
        ("[T;0].to_distribution (cloning)", ToDistribution::<El>::to_distribution(&arr).is_err()),
        ("[T;0].to_distribution (borrowing)", ToDistribution::<&El>::to_distribution(&arr).is_err()),
        ("&[T].into_distribution (borrowing)", IntoDistribution::<&El>::into_distribution(s).is_err()),
        ("&[T].into_distribution (cloning)", IntoDistribution::<El>::into_distribution(s).is_err()),
        ("[T].to_distribution (borrowing)", ToDistribution::<&El>::to_distribution(s).is_err()),
        ("[T].to_distribution (cloning)", ToDistribution::<El>::to_distribution(s).is_err()),
        ("ChooseCloning::new", ChooseCloning::new(s).is_err()),
    ];
    for (what, rejected) in results {
        rep.eval();
        rep.distinct(fnv_str(&format!("empty {what}")));
        rep.count("empty-collection:rejected-at-construction");
        if !rejected {
            rep.violation(format!("C18/choice/{what}/empty-accepted"), || json!({"meaning": "a uniform choice was built from an empty collection instead of Err(EmptySlice)"}));
        }
    }
}

pub fn run(args: &Args) -> i32 {
    let draws = args.tier.pick(2_000_000u64, 40_000_000u64);
    // the choice monitors are independent: run the two halves on two threads, the
    // collection part is cheap
    let rep = run_shards(4, args.threads.min(4), 64 << 20, |s| {
        let mut rep = Report::new();
        match s {
            0 => {
                if let Err(p) = catch(|| collections(args.seed, &mut rep)) {
                    rep.violation("C18/collection/panic", || json!({"panic": p.to_string()}));
                }
            }
            1 => {
                if let Err(p) = catch(|| choices(draws, args.seed, &mut rep)) {
                    rep.violation("C18/choice/panic", || json!({"panic": p.to_string()}));
                }
            }
            2 => {
                if let Err(p) = catch(|| large_collection(draws / 4, args.seed, &mut rep)) {
                    rep.violation("C18/choice/panic", || json!({"panic": p.to_string()}));
                }
            }
            _ => {
                if let Err(p) = catch(|| empties(&mut rep)) {
                    rep.violation("C18/choice/empty-panics", || json!({"panic": p.to_string(), "meaning": "building a choice from an empty collection must be rejected with an error, not fail later or panic"}));
                }
            }
        }
        rep
    });
    rep.finish(
        args,
        "exploration",
        "collection generators for sizes 0..130, around multiples of 64 up to 4097, 10^4, 65536, 65537, 131073, 3*10^5, 2^20+1 and 1.2*10^6 over Vec (three construction paths, repeated sampling), Bitstring (incl. random / random_with_probability), Plushy and scored populations with a counting element generator; 19 choice-construction flavours x collection sizes 1..8, 13, 64, 100, 257, 1000 (arrays 1,2,3,5,8) with the stated number of draws each; 16 empty-collection constructions. distinct_nontrivial = distinct (flavour, size) configurations",
        false,
        &[
            "order of elements inside a generated collection and over-draw from the element generator are recorded but not judged",
            "uniformity is decided up to the stated resolution",
        ],
    )
}
