//! Monitors for the ec-core / ec-linear properties: C06–C08, C10–C18.

mod c06;
mod c07;
mod c08;
mod c10;
mod c11;
mod c12;
mod c13;
mod c14;
mod c15;
mod c16;
mod c17;
mod c18;
#[allow(dead_code)]
#[path = "../../vh-push/src/pushvm.rs"]
mod pushvm;
mod common;
mod shapes;

use vh_core::Args;

fn main() {
    let args = Args::parse();
    let code = match args.prop.as_str() {
        "C06" => c06::run(&args),
        "C07" => c07::run(&args),
        "C08" => c08::run(&args),
        "C10" => c10::run(&args),
        "C11" => c11::run(&args),
        "C12" => c12::run(&args),
        "C13" => c13::run(&args),
        "C14" => c14::run(&args),
        "C15" => c15::run(&args),
        "C16" => c16::run(&args),
        "C17" => c17::run(&args),
        "C18" => c18::run(&args),
        other => {
            eprintln!("vh-ec: unknown property {other}");
            2
        }
    };
    std::process::exit(code);
}
