fn main() {}
