//! C13 — weighted selector combinations choose members in proportion to their weights.
//!
//! Oracle: marker selectors (member i returns population[i] and logs its call). Per
//! selection: exactly one member was invoked and it has positive weight and the returned
//! individual is that member's; over N selections member i is used with frequency
//! w_i / sum(w) within the Bernstein interval — for left-nested chains built with
//! `with_item_and_weight`, right-nested / balanced / mixed `WeightedPair::new` trees and
//! `DynWeighted` lists, over permutations of the same weight multiset. Exact cases:
//! all-zero weights => zero-weight error and no member called; 32-bit weight totals:
//! (u32::MAX, 0) builds, (u32::MAX, 1) is rejected at construction, also when the
//! overflow happened earlier in the chain.

use vh_core::{fnv_str, json, mix, shard::run_shards, stats::check, Args, Report, TraceRng, Xo};

use crate::{
    common::{err_tokens, ind_s, take_leaf_log, LeafKind, SelOut},
    shapes::{build, must_overflow, AnySel, Pop, Shape},
};

fn markers(k: usize) -> Vec<LeafKind> {
    (0..k).map(LeafKind::Marker).collect()
}

fn population(k: usize) -> Pop {
    // equal values everywhere: only identity tells members apart
    (0..k).map(|i| ind_s(i as u32, &[1, 1])).collect()
}

fn frequency_config(shape: Shape, weights: &[u32], draws: u64, seed: u64, rep: &mut Report) {
    let k = shape.arity();
    let pop = population(k);
    let cfg = format!("{shape:?} weights={weights:?}");
    let total: u64 = weights.iter().map(|w| u64::from(*w)).sum();
    let sel = match build(shape, &markers(k), weights) {
        Ok(s) => {
            if must_overflow(shape, weights) {
                rep.eval();
                rep.violation("C13/overflow-not-rejected", || json!({"config": cfg, "weight_total": total, "meaning": "a statically typed chain whose weights do not fit in 32 bits was built"}));
                return;
            }
            s
        }
        Err(e) => {
            rep.eval();
            rep.distinct(fnv_str(&cfg));
            if must_overflow(shape, weights) && e.contains("WeightSumOverflow") {
                rep.count("construction:overflow-rejected");
            } else {
                rep.violation("C13/construction-rejected", || json!({"config": cfg, "error": e, "weight_total": total}));
            }
            return;
        }
    };
    let mut rng = TraceRng::derive(seed, "C13", fnv_str(&cfg));
    drive(sel.as_ref(), &pop, weights, draws, &cfg, &mut rng, rep);
}

/// `draws` selections through `sel`, whose members carry `weights`: per-draw delegation
/// invariants, then the weight-ratio law.
fn drive(sel: &dyn AnySel, pop: &Pop, weights: &[u32], draws: u64, cfg: &str, rng: &mut TraceRng, rep: &mut Report) {
    let k = weights.len();
    let total: u64 = weights.iter().map(|w| u64::from(*w)).sum();
    // per-selection invariants under hostile streams (all zeros / all ones / alternating ...):
    // exactly one member is used, never a zero-weight one, the result is that member's
    for mut hr in TraceRng::hostile_variants(fnv_str(cfg) % 1000) {
        for _ in 0..6 {
            take_leaf_log();
            let out = sel.sel(pop, &mut hr);
            let log = take_leaf_log();
            rep.eval();
            let ok = if total == 0 {
                log.is_empty() && matches!(&out, SelOut::Err(_))
            } else {
                log.len() == 1 && weights[log[0]] > 0 && out == SelOut::Member(log[0])
            };
            if !ok {
                rep.violation("C13/delegation-under-extreme-stream", || json!({"config": cfg, "weight_total": total, "members_called": log, "observed": format!("{out:?}")}));
                return;
            }
        }
    }
    // on an empty population: an all-zero combination still reports its zero-weight error, any
    // other delegates to exactly one positive-weight member (whose own error comes back)
    {
        let empty: Pop = Vec::new();
        for h in 0..6u64 {
            take_leaf_log();
            let out = sel.sel(&empty, &mut TraceRng::stream(mix(fnv_str(cfg), h)));
            let log = take_leaf_log();
            rep.eval();
            let ok = if total == 0 {
                log.is_empty() && matches!(&out, SelOut::Err(t) if err_tokens(t).iter().any(|x| *x == "ZeroWeight" || *x == "InsufficientNonZero"))
            } else {
                log.len() == 1 && weights[log[0]] > 0 && matches!(&out, SelOut::Err(t) if t.contains("MarkerOutOfRange"))
            };
            if !ok {
                rep.violation("C13/delegation-on-empty-population", || json!({"config": cfg, "weight_total": total, "members_called": log, "observed": format!("{out:?}")}));
                return;
            }
        }
    }
    let mut used = vec![0u64; k];
    for d in 0..draws {
        take_leaf_log();
        let out = sel.sel(pop, rng);
        let log = take_leaf_log();
        rep.eval();
        if total == 0 {
            let ok = log.is_empty() && matches!(&out, SelOut::Err(t) if err_tokens(t).iter().any(|x| *x == "ZeroWeight" || *x == "InsufficientNonZero"));
            if !ok {
                rep.violation("C13/all-zero-weights", || json!({"config": cfg, "observed": format!("{out:?}"), "members_called": log}));
                return;
            }
            if d >= 200 {
                break; // deterministic case: a few hundred selections suffice
            }
            continue;
        }
        if log.is_empty() {
            if let SelOut::Err(t) = &out {
                // no member was asked although the weights are not all zero
                let sig = if err_tokens(t).iter().any(|x| *x == "ZeroWeight" || *x == "InsufficientNonZero") {
                    "C13/zero-weight-error-although-total-weight-positive"
                } else {
                    "C13/selection-refused"
                };
                rep.violation(sig, || json!({"config": cfg, "draw": d, "weight_total": total, "observed": t}));
                return;
            }
        }
        if log.len() != 1 {
            rep.violation("C13/delegation-count", || json!({"config": cfg, "draw": d, "members_called": log, "observed": format!("{out:?}")}));
            return;
        }
        let m = log[0];
        if weights[m] == 0 {
            rep.violation("C13/zero-weight-member-used", || json!({"config": cfg, "draw": d, "member": m}));
            return;
        }
        if out != SelOut::Member(m) {
            rep.violation("C13/result-not-from-chosen-member", || json!({"config": cfg, "draw": d, "member_called": m, "observed": format!("{out:?}")}));
            return;
        }
        used[m] += 1;
    }
    rep.distinct(fnv_str(cfg));
    if total == 0 {
        rep.count("exact:all-zero");
        return;
    }
    let mut rows = Vec::new();
    for i in 0..k {
        let p = f64::from(weights[i]) / total as f64;
        let c = check(format!("{cfg}: member {i}"), draws, used[i], p);
        if !c.ok {
            rep.violation("C13/weight-ratio", || json!({"config": cfg, "member": i, "check": c.to_json(), "uses": used}));
        }
        rows.push(c.to_json());
    }
    if rep.wants_sample() && k >= 3 {
        rep.sample(|| json!({"kind": "weighted combination", "config": cfg, "uses_per_member": used, "draws": draws}));
    }
    rep.table_push("frequency_tables", json!({"config": cfg, "draws": draws, "members": rows}));
}

/// Histories on one combination value: select, extend, select again. Every stage must obey
/// the weights it has *at that moment* (nothing about an earlier stage may be remembered).
fn staged_config(dynamic: bool, weights: &[u32], draws: u64, seed: u64, rep: &mut Report) {
    use ec_core::{operator::selector::dyn_weighted::DynWeighted, weighted::{with_weighted_item::WithWeightedItem, Weighted}};
    use crate::common::Leaf;
    let k = weights.len();
    let pop = population(k);
    let kinds = markers(k);
    let l = |t: usize| Leaf::new(t, kinds[t].clone());
    let name = if dynamic { "DynWeighted" } else { "with_item_and_weight chain" };
    let mut rng = TraceRng::derive(seed, "C13-staged", fnv_str(&format!("{name}{weights:?}")));
    let per = draws / k as u64;
    let cfg = |stage: usize| format!("staged {name} weights={weights:?} after {} of {k} members (selected from between extensions)", stage + 1);
    if dynamic {
        let mut d: DynWeighted<Pop> = DynWeighted::new(l(0), weights[0] as usize);
        drive(&d, &pop, &weights[..1], per, &cfg(0), &mut rng, rep);
        for t in 1..k {
            d = d.with_selector(l(t), weights[t] as usize);
            drive(&d, &pop, &weights[..=t], per, &cfg(t), &mut rng, rep);
        }
    } else {
        macro_rules! next {
            ($prev:expr, $t:expr) => {{
                match $prev.with_item_and_weight(l($t), weights[$t]) {
                    Ok(s) => {
                        drive(&s, &pop, &weights[..=$t], per, &cfg($t), &mut rng, rep);
                        s
                    }
                    Err(e) => {
                        rep.eval();
                        rep.violation("C13/construction-rejected", || json!({"config": cfg($t), "error": format!("{e:?}")}));
                        return;
                    }
                }
            }};
        }
        let s0 = Weighted::new(l(0), weights[0]);
        drive(&s0, &pop, &weights[..1], per, &cfg(0), &mut rng, rep);
        if k < 2 { return; }
        let s1 = next!(s0, 1);
        if k < 3 { return; }
        let s2 = next!(s1, 2);
        if k < 4 { return; }
        let s3 = next!(s2, 3);
        if k < 5 { return; }
        let _s4 = next!(s3, 4);
    }
}

/// The dynamic list takes `usize` weights: proportionality must also hold where the weights do
/// not fit in 32 bits (totals that still fit in a usize).
fn dyn_usize_config(weights: &[usize], draws: u64, seed: u64, rep: &mut Report) {
    use ec_core::operator::selector::dyn_weighted::DynWeighted;
    use crate::common::Leaf;
    let k = weights.len();
    let kinds = markers(k);
    let pop = population(k);
    let cfg = format!("DynWeighted usize weights={weights:?}");
    let total: u128 = weights.iter().map(|w| *w as u128).sum();
    if total > usize::MAX as u128 {
        return;
    }
    let mut d: DynWeighted<Pop> = DynWeighted::new(Leaf::new(0, kinds[0].clone()), weights[0]);
    for i in 1..k {
        d = d.with_selector(Leaf::new(i, kinds[i].clone()), weights[i]);
    }
    let mut rng = TraceRng::derive(seed, "C13-usize", fnv_str(&cfg));
    let mut used = vec![0u64; k];
    for dr in 0..draws {
        take_leaf_log();
        let out = d.sel(&pop, &mut rng);
        let log = take_leaf_log();
        rep.eval();
        if log.len() != 1 || weights[log[0]] == 0 || out != SelOut::Member(log[0]) {
            rep.violation("C13/delegation-count", || json!({"config": cfg, "draw": dr, "members_called": log, "observed": format!("{out:?}")}));
            return;
        }
        used[log[0]] += 1;
    }
    rep.distinct(fnv_str(&cfg));
    let mut rows = Vec::new();
    for i in 0..k {
        let p = weights[i] as f64 / total as f64;
        let c = check(format!("{cfg}: member {i}"), draws, used[i], p);
        if !c.ok {
            rep.violation("C13/weight-ratio", || json!({"config": cfg, "member": i, "check": c.to_json(), "uses": used}));
        }
        rows.push(c.to_json());
    }
    rep.table_push("frequency_tables", json!({"config": cfg, "draws": draws, "members": rows}));
}

fn permutations_of(w: &[u32], g: &mut Xo, max: usize) -> Vec<Vec<u32>> {
    let mut out = vec![w.to_vec()];
    let mut rev = w.to_vec();
    rev.reverse();
    if rev != w {
        out.push(rev);
    }
    while out.len() < max {
        let mut p = w.to_vec();
        g.shuffle(&mut p);
        if !out.contains(&p) {
            out.push(p);
        } else if w.len() <= 2 {
            break;
        } else if g.chance(1, 4) {
            break;
        }
    }
    out
}

pub fn run(args: &Args) -> i32 {
    let draws = args.tier.pick(1_000_000u64, 20_000_000u64);
    let perms = args.tier.pick(2usize, 6usize);
    let big = 1u32 << 31;
    let multisets: Vec<Vec<u32>> = vec![
        vec![1],
        vec![0],
        vec![1, 1],
        vec![1, 3],
        vec![0, 5],
        vec![0, 0],
        vec![u32::MAX, 0],
        vec![u32::MAX, 1],
        vec![big, big - 1],
        vec![big, big],
        vec![1 << 30, big],
        vec![3 << 29, 1 << 30],
        vec![1 << 29, 1 << 29, big],
        vec![1 << 30, 5, big, 0],
        vec![7, 1 << 31, 1 << 30, 3, 0],
        vec![1, 2, 3],
        vec![0, 0, 7],
        vec![5, 0, 1],
        vec![0, 0, 0],
        vec![u32::MAX, 1, 5],
        vec![big, big, 0],
        vec![1, 2, 3, 4],
        vec![5, 0, 1, 4],
        vec![0, 0, 0, 0],
        vec![100, 1, 1, 1],
        vec![u32::MAX, 1, 0, 0],
        vec![big - 1, 1, big - 1, 1],
        vec![1, 1, 1, 1, 1],
        vec![9, 0, 3, 0, 1],
        vec![0, 0, 0, 0, 0],
        vec![u32::MAX - 3, 1, 1, 1, 1],
        vec![1 << 30, 1 << 30, 1 << 30, 1 << 30, 0],
    ];
    let mut g = Xo::derive(args.seed, "C13-perm", 0);
    let mut configs: Vec<(Shape, Vec<u32>)> = Vec::new();
    for shape in Shape::all() {
        for ms in multisets.iter().filter(|m| m.len() == shape.arity()) {
            for p in permutations_of(ms, &mut g, perms) {
                configs.push((shape, p));
            }
        }
    }
    let mut rep = run_shards(configs.len(), args.threads, 16 << 20, |i| {
        let mut rep = Report::new();
        let (shape, w) = &configs[i];
        frequency_config(*shape, w, draws, mix(args.seed, i as u64), &mut rep);
        rep
    });
    let wide: Vec<Vec<usize>> = vec![
        vec![3 << 32, 1 << 32],
        vec![1 << 40, 1 << 31],
        vec![1 << 33, 0, 1 << 32, 1 << 32],
        vec![usize::MAX / 2, usize::MAX / 4, 1],
        vec![1 << 63, 1 << 62],
        vec![u32::MAX as usize + 1, u32::MAX as usize],
        vec![5, 1 << 34, 3],
        vec![(1 << 32) + 1, (1 << 32) - 1, 2],
    ];
    let wd = run_shards(wide.len(), args.threads, 16 << 20, |i| {
        let mut rep = Report::new();
        dyn_usize_config(&wide[i], draws, mix(args.seed, 9_000 + i as u64), &mut rep);
        rep.count("dynamic-list-usize-weights");
        rep
    });
    rep.merge(wd);
    let staged: Vec<(bool, Vec<u32>)> = [
        vec![1u32, 1, 2, 4], vec![0, 3, 0, 1], vec![0, 0, 5], vec![2, 0, 0, 0, 7], vec![5, 1], vec![0, 0, 0, 1, 0], vec![1, 1000, 1],
    ]
    .into_iter()
    .flat_map(|w| [(true, w.clone()), (false, w)])
    .collect();
    let st = run_shards(staged.len(), args.threads, 16 << 20, |i| {
        let mut rep = Report::new();
        let (dynamic, w) = &staged[i];
        staged_config(*dynamic, w, draws, mix(args.seed, 7_000 + i as u64), &mut rep);
        rep.count("staged-histories");
        rep
    });
    rep.merge(st);
    rep.table("statistical_monitor", json!({
        "draws_per_configuration": draws,
        "per_category_false_alarm_bound": vh_core::stats::DELTA,
        "resolution_at_p_half": vh_core::stats::resolution(draws, 0.5),
        "configurations": configs.len(),
    }));
    rep.finish(
        args,
        "exploration",
        "13 nestings (single, left chains of 2..5, right-nested 3/4, balanced 4, mixed 5, dynamic lists of 1/2/3/5) x weight multisets incl. zeros, all-zero, 2^31 / u32::MAX boundaries and overflowing totals, in several permutations; staged histories (select, extend with another member, select again) on DynWeighted lists and with_item_and_weight chains, each stage judged against the weights it has at that moment; distinct_nontrivial = distinct (nesting, weight vector) configurations",
        false,
        &[
            "members are marker selectors that return a distinct individual and log their call",
            "DynWeighted takes usize weights, so 32-bit totals that overflow the static chains are legal there",
        ],
    )
}
