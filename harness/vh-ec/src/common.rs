//! Shared fixtures for the ec-core / ec-linear monitors.

use std::cell::RefCell;

use ec_core::{
    individual::ec::EcIndividual,
    operator::selector::{
        best::Best, lexicase::Lexicase, random::Random, tournament::Tournament, worst::Worst,
        Selector,
    },
    test_results::{Error as ErrorR, Score, TestResults},
};
use rand::Rng;
use vh_core::catch;

/// Individual used by the selector monitors: genome = unique id, results = scores.
pub type IndS = EcIndividual<u32, TestResults<Score<i64>>>;
/// Same with error polarity (lower is better).
pub type IndE = EcIndividual<u32, TestResults<ErrorR<i64>>>;

pub fn ind_s(id: u32, results: &[i64]) -> IndS {
    EcIndividual::new(id, results.iter().copied().collect::<TestResults<Score<i64>>>())
}

pub fn ind_e(id: u32, results: &[i64]) -> IndE {
    EcIndividual::new(id, results.iter().copied().collect::<TestResults<ErrorR<i64>>>())
}

/// Result of one observed selection.
#[derive(Clone, Debug, PartialEq)]
pub enum SelOut {
    /// index of the returned element inside the population (identity by address)
    Member(usize),
    /// returned a reference that is not an element of the population
    Foreign,
    Err(String),
    Panic(String),
}

impl SelOut {
    pub fn kind(&self) -> &'static str {
        match self {
            SelOut::Member(_) => "member",
            SelOut::Foreign => "foreign",
            SelOut::Err(_) => "error",
            SelOut::Panic(_) => "panic",
        }
    }
}

pub fn observe_select<I, S, R>(sel: &S, pop: &Vec<I>, rng: &mut R) -> SelOut
where
    S: Selector<Vec<I>>,
    S::Error: std::fmt::Debug,
    R: Rng + ?Sized,
{
    match catch(|| sel.select(pop, rng)) {
        Err(p) => SelOut::Panic(p.to_string()),
        Ok(Err(e)) => SelOut::Err(format!("{e:?}")),
        Ok(Ok(r)) => match pop.iter().position(|x| std::ptr::eq(x, r)) {
            Some(i) => SelOut::Member(i),
            None => SelOut::Foreign,
        },
    }
}

/// Error "tokens" recognised in the Debug rendering of (possibly nested) selector errors.
pub const ERR_TOKENS: [&str; 6] = [
    "EmptyPopulation",
    "TournamentSizeError",
    "MissingTestCase",
    "ZeroWeight",
    "InsufficientNonZero",
    "MarkerOutOfRange",
];

pub fn err_tokens(text: &str) -> Vec<&'static str> {
    ERR_TOKENS.iter().copied().filter(|t| text.contains(t)).collect()
}

// ------------------------------------------------------------------------------------
// A leaf selector whose kind is chosen at run time, delegating to the real selectors.

#[derive(Clone, Debug, PartialEq)]
pub enum LeafKind {
    Best,
    Worst,
    Random,
    Tournament(usize),
    Lexicase(usize),
    /// returns population[i]; used as an identifiable marker
    Marker(usize),
}

#[derive(Debug)]
pub struct Leaf {
    /// position of this leaf inside the combination it was built into
    pub tag: usize,
    pub kind: LeafKind,
}

impl Leaf {
    pub fn new(tag: usize, kind: LeafKind) -> Self {
        Self { tag, kind }
    }
}

#[derive(Debug)]
pub enum LeafError {
    Real(String),
    MarkerOutOfRange,
}

impl std::fmt::Display for LeafError {
    fn fmt(&self, f: &mut std::fmt::Formatter<'_>) -> std::fmt::Result {
        write!(f, "{self:?}")
    }
}
impl std::error::Error for LeafError {}

thread_local! {
    /// tags of the leaves invoked on this thread since the log was last cleared
    pub static LEAF_LOG: RefCell<Vec<usize>> = const { RefCell::new(Vec::new()) };
}

pub fn take_leaf_log() -> Vec<usize> {
    LEAF_LOG.with(|l| std::mem::take(&mut *l.borrow_mut()))
}

impl Selector<Vec<IndS>> for Leaf {
    type Error = LeafError;

    fn select<'pop, R: Rng + ?Sized>(
        &self,
        population: &'pop Vec<IndS>,
        rng: &mut R,
    ) -> Result<&'pop IndS, Self::Error> {
        LEAF_LOG.with(|l| l.borrow_mut().push(self.tag));
        let real = |e: &dyn std::fmt::Debug| LeafError::Real(format!("{e:?}"));
        match &self.kind {
            LeafKind::Best => Best.select(population, rng).map_err(|e| real(&e)),
            LeafKind::Worst => Worst.select(population, rng).map_err(|e| real(&e)),
            LeafKind::Random => Random.select(population, rng).map_err(|e| real(&e)),
            LeafKind::Tournament(k) => {
                let k = std::num::NonZeroUsize::new(*k).expect("tournament size > 0");
                Tournament::new(k).select(population, rng).map_err(|e| real(&e))
            }
            LeafKind::Lexicase(c) => Lexicase::new(*c).select(population, rng).map_err(|e| real(&e)),
            LeafKind::Marker(i) => {
                population.get(*i).ok_or(LeafError::MarkerOutOfRange)
            }
        }
    }
}

/// What the documentation allows a leaf to do on a population.
#[derive(Clone, Debug, Default)]
pub struct Allowed {
    pub may_ok: bool,
    pub errs: Vec<&'static str>,
    /// for a tournament that is too large: (tournament size, population size) the error must carry
    pub sizes: Option<(usize, usize)>,
}

pub fn leaf_allowed(kind: &LeafKind, pop: &[IndS]) -> Allowed {
    let n = pop.len();
    match kind {
        LeafKind::Best | LeafKind::Worst | LeafKind::Random => {
            if n == 0 {
                Allowed { may_ok: false, errs: vec!["EmptyPopulation"], sizes: None }
            } else {
                Allowed { may_ok: true, errs: vec![], sizes: None }
            }
        }
        LeafKind::Tournament(k) => {
            if *k > n {
                Allowed { may_ok: false, errs: vec!["TournamentSizeError"], sizes: Some((*k, n)) }
            } else {
                Allowed { may_ok: true, errs: vec![], sizes: None }
            }
        }
        LeafKind::Lexicase(c) => {
            if n == 0 {
                Allowed { may_ok: false, errs: vec!["EmptyPopulation"], sizes: None }
            } else {
                let available = pop.iter().map(|i| i.test_results.results.len()).min().unwrap_or(0);
                if *c <= available {
                    Allowed { may_ok: true, errs: vec![], sizes: None }
                } else {
                    // more cases configured than results available: a missing-case error
                    // may (but need not) occur
                    Allowed { may_ok: true, errs: vec!["MissingTestCase"], sizes: None }
                }
            }
        }
        LeafKind::Marker(i) => {
            if *i < n {
                Allowed { may_ok: true, errs: vec![], sizes: None }
            } else {
                Allowed { may_ok: false, errs: vec!["MarkerOutOfRange"], sizes: None }
            }
        }
    }
}

/// Random population of `n` individuals with `cases` results each; value pattern chosen
/// to create ties and duplicates.
pub fn gen_population(g: &mut vh_core::Xo, n: usize, cases: usize) -> Vec<IndS> {
    let style = g.below(4);
    (0..n)
        .map(|id| {
            let results: Vec<i64> = (0..cases)
                .map(|_| match style {
                    0 => 7,                 // all equal
                    1 => g.range(0, 1),     // duplicate laden
                    2 => g.range(-3, 3),
                    _ => g.range(-1000, 1000),
                })
                .collect();
            ind_s(id as u32, &results)
        })
        .collect()
}
