//! C08 — lexicase filters by randomly ordered cases; winners are never dominated.
//!
//! Oracle: the exact selection law obtained by enumerating *all* permutations of the
//! considered cases with the filtering rule of the statement (keep the candidates with the
//! best result on the case, stop when one is left) and a uniform split among the final
//! survivors. Per draw: the winner lies in the support of the law and is not
//! Pareto-dominated on the considered cases. Over draws: empirical frequencies within
//! Bernstein intervals; every individual with positive probability is eventually selected.

use ec_core::operator::selector::{lexicase::Lexicase, Selector};
use vh_core::{catch, fnv_str, json, shard::run_shards, stats::check, Args, Report, TraceRng, Xo};

use crate::common::{ind_e, ind_s};

fn permutations(n: usize) -> Vec<Vec<usize>> {
    fn go(cur: &mut Vec<usize>, used: &mut Vec<bool>, out: &mut Vec<Vec<usize>>) {
        if cur.len() == used.len() {
            out.push(cur.clone());
            return;
        }
        for i in 0..used.len() {
            if !used[i] {
                used[i] = true;
                cur.push(i);
                go(cur, used, out);
                cur.pop();
                used[i] = false;
            }
        }
    }
    let mut out = Vec::new();
    go(&mut Vec::new(), &mut vec![false; n], &mut out);
    out
}

/// goodness: larger is better (for errors the caller negates).
fn law(good: &[Vec<i64>], cases: usize) -> Vec<f64> {
    let n = good.len();
    let mut p = vec![0.0; n];
    let perms = permutations(cases);
    let w = 1.0 / perms.len() as f64;
    for perm in &perms {
        let mut cand: Vec<usize> = (0..n).collect();
        for &c in perm {
            if cand.len() <= 1 {
                break;
            }
            let best = cand.iter().map(|i| good[*i][c]).max().unwrap();
            cand.retain(|i| good[*i][c] == best);
        }
        for i in &cand {
            p[*i] += w / cand.len() as f64;
        }
    }
    p
}

/// The same law without enumerating permutations: condition on the first case drawn.
/// f(S, C) = uniform over S if |S| = 1 or C is empty, else the mean over c in C of
/// f(filter(S, c), C \ {c}); memoised on (survivor set, remaining cases). Independent of
/// `law` (used for matrices too large to enumerate, and cross-checked against it on small ones).
fn law_memo(good: &[Vec<i64>], cases: usize) -> Vec<f64> {
    use std::collections::HashMap;
    fn go(good: &[Vec<i64>], surv: u64, rem: u32, memo: &mut HashMap<(u64, u32), Vec<(usize, f64)>>) -> Vec<(usize, f64)> {
        let members: Vec<usize> = (0..good.len()).filter(|i| surv & (1 << i) != 0).collect();
        if members.len() == 1 || rem == 0 {
            let w = 1.0 / members.len() as f64;
            return members.into_iter().map(|i| (i, w)).collect();
        }
        if let Some(v) = memo.get(&(surv, rem)) {
            return v.clone();
        }
        let cs: Vec<usize> = (0..32).filter(|c| rem & (1 << c) != 0).collect();
        let mut acc: HashMap<usize, f64> = HashMap::new();
        for &c in &cs {
            let best = members.iter().map(|i| good[*i][c]).max().unwrap();
            let next = members.iter().filter(|i| good[**i][c] == best).fold(0u64, |m, i| m | (1 << i));
            for (i, w) in go(good, next, rem & !(1 << c), memo) {
                *acc.entry(i).or_insert(0.0) += w / cs.len() as f64;
            }
        }
        let mut v: Vec<(usize, f64)> = acc.into_iter().collect();
        v.sort_by_key(|x| x.0);
        memo.insert((surv, rem), v.clone());
        v
    }
    let n = good.len();
    let mut p = vec![0.0; n];
    let all = if n == 64 { u64::MAX } else { (1u64 << n) - 1 };
    let rem = if cases == 0 { 0 } else { (1u32 << cases) - 1 };
    for (i, w) in go(good, all, rem, &mut HashMap::new()) {
        p[i] = w;
    }
    p
}

fn dominated(good: &[Vec<i64>], cases: usize, i: usize) -> Option<usize> {
    (0..good.len()).find(|&j| {
        j != i
            && (0..cases).all(|c| good[j][c] >= good[i][c])
            && (0..cases).any(|c| good[j][c] > good[i][c])
    })
}

fn fixed_matrices() -> Vec<(&'static str, Vec<Vec<i64>>, usize)> {
    vec![
        ("rock-paper-scissors specialists", vec![vec![2, 1, 0], vec![0, 2, 1], vec![1, 0, 2]], 3),
        ("order matters: generalist vs specialists", vec![vec![3, 0, 0], vec![0, 3, 0], vec![2, 2, 2], vec![0, 0, 3]], 3),
        ("ties at every level", vec![vec![1, 1, 1], vec![1, 1, 0], vec![1, 0, 1], vec![1, 1, 1]], 3),
        ("duplicates", vec![vec![2, 0], vec![2, 0], vec![0, 2], vec![0, 2], vec![0, 2]], 2),
        ("a dominated individual", vec![vec![2, 2, 1], vec![1, 1, 0], vec![0, 3, 3]], 3),
        ("single individual", vec![vec![4, 4]], 2),
        ("two individuals, one case", vec![vec![1], vec![2]], 1),
        ("zero cases", vec![vec![], vec![], vec![]], 0),
        ("configured count smaller than available", vec![vec![0, 9, 9], vec![1, 0, 0], vec![1, 5, 0]], 1),
        ("configured two of four", vec![vec![1, 0, 9, 0], vec![0, 1, 0, 9], vec![1, 1, 0, 0]], 2),
        ("six cases", vec![vec![1, 0, 1, 0, 1, 0], vec![0, 1, 0, 1, 0, 1], vec![1, 1, 0, 0, 0, 0], vec![0, 0, 0, 0, 1, 1]], 6),
        ("all equal", vec![vec![5, 5], vec![5, 5], vec![5, 5], vec![5, 5]], 2),
    ]
}

/// Many cases: an evaluation suite of hundreds of thousands of cases is ordinary use. Duplicated
/// individuals stay tied through every case, one individual differs only on the last case: the
/// selection must return (a survivor), the dominated one never, the tied ones all.
fn many_cases(seed: u64, rep: &mut Report) {
    for (cases, copies) in [(1_000usize, 3usize), (50_000, 2), (300_000, 3)] {
        let base: Vec<i64> = (0..cases as i64).map(|c| c % 7).collect();
        let mut worse = base.clone();
        *worse.last_mut().unwrap() -= 1;
        let mut rows: Vec<Vec<i64>> = (0..copies).map(|_| base.clone()).collect();
        rows.push(worse);
        let pop: Vec<_> = rows.iter().enumerate().map(|(i, r)| ind_s(i as u32, r)).collect();
        let sel = Lexicase::new(cases);
        let mut seen = vec![0u32; rows.len()];
        let mut rng = TraceRng::derive(seed, "C08-many", cases as u64);
        vh_core::shard::set_context(format!("C08 many cases: {cases} cases, {copies} identical individuals and one that is worse on the last case"));
        for _ in 0..24 {
            rep.eval();
            rep.count("many-cases");
            match catch(|| sel.select(&pop, &mut rng).map(|w| w.genome as usize).map_err(|e| format!("{e:?}"))) {
                Ok(Ok(w)) if w < copies => seen[w] += 1,
                other => {
                    rep.violation("C08/many-cases", || json!({"cases": cases, "identical_individuals": copies, "observed": format!("{other:?}"), "expected": "one of the identical individuals (the last one is worse on one case)"}));
                    return;
                }
            }
        }
        rep.distinct(fnv_str(&format!("many{cases}")));
        // 24 draws among `copies` tied survivors: each is returned at least once (p(miss) <= 3 * (2/3)^24 < 2e-4 is too
        // high to judge; only the support is recorded)
        rep.table_push("many_cases", json!({"cases": cases, "draws": 24, "returned_per_identical_individual": &seen[..copies]}));
    }
}

fn run_matrix(name: &str, m: &[Vec<i64>], cases: usize, errors: bool, draws: u64, seed: u64, rep: &mut Report) {
    // goodness view
    let good: Vec<Vec<i64>> = m.iter().map(|r| r.iter().map(|v| if errors { -*v } else { *v }).collect()).collect();
    let p = if cases <= 6 { law(&good, cases) } else { law_memo(&good, cases) };
    if cases <= 6 {
        // model-of-model sanity: the two independent derivations of the law agree
        let q = law_memo(&good, cases);
        if p.iter().zip(&q).any(|(a, b)| (a - b).abs() > 1e-9) {
            rep.inconclusive(format!("harness: the two derivations of the lexicase law disagree on {m:?}"));
            return;
        }
    }
    let n = m.len();
    let cfg = format!("{name} / {} / cases={cases}", if errors { "errors (lower is better)" } else { "scores (higher is better)" });
    let mut wins = vec![0u64; n];
    let mut rng = TraceRng::derive(seed, "C08", fnv_str(&cfg));
    let sel = Lexicase::new(cases);
    let pop_s: Vec<_> = m.iter().enumerate().map(|(i, r)| ind_s(i as u32, r)).collect();
    let pop_e: Vec<_> = m.iter().enumerate().map(|(i, r)| ind_e(i as u32, r)).collect();
    for mut hr in TraceRng::hostile_variants(fnv_str(&cfg) % 1000) {
        for _ in 0..4 {
            rep.eval();
            let r = catch(|| {
                if errors {
                    sel.select(&pop_e, &mut hr).map(|w| w.genome as usize).map_err(|e| format!("{e:?}"))
                } else {
                    sel.select(&pop_s, &mut hr).map(|w| w.genome as usize).map_err(|e| format!("{e:?}"))
                }
            });
            match r {
                Ok(Ok(w)) if p[w] > 0.0 && (cases == 0 || dominated(&good, cases, w).is_none()) => {}
                other => {
                    rep.violation("C08/extreme-stream", || json!({"config": cfg, "matrix": m, "law": p, "observed": format!("{other:?}"), "meaning": "under an extreme random stream the winner lies outside the support of the law, is dominated, or selection failed"}));
                    return;
                }
            }
        }
    }
    for d in 0..draws {
        rep.eval();
        let r = catch(|| {
            if errors {
                sel.select(&pop_e, &mut rng).map(|w| w.genome as usize).map_err(|e| format!("{e:?}"))
            } else {
                sel.select(&pop_s, &mut rng).map(|w| w.genome as usize).map_err(|e| format!("{e:?}"))
            }
        });
        let w = match r {
            Ok(Ok(w)) => w,
            other => {
                rep.violation("C08/failed", || json!({"config": cfg, "matrix": m, "draw": d, "observed": format!("{other:?}")}));
                return;
            }
        };
        wins[w] += 1;
        if p[w] <= 0.0 {
            rep.violation("C08/winner-outside-support", || {
                json!({"config": cfg, "matrix": m, "winner": w, "law": p, "meaning": "this individual survives no ordering of the cases"})
            });
            return;
        }
        if cases > 0 {
            if let Some(j) = dominated(&good, cases, w) {
                rep.violation("C08/winner-dominated", || json!({"config": cfg, "matrix": m, "winner": w, "dominated_by": j}));
                return;
            }
        }
    }
    rep.distinct(fnv_str(&format!("{cfg}{m:?}")));
    let mut rows = Vec::new();
    for i in 0..n {
        let c = check(format!("{cfg}: individual {i}"), draws, wins[i], p[i]);
        if !c.ok {
            rep.violation("C08/selection-law", || json!({"config": cfg, "matrix": m, "law": p, "wins": wins, "check": c.to_json()}));
        }
        if p[i] > 1e-3 && wins[i] == 0 {
            rep.violation("C08/support-not-covered", || json!({"config": cfg, "matrix": m, "law": p, "never_selected": i}));
        }
        rows.push(c.to_json());
    }
    let order_matters = p.iter().filter(|x| **x > 0.0).count() > 1;
    rep.count(if order_matters { "matrices:several-possible-winners" } else { "matrices:single-possible-winner" });
    if rep.wants_sample() && order_matters {
        rep.sample(|| json!({"kind": "lexicase configuration", "config": cfg, "matrix": m, "law_by_enumerating_case_orders": p, "wins": wins, "draws": draws}));
    }
    rep.table_push("frequency_tables", json!({"config": cfg, "matrix": m, "draws": draws, "individuals": rows}));
}

pub fn run(args: &Args) -> i32 {
    let draws = args.tier.pick(1_000_000u64, 10_000_000u64);
    let n_random = args.tier.pick(300usize, 1_000usize);
    let mut configs: Vec<(String, Vec<Vec<i64>>, usize, bool)> = Vec::new();
    for (name, m, c) in fixed_matrices() {
        for errors in [false, true] {
            configs.push((name.to_string(), m.clone(), c, errors));
        }
    }
    let mut g = Xo::derive(args.seed, "C08-matrices", 0);
    for r in 0..n_random {
        let n = 1 + g.usize_below(6);
        let avail = g.usize_below(6);
        let hi = *g.pick(&[1i64, 2, 2, 4]);
        let m: Vec<Vec<i64>> = (0..n).map(|_| (0..avail).map(|_| g.range(0, hi)).collect()).collect();
        let c = if g.chance(1, 4) { g.usize_below(avail + 1) } else { avail };
        configs.push((format!("random #{r}"), m, c, g.chance(1, 2)));
    }
    // larger populations and more cases than individuals / more individuals than cases; the law
    // comes from the memoised recursion (permutations of up to 14 cases cannot be enumerated)
    let first_large = configs.len();
    for r in 0..n_random / 6 {
        let n = *g.pick(&[2usize, 3, 5, 8, 13, 21, 34, 55]);
        let avail = *g.pick(&[7usize, 8, 9, 10, 12, 14]);
        let hi = *g.pick(&[1i64, 1, 2, 3]);
        let m: Vec<Vec<i64>> = (0..n).map(|_| (0..avail).map(|_| g.range(0, hi)).collect()).collect();
        let c = if g.chance(1, 3) { 1 + g.usize_below(avail) } else { avail };
        configs.push((format!("large random #{r}"), m, c, g.chance(1, 2)));
    }
    let rep = run_shards(configs.len(), args.threads, 16 << 20, |i| {
        let mut rep = Report::new();
        let (name, m, c, errors) = &configs[i];
        let draws = if i >= first_large { draws / 4 } else { draws };
        run_matrix(name, m, *c, *errors, draws, args.seed, &mut rep);
        rep
    });
    let mut rep = rep;
    many_cases(args.seed, &mut rep);
    rep.table("statistical_monitor", json!({
        "draws_per_configuration": draws,
        "per_category_false_alarm_bound": vh_core::stats::DELTA,
        "resolution_at_p_half": vh_core::stats::resolution(draws, 0.5),
        "configurations": configs.len(),
    }));
    rep.finish(
        args,
        "exploration",
        "12 hand-built result matrices in which the order of cases matters (specialists, ties at every level, duplicates, a dominated individual, single individual, zero cases, fewer cases configured than available) random matrices (<= 6 individuals x <= 5 cases, values 0..4) and larger random matrices (2..55 individuals x 7..14 cases, law by memoised recursion), each in score and/or error polarity, with the stated number of seeded draws; distinct_nontrivial = distinct (matrix, polarity, case count) configurations",
        false,
        &[
            "the law is computed by enumerating every permutation of the considered cases (<= 720), and for more than 6 cases by an independent memoised recursion; both are compared with each other on every small matrix",
            "distributional claims are decided up to the stated resolution",
        ],
    )
}
