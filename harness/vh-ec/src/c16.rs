//! C16 — all randomness comes from the supplied generator; evaluation is deterministic.
//!
//! Oracle: double-run equality over a registry of every stochastic operation of the three
//! crates. Each entry builds its fixtures afresh (new hash maps, new allocations), runs from
//! a clone of one `TraceRng` state and renders its result canonically; two runs — one of
//! them on another thread — must give equal results *and* equal generator fingerprints.
//! Any hidden source (thread RNG, clock, address or hash order) differs between the runs
//! while the supplied generator does not. Interleaved histories A(s1), B(s2), A(s1) on one
//! operator value must give equal first and third answers. Push: equal programs / inputs /
//! limits give equal final states, with the inputs declared in every order.

use std::collections::BTreeMap;

use ec_core::{
    distributions::{
        collection::ConvertToCollectionGenerator,
        conversion::{IntoDistribution, ToDistribution},
    },
    individual::{ec::{EcIndividual, IndividualGenerator}, scorer::FnScorer},
    operator::{
        genome_extractor::GenomeExtractor,
        genome_scorer::GenomeScorer,
        mutator::{Mutate, Mutator},
        recombinator::{Recombinator, Recombine},
        selector::{best::Best, lexicase::Lexicase, random::Random, tournament::Tournament, worst::Worst, Select, Selector},
        Composable, Operator,
    },
    test_results::{Score, TestResults},
    uniform_distribution_of,
};
use ec_linear::{
    genome::{bitstring::{Bitstring, BoolGenerator}, vector::Vector},
    mutator::{umad::Umad, with_one_over_length::WithOneOverLength, with_rate::WithRate},
    recombinator::{two_point_xo::TwoPointXo, uniform_xo::UniformXo},
};
use ordered_float::OrderedFloat;
use push::{
    genome::plushy::{ConvertToGeneGenerator, Plushy, PushGene},
    instruction::{FloatInstruction, IntInstruction, PushInstruction},
    push_vm::{program::PushProgram, push_state::PushState, State},
};
use rand::distr::{Distribution, StandardUniform};
use vh_core::{catch, fnv_str, json, mix, shard::run_shards, trace_rng::Fingerprint, Args, Report, TraceRng, Xo};

use crate::{
    common::{gen_population, take_leaf_log, LeafKind},
    pushvm::{self, InVal},
    shapes::{build, Shape},
};

type Entry = (&'static str, fn(&mut TraceRng, u64) -> String);

type BitInd = EcIndividual<Vec<bool>, TestResults<Score<i64>>>;

/// Size derived from the fixture value: mostly small, regularly around word / block
/// boundaries (32, 64, 128, 256, 1024) and beyond, because generators and operators may switch
/// strategy with the size (word-wise unpacking, chunking, fast paths) and a hidden source of
/// randomness may sit in only one of the paths.
fn sz(f: u64, salt: u64) -> usize {
    let h = mix(f, salt);
    let r = (h >> 8) as usize;
    match h % 8 {
        0..=3 => r % 25,
        4 | 5 => [31, 32, 33, 63, 64, 65, 100, 127, 128, 129][r % 10],
        6 => 130 + r % 400,
        _ => [255, 256, 257, 1000, 1024, 1025, 2049][r % 7],
    }
}

fn bit_population(fixture: u64) -> Vec<BitInd> {
    let mut g = Xo::new(fixture);
    let len = sz(fixture, 21);
    (0..2 + sz(fixture, 20) % 80)
        .map(|_| {
            let bits: Vec<bool> = (0..len).map(|_| g.chance(1, 2)).collect();
            let scores: Vec<i64> = (0..3).map(|_| g.range(0, 3)).collect();
            EcIndividual::new(bits, scores.into_iter().collect())
        })
        .collect()
}

fn instr_pool() -> Vec<PushInstruction> {
    vec![
        IntInstruction::Add.into(),
        IntInstruction::Multiply.into(),
        PushInstruction::push_int(3),
        FloatInstruction::Add.into(),
        PushInstruction::push_bool(true),
        push::instruction::ExecInstruction::dup_block().into(),
        push::instruction::ExecInstruction::if_else().into(),
    ]
}

/// Every stochastic operation in the three crates, each as (name, run).
/// `fixture` seeds the *inputs* (populations, genomes), rebuilt on every run.
fn registry() -> Vec<Entry> {
    vec![
        ("selector Best", |r, f| { let p = gen_population(&mut Xo::new(f), sz(f, 1), 3); format!("{:?}", Best.select(&p, r).map(|i| i.genome)) }),
        ("selector Worst", |r, f| { let p = gen_population(&mut Xo::new(f), sz(f, 1), 3); format!("{:?}", Worst.select(&p, r).map(|i| i.genome)) }),
        ("selector Random", |r, f| { let p = gen_population(&mut Xo::new(f), sz(f, 1), 3); format!("{:?}", Random.select(&p, r).map(|i| i.genome)) }),
        ("selector Tournament(3)", |r, f| { let p = gen_population(&mut Xo::new(f), sz(f, 1), 3); format!("{:?}", Tournament::of_size::<3>().select(&p, r).map(|i| i.genome)) }),
        ("selector Lexicase(3)", |r, f| { let p = gen_population(&mut Xo::new(f), sz(f, 1), 3); format!("{:?}", Lexicase::new(3).select(&p, r).map(|i| i.genome).map_err(|e| e.to_string())) }),
        ("selector weighted chain", |r, f| {
            let p = gen_population(&mut Xo::new(f), sz(f, 1), 3);
            let s = build(Shape::Left(4), &[LeafKind::Best, LeafKind::Random, LeafKind::Tournament(2), LeafKind::Lexicase(3)], &[1, 2, 3, 4]).unwrap();
            let o = format!("{:?}", s.sel(&p, r));
            take_leaf_log();
            o
        }),
        ("selector weighted tree", |r, f| {
            let p = gen_population(&mut Xo::new(f), sz(f, 1), 3);
            let s = build(Shape::Balanced4, &[LeafKind::Worst, LeafKind::Random, LeafKind::Tournament(3), LeafKind::Random], &[4, 0, 3, 1]).unwrap();
            let o = format!("{:?}", s.sel(&p, r));
            take_leaf_log();
            o
        }),
        ("selector DynWeighted", |r, f| {
            let p = gen_population(&mut Xo::new(f), sz(f, 1), 3);
            let s = build(Shape::Dyn(3), &[LeafKind::Random, LeafKind::Tournament(2), LeafKind::Lexicase(2)], &[1, 1, 2]).unwrap();
            let o = format!("{:?}", s.sel(&p, r));
            take_leaf_log();
            o
        }),
        ("pipeline select.then(extract).then(mutate)", |r, f| {
            let p = bit_population(f);
            let op = Select::new(Tournament::binary()).then(GenomeExtractor).then(Mutate::new(WithRate::new(0.3)));
            format!("{:?}", op.apply(&p, r).map_err(|e| e.to_string()))
        }),
        ("pipeline select.apply_twice.then_map(extract).then(recombine).then(mutate)", |r, f| {
            let p = bit_population(f);
            let op = Select::new(Lexicase::new(3))
                .apply_twice()
                .then_map(GenomeExtractor)
                .then(Recombine::new(UniformXo))
                .then(Mutate::new(WithOneOverLength));
            format!("{:?}", op.apply(&p, r).map_err(|e| e.to_string()))
        }),
        ("pipeline and + map", |r, f| {
            let p = bit_population(f);
            let op = Select::new(Random).and(Select::new(Tournament::binary())).then_map(GenomeExtractor).then(Recombine::new(TwoPointXo));
            format!("{:?}", op.apply(&p, r).map_err(|e| e.to_string()))
        }),
        ("pipeline map over a Vec of genomes", |r, f| {
            // up to 2049 genomes: a mapped operator may be spread over worker threads past some
            // length, and then has to keep drawing from the generator it was handed
            let genomes: Vec<Vec<bool>> = (0..sz(f, 17)).map(|i| (0..6).map(|j| (f >> ((i + j) % 64)) & 1 == 1).collect()).collect();
            let op = ec_core::operator::identity::Identity.map(Mutate::new(WithRate::new(0.4)));
            format!("{:?}", op.apply(genomes, r).map_err(|e| e.to_string()))
        }),
        ("pipeline map over an array and a pair", |r, f| {
            let a: Vec<bool> = (0..sz(f, 18)).map(|i| (f >> (i % 64)) & 1 == 1).collect();
            let b: Vec<bool> = a.iter().map(|x| !x).collect();
            let op = ec_core::operator::identity::Identity.map(Mutate::new(WithRate::new(0.4)));
            format!("{:?} {:?}", op.apply([a.clone(), b.clone()], r).map_err(|e| e.to_string()), op.apply((a, b), r).map_err(|e| e.to_string()))
        }),
        ("GenomeScorer over a pipeline", |r, f| {
            let p = bit_population(f);
            let maker = Select::new(Best).then(GenomeExtractor).then(Mutate::new(WithRate::new(0.5)));
            let gs = GenomeScorer::new(maker, FnScorer(|g: &Vec<bool>| g.iter().filter(|b| **b).count()));
            format!("{:?}", gs.apply(&p, r).map(|i| (i.genome, i.test_results)).map_err(|e| e.to_string()))
        }),
        ("mutator WithRate Vec<bool>", |r, f| { let g: Vec<bool> = (0..sz(f, 3)).map(|i| (f >> (i % 64)) & 1 == 1).collect(); format!("{:?}", WithRate::new(0.4).mutate(g, r)) }),
        ("mutator WithRate Bitstring", |r, f| { let g: Vec<bool> = (0..sz(f, 3)).map(|i| (f >> (i % 64)) & 1 == 1).collect(); format!("{:?}", WithRate::new(0.4).mutate(Bitstring { bits: g }, r)) }),
        ("mutator WithOneOverLength Vec<bool>", |r, f| { let g: Vec<bool> = (0..sz(f, 3)).map(|i| (f >> (i % 64)) & 1 == 1).collect(); format!("{:?}", WithOneOverLength.mutate(g, r).map_err(|e| e.to_string())) }),
        ("mutator WithOneOverLength Bitstring", |r, f| { let g: Vec<bool> = (0..sz(f, 3)).map(|i| (f >> (i % 64)) & 1 == 1).collect(); format!("{:?}", WithOneOverLength.mutate(Bitstring { bits: g }, r).map_err(|e| e.to_string())) }),
        ("mutator Umad Vector", |r, f| {
            let g: Vector<u8> = (0..sz(f, 5)).map(|i| ((f >> (i % 60)) & 7) as u8).collect();
            format!("{:?}", Umad::new(0.3, 0.2, StandardUniform).mutate(g, r))
        }),
        ("mutator Umad Plushy with GeneGenerator", |r, f| {
            let gg = instr_pool().into_distribution().unwrap().into_gene_generator();
            let parent: Plushy = (&gg).into_collection_generator(sz(f, 6)).sample(&mut TraceRng::new(f));
            format!("{}", Umad::new(0.3, 0.2, &gg).mutate(parent, r).unwrap())
        }),
        ("mutator Umad empty genome", |r, _| { let g: Vector<u8> = Vec::new().into_iter().collect(); format!("{:?}", Umad::new_with_empty_rate(0.3, 0.5, 0.2, StandardUniform).mutate(g, r)) }),
        ("recombinator TwoPointXo [Vec;2]", |r, f| { let a: Vec<u8> = (0..sz(f, 4)).map(|i| ((f >> (i % 60)) & 3) as u8).collect(); let b: Vec<u8> = a.iter().map(|x| x + 10).collect(); format!("{:?}", TwoPointXo.recombine([a, b], r).map_err(|e| e.to_string())) }),
        ("recombinator TwoPointXo (Vec,Vec)", |r, f| { let a: Vec<u8> = (0..sz(f, 4)).map(|i| ((f >> (i % 60)) & 3) as u8).collect(); let b: Vec<u8> = a.iter().map(|x| x + 10).collect(); format!("{:?}", TwoPointXo.recombine((a, b), r).map_err(|e| e.to_string())) }),
        ("recombinator TwoPointXo [Bitstring;2]", |r, f| { let a = Bitstring { bits: (0..sz(f, 4)).map(|i| (f >> (i % 64)) & 1 == 1).collect() }; let b = Bitstring { bits: a.bits.iter().map(|x| !x).collect() }; format!("{:?}", TwoPointXo.recombine([a, b], r).map_err(|e| e.to_string())) }),
        ("recombinator TwoPointXo (Bitstring,Bitstring)", |r, f| { let a = Bitstring { bits: (0..sz(f, 4)).map(|i| (f >> (i % 64)) & 1 == 1).collect() }; let b = Bitstring { bits: a.bits.iter().map(|x| !x).collect() }; format!("{:?}", TwoPointXo.recombine((a, b), r).map_err(|e| e.to_string())) }),
        ("recombinator UniformXo [Vec;2]", |r, f| { let a: Vec<u8> = (0..sz(f, 4)).map(|i| ((f >> (i % 60)) & 3) as u8).collect(); let b: Vec<u8> = a.iter().map(|x| x + 10).collect(); format!("{:?}", UniformXo.recombine([a, b], r).map_err(|e| e.to_string())) }),
        ("recombinator UniformXo (Vec,Vec)", |r, f| { let a: Vec<u8> = (0..sz(f, 4)).map(|i| ((f >> (i % 60)) & 3) as u8).collect(); let b: Vec<u8> = a.iter().map(|x| x + 10).collect(); format!("{:?}", UniformXo.recombine((a, b), r).map_err(|e| e.to_string())) }),
        ("recombinator UniformXo [Bitstring;2]", |r, f| { let a = Bitstring { bits: (0..sz(f, 4)).map(|i| (f >> (i % 64)) & 1 == 1).collect() }; let b = Bitstring { bits: a.bits.iter().map(|x| !x).collect() }; format!("{:?}", UniformXo.recombine([a, b], r).map_err(|e| e.to_string())) }),
        ("recombinator UniformXo (Bitstring,Bitstring)", |r, f| { let a = Bitstring { bits: (0..sz(f, 4)).map(|i| (f >> (i % 64)) & 1 == 1).collect() }; let b = Bitstring { bits: a.bits.iter().map(|x| !x).collect() }; format!("{:?}", UniformXo.recombine((a, b), r).map_err(|e| e.to_string())) }),
        ("generator Bitstring::random", |r, f| format!("{}", Bitstring::random(sz(f, 7), r))),
        ("generator Bitstring::random_with_probability", |r, f| format!("{}", Bitstring::random_with_probability(sz(f, 8), 0.3, r))),
        ("generator BoolGenerator collection", |r, f| { let b: Bitstring = BoolGenerator::new(0.7).into_collection_generator(sz(f, 9)).sample(r); format!("{b}") }),
        ("generator collection Vec<u32>", |r, f| { let v: Vec<u32> = StandardUniform.into_collection_generator(sz(f, 10)).sample(r); format!("{v:?}") }),
        ("generator OneOfCloning", |r, f| { let d = (0..=sz(f, 11)).map(|i| (i % 251) as u8).collect::<Vec<u8>>().into_distribution().unwrap(); format!("{:?}", (0..8).map(|_| d.sample(r)).collect::<Vec<u8>>()) }),
        ("generator ChooseCloning", |r, f| { let v: Vec<u8> = (0..=sz(f, 12)).map(|i| (i % 251) as u8).collect(); let d = ToDistribution::<u8>::to_distribution(&v).unwrap(); format!("{:?}", (0..8).map(|_| d.sample(r)).collect::<Vec<u8>>()) }),
        ("generator Choose (borrowing)", |r, f| { let v: Vec<u8> = (0..=sz(f, 13)).map(|i| (i % 251) as u8).collect(); let d = ToDistribution::<&u8>::to_distribution(&v).unwrap(); format!("{:?}", (0..8).map(|_| *d.sample(r)).collect::<Vec<u8>>()) }),
        ("generator uniform_distribution_of!", |r, _| { let d = uniform_distribution_of![<i64> 1i32, 2i32, 3i32]; format!("{:?}", (0..8).map(|_| d.sample(r)).collect::<Vec<i64>>()) }),
        ("generator GeneGenerator", |r, f| { let _ = f; let gg = instr_pool().into_distribution().unwrap().into_gene_generator(); format!("{}", (0..12).map(|_| { let g: PushGene = gg.sample(r); g.to_string() }).collect::<Vec<_>>().join(" ")) }),
        ("generator Plushy collection", |r, f| { let gg = instr_pool().into_distribution().unwrap().into_gene_generator_with_close_probability(0.2); let p: Plushy = gg.into_collection_generator(sz(f, 14)).sample(r); format!("{p}") }),
        ("generator IndividualGenerator population", |r, f| {
            let ig = IndividualGenerator::new(StandardUniform.into_collection_generator(sz(f, 15)), FnScorer(|g: &Vec<bool>| g.iter().filter(|b| **b).count()));
            let pop: Vec<EcIndividual<Vec<bool>, usize>> = ig.into_collection_generator(sz(f, 16) % 40).sample(r);
            format!("{pop:?}")
        }),
    ]
}

fn run_entry(e: &Entry, rng_seed: u64, fixture: u64) -> Result<(String, Fingerprint), String> {
    let mut r = TraceRng::stream(rng_seed);
    catch(|| (e.1)(&mut r, fixture)).map(|s| (s, r.fingerprint())).map_err(|p| p.to_string())
}

fn registry_checks(seed: u64, seeds_per_entry: usize, only: usize, rep: &mut Report) {
    let reg = registry();
    for (ei, e) in reg.iter().enumerate().filter(|(i, _)| *i == only) {
        let mut consumed_any = false;
        // in batches, so that the rendered results of at most 512 calls are alive at a time
        let all_seeds: Vec<u64> = (0..seeds_per_entry).map(|k| mix(seed, mix(ei as u64, k as u64))).collect();
        for (batch_no, seeds) in all_seeds.chunks(512).enumerate() {
        let seeds: Vec<u64> = seeds.to_vec();
        let firsts: Vec<_> = seeds.iter().map(|s| run_entry(e, *s, mix(*s, 77))).collect();
        // the second runs happen on a different thread: thread-local state differs there
        let seconds: Vec<_> = std::thread::scope(|sc| {
            sc.spawn(|| seeds.iter().map(|s| run_entry(e, *s, mix(*s, 77))).collect::<Vec<_>>()).join()
        })
        .unwrap_or_default();
        // third runs: the same calls on the first thread again, but in reverse order, i.e. after a
        // different call history (other seeds, other input sizes): anything carried from call to
        // call (thread-local scratch buffers, caches, counters) now differs
        let mut thirds: Vec<_> = seeds.iter().rev().map(|s| run_entry(e, *s, mix(*s, 77))).collect();
        thirds.reverse();
        for (k, s) in seeds.iter().copied().enumerate() {
            if firsts[k] != thirds[k] {
                rep.violation(format!("C16/{}/state-carried-between-calls", e.0), || json!({"operation": e.0, "seed": s, "first_run": format!("{:?}", firsts[k]).chars().take(400).collect::<String>(), "same_call_after_another_history": format!("{:?}", thirds[k]).chars().take(400).collect::<String>()}));
            }
            let a = firsts[k].clone();
            let b = seconds.get(k).cloned().unwrap_or_else(|| Err("second run missing (thread panicked)".into()));
            rep.eval();
            rep.distinct(mix(fnv_str(e.0), s));
            match (&a, &b) {
                (Ok((ra, fa)), Ok((rb, fb))) => {
                    if ra != rb {
                        rep.violation(format!("C16/{}/result-differs", e.0), || json!({"operation": e.0, "seed": s, "run_1": ra.chars().take(600).collect::<String>(), "run_2_other_thread": rb.chars().take(600).collect::<String>(), "first_difference_at_char": ra.chars().zip(rb.chars()).position(|(x, y)| x != y)}));
                    } else if fa != fb {
                        rep.violation(format!("C16/{}/generator-state-differs", e.0), || json!({"operation": e.0, "seed": s, "fingerprint_1": format!("{fa:?}"), "fingerprint_2": format!("{fb:?}")}));
                    }
                    if fa.calls > 0 {
                        consumed_any = true;
                    }
                    if rep.wants_sample() && k == 0 && batch_no == 0 && ei % 7 == 0 {
                        rep.sample(|| json!({"kind": "double run", "operation": e.0, "seed": s, "result": ra.chars().take(200).collect::<String>(), "generator_calls": fa.calls}));
                    }
                }
                (x, y) => rep.violation(format!("C16/{}/failed", e.0), || json!({"operation": e.0, "seed": s, "run_1": format!("{x:?}"), "run_2": format!("{y:?}")})),
            }
        }
        }
        rep.count(&format!("registry:{}", if consumed_any { "draws-from-supplied-generator" } else { "deterministic-operation" }));
        if !consumed_any && !e.0.starts_with("selector Best") && !e.0.starts_with("selector Worst") {
            rep.violation(format!("C16/{}/supplied-generator-unused", e.0), || json!({"operation": e.0, "meaning": "a stochastic operation never drew from the generator it was handed"}));
        }
    }
    rep.table("registry", json!(reg.iter().map(|e| e.0).collect::<Vec<_>>()));
}

/// Interleaved histories on one operator value: A(s1), B(s2), A(s1).
fn interleaved(seed: u64, rounds: usize, rep: &mut Report) {
    let pop = bit_population(seed);
    let op_a = Select::new(Tournament::binary()).then(GenomeExtractor).then(Mutate::new(WithRate::new(0.3)));
    let umad = Umad::new(0.3, 0.3, StandardUniform);
    let gg = instr_pool().into_distribution().unwrap().into_gene_generator();
    let lex = Lexicase::new(3);
    for k in 0..rounds {
        let (s1, s2) = (mix(seed, k as u64), mix(seed, !(k as u64)));
        let run_a = |s: u64| {
            let mut r = TraceRng::new(s);
            let v = format!("{:?}", op_a.apply(&pop, &mut r).map_err(|e| e.to_string()));
            (v, r.fingerprint())
        };
        let run_u = |s: u64| {
            let mut r = TraceRng::new(s);
            let g: Vector<u8> = (0..10u8).collect();
            let v = format!("{:?}", umad.mutate(g, &mut r));
            (v, r.fingerprint())
        };
        let run_g = |s: u64| {
            let mut r = TraceRng::new(s);
            let v: Vec<String> = (0..6).map(|_| { let g: PushGene = gg.sample(&mut r); g.to_string() }).collect();
            (v.join(" "), r.fingerprint())
        };
        let run_l = |s: u64| {
            let mut r = TraceRng::new(s);
            let v = format!("{:?}", lex.select(&pop, &mut r).map(|i| i.genome.clone()).map_err(|e| e.to_string()));
            (v, r.fingerprint())
        };
        // the call in the middle is, in turn, an ordinary one, one on an empty population, and one
        // that fails part-way (individuals with fewer results than lexicase looks at; the last
        // individual only, so the failure comes after some work was done): neither the success nor
        // the failure of another call may leave anything behind in the operator value
        let mid_l = |s: u64| -> (String, vh_core::trace_rng::Fingerprint) {
            let mut r = TraceRng::new(s);
            let other: Vec<BitInd> = match k % 4 {
                0 => return run_l(s),
                1 => Vec::new(),
                2 => pop.iter().map(|i| EcIndividual::new(i.genome.clone(), i.test_results.results.iter().take(1).copied().collect())).collect(),
                _ => {
                    let mut p = pop.clone();
                    if let Some(last) = p.last_mut() {
                        *last = EcIndividual::new(last.genome.clone(), last.test_results.results.iter().take(2).copied().collect());
                    }
                    p
                }
            };
            let v = format!("{:?}", lex.select(&other, &mut r).map(|i| i.genome.clone()).map_err(|e| e.to_string()));
            (v, r.fingerprint())
        };
        let mid_a = |s: u64| -> (String, vh_core::trace_rng::Fingerprint) {
            if k % 2 == 0 {
                return run_a(s);
            }
            let mut r = TraceRng::new(s);
            let other: Vec<BitInd> = pop.iter().take(k % 2).cloned().collect();
            let v = format!("{:?}", op_a.apply(&other, &mut r).map_err(|e| e.to_string()));
            (v, r.fingerprint())
        };
        let mid_u = |s: u64| -> (String, vh_core::trace_rng::Fingerprint) {
            if k % 2 == 0 {
                return run_u(s);
            }
            let mut r = TraceRng::new(s);
            let v = format!("{:?}", umad.mutate(Vector::<u8>::from_iter(std::iter::empty()), &mut r));
            (v, r.fingerprint())
        };
        for (name, first, _mid, third) in [
            ("pipeline", run_a(s1), mid_a(s2), run_a(s1)),
            ("Umad", run_u(s1), mid_u(s2), run_u(s1)),
            ("GeneGenerator", run_g(s1), run_g(s2), run_g(s1)),
            ("Lexicase", run_l(s1), mid_l(s2), run_l(s1)),
        ] {
            rep.eval();
            rep.count("interleaved-histories");
            if first != third {
                rep.violation(format!("C16/{name}/state-carried-between-calls"), || json!({"operator": name, "seed_1": s1, "seed_2": s2, "first": format!("{first:?}"), "third": format!("{third:?}")}));
            }
        }
        // the same operator value shared by several threads answers as it does alone
        if k % 64 != 0 {
            continue;
        }
        let alone = run_a(s1);
        let shared: Vec<_> = std::thread::scope(|sc| {
            let hs: Vec<_> = (0..4).map(|_| sc.spawn(|| {
                let mut r = TraceRng::new(s1);
                let v = format!("{:?}", Select::new(Tournament::binary()).then(GenomeExtractor).then(Mutate::new(WithRate::new(0.3))).apply(&pop, &mut r).map_err(|e| e.to_string()));
                (v, r.fingerprint())
            })).collect();
            hs.into_iter().filter_map(|h| h.join().ok()).collect()
        });
        rep.eval();
        if shared.iter().any(|x| *x != alone) {
            rep.violation("C16/pipeline/differs-across-threads", || json!({"seed": s1}));
        }
    }
}

type SharedCall = Box<dyn Fn(&mut TraceRng, usize) -> String>;

/// Operator and distribution *values* that live across many calls. `call(rng, mode)`:
/// mode 0 is the reference input, modes 1.. are other inputs - empty, minimal, failing
/// part-way, large - handed to the same value in between.
fn shared_set(fixture: u64) -> Vec<(&'static str, SharedCall)> {
    use std::rc::Rc;
    let mut g = Xo::new(fixture);
    // populations of the common logging individuals (3 cases) ...
    let pops: Rc<Vec<crate::shapes::Pop>> = Rc::new(vec![
        gen_population(&mut g, 12, 3),
        Vec::new(),
        gen_population(&mut g, 1, 3),
        gen_population(&mut g, 9, 1), // fewer results than Lexicase(3) / the weighted members look at
        gen_population(&mut g, 70, 3),
    ]);
    // ... and of EcIndividuals over bit vectors; in [3] only the last one is short of results
    let bit = |g: &mut Xo, n: usize, cases: usize| -> Vec<BitInd> {
        (0..n).map(|_| EcIndividual::new((0..37).map(|_| g.chance(1, 2)).collect::<Vec<bool>>(), (0..cases).map(|_| g.range(0, 3)).collect())).collect()
    };
    let mut short_last = bit(&mut g, 12, 3);
    if let Some(last) = short_last.last_mut() {
        *last = EcIndividual::new(last.genome.clone(), last.test_results.results.iter().take(2).copied().collect());
    }
    let bits: Rc<Vec<Vec<BitInd>>> = Rc::new(vec![bit(&mut g, 12, 3), Vec::new(), bit(&mut g, 1, 3), short_last, bit(&mut g, 70, 3)]);
    let genomes: Rc<Vec<Vec<bool>>> = Rc::new([37usize, 0, 1, 64, 200].iter().map(|&n| (0..n).map(|_| g.chance(1, 2)).collect()).collect());
    let pairs: Rc<Vec<(Vec<bool>, Vec<bool>)>> = Rc::new(
        [(37usize, 37usize), (0, 0), (1, 1), (37, 12), (128, 128)].iter().map(|&(a, b)| ((0..a).map(|_| g.chance(1, 2)).collect(), (0..b).map(|_| g.chance(1, 2)).collect())).collect(),
    );
    let mut out: Vec<(&'static str, SharedCall)> = Vec::new();
    macro_rules! sel_bits {
        ($name:literal, $make:expr) => {{
            let v = $make;
            let b = bits.clone();
            out.push(($name, Box::new(move |r: &mut TraceRng, m: usize| format!("{:?}", v.select(&b[m % b.len()], r).map(|i| i.genome.clone()).map_err(|e| e.to_string())))));
        }};
    }
    sel_bits!("Best", Best);
    sel_bits!("Worst", Worst);
    sel_bits!("Random", Random);
    sel_bits!("Tournament::binary", Tournament::binary());
    sel_bits!("Tournament::of_size<5>", Tournament::of_size::<5>());
    sel_bits!("Lexicase(3)", Lexicase::new(3));
    sel_bits!("Lexicase(2)", Lexicase::new(2));
    for (name, shape, kinds, weights) in [
        ("weighted chain", Shape::Left(4), vec![LeafKind::Best, LeafKind::Random, LeafKind::Tournament(2), LeafKind::Lexicase(3)], vec![1u32, 2, 3, 4]),
        ("weighted tree", Shape::Balanced4, vec![LeafKind::Worst, LeafKind::Lexicase(3), LeafKind::Tournament(3), LeafKind::Random], vec![4, 2, 3, 1]),
        ("DynWeighted", Shape::Dyn(3), vec![LeafKind::Random, LeafKind::Tournament(2), LeafKind::Lexicase(3)], vec![1, 1, 2]),
    ] {
        if let Ok(v) = build(shape, &kinds, &weights) {
            let p = pops.clone();
            out.push((name, Box::new(move |r: &mut TraceRng, m: usize| {
                let o = format!("{:?}", v.sel(&p[m % p.len()], r));
                take_leaf_log();
                o
            })));
        }
    }
    {
        let v = Select::new(Lexicase::new(3)).then(GenomeExtractor).then(Mutate::new(WithOneOverLength));
        let b = bits.clone();
        out.push(("pipeline lexicase.extract.mutate", Box::new(move |r: &mut TraceRng, m: usize| format!("{:?}", v.apply(&b[m % b.len()], r).map_err(|e| e.to_string())))));
        let v = Select::new(Tournament::of_size::<3>()).apply_twice().then_map(GenomeExtractor).then(Recombine::new(UniformXo));
        let b = bits.clone();
        out.push(("pipeline tournament-twice.extract.crossover", Box::new(move |r: &mut TraceRng, m: usize| format!("{:?}", v.apply(&b[m % b.len()], r).map_err(|e| e.to_string())))));
    }
    macro_rules! mutate_bits {
        ($name:literal, $make:expr) => {{
            let v = $make;
            let gs = genomes.clone();
            out.push(($name, Box::new(move |r: &mut TraceRng, m: usize| format!("{:?}", v.mutate(Bitstring { bits: gs[m % gs.len()].clone() }, r).map(|c| c.bits).map_err(|e| e.to_string())))));
        }};
    }
    mutate_bits!("WithRate(0.3)", WithRate::new(0.3));
    mutate_bits!("WithOneOverLength", WithOneOverLength);
    {
        let v = Umad::new_with_empty_rate(0.3, 0.6, 0.2, StandardUniform);
        let gs = genomes.clone();
        out.push(("Umad", Box::new(move |r: &mut TraceRng, m: usize| format!("{:?}", v.mutate(gs[m % gs.len()].iter().copied().collect::<Vector<bool>>(), r)))));
    }
    macro_rules! cross_bits {
        ($name:literal, $make:expr) => {{
            let v = $make;
            let ps = pairs.clone();
            out.push(($name, Box::new(move |r: &mut TraceRng, m: usize| {
                let (a, b) = ps[m % ps.len()].clone();
                format!("{:?}", v.recombine([Bitstring { bits: a }, Bitstring { bits: b }], r).map(|c| c.bits).map_err(|e| e.to_string()))
            })));
        }};
    }
    cross_bits!("UniformXo", UniformXo);
    cross_bits!("TwoPointXo", TwoPointXo);
    {
        let d = vec![3u8, 1, 4, 1, 5, 9, 2, 6].into_distribution().unwrap();
        out.push(("OneOfCloning", Box::new(move |r: &mut TraceRng, m: usize| format!("{:?}", (0..[3usize, 0, 1, 64, 9][m % 5]).map(|_| d.sample(r)).collect::<Vec<u8>>()))));
        let gg = instr_pool().into_distribution().unwrap().into_gene_generator();
        out.push(("GeneGenerator", Box::new(move |r: &mut TraceRng, m: usize| (0..[6usize, 0, 1, 64, 9][m % 5]).map(|_| { let x: PushGene = gg.sample(r); x.to_string() }).collect::<Vec<_>>().join(" "))));
        let cg = BoolGenerator::new(0.7).into_collection_generator(70);
        out.push(("collection generator", Box::new(move |r: &mut TraceRng, m: usize| format!("{:?}", (0..[1usize, 0, 2, 5, 3][m % 5]).map(|_| { let v: Vec<bool> = cg.sample(r); v }).collect::<Vec<_>>()))));
    }
    out
}

/// Long-lived values: A(s, reference input) must answer the same (result and stream position)
/// before and after any number of other calls on the same value - successful, on empty or
/// minimal inputs, failing part-way - and the same as a value built afresh.
fn shared_values(seed: u64, rounds: usize, rep: &mut Report) {
    let fixture = mix(seed, 0x5e7);
    let long_lived = shared_set(fixture);
    let mut g = Xo::derive(seed, "C16-shared", 0);
    for k in 0..rounds {
        let fresh = if k % 16 == 0 { Some(shared_set(fixture)) } else { None };
        for (i, (name, call)) in long_lived.iter().enumerate() {
            let s1 = g.next();
            let run = |c: &SharedCall, s: u64, mode: usize| {
                let mut r = TraceRng::stream(s);
                let v = catch(|| c(&mut r, mode)).unwrap_or_else(|p| format!("panic: {p}"));
                (v, r.fingerprint())
            };
            let first = run(call, s1, 0);
            let between: Vec<usize> = (0..1 + g.usize_below(4)).map(|_| g.usize_below(5)).collect();
            for &m in &between {
                let _ = run(call, g.next(), m);
            }
            let third = run(call, s1, 0);
            rep.eval();
            rep.count("shared-value-histories");
            rep.distinct(mix(fnv_str(name), mix(s1, between.iter().fold(0u64, |a, &m| a * 5 + m as u64))));
            if first != third {
                rep.violation(format!("C16/{name}/state-carried-between-calls"), || json!({"operator": name, "seed": s1, "inputs_of_the_calls_in_between": between.iter().map(|m| ["reference", "empty", "minimal", "fails part-way / mismatched", "large"][*m]).collect::<Vec<_>>(), "before": format!("{first:?}"), "after": format!("{third:?}")}));
            }
            if let Some(f) = &fresh {
                let alone = run(&f[i].1, s1, 0);
                rep.eval();
                if alone != first {
                    rep.violation(format!("C16/{name}/state-carried-between-calls"), || json!({"operator": name, "seed": s1, "long_lived_value_answers": format!("{first:?}"), "a_value_built_afresh_answers": format!("{alone:?}"), "calls_the_long_lived_value_has_seen": k * 4}));
                }
            }
        }
    }
}

fn permutations(n: usize) -> Vec<Vec<usize>> {
    fn go(cur: &mut Vec<usize>, used: &mut Vec<bool>, out: &mut Vec<Vec<usize>>) {
        if cur.len() == used.len() {
            out.push(cur.clone());
            return;
        }
        for i in 0..used.len() {
            if !used[i] {
                used[i] = true;
                cur.push(i);
                go(cur, used, out);
                cur.pop();
                used[i] = false;
            }
        }
    }
    let mut out = Vec::new();
    go(&mut Vec::new(), &mut vec![false; n], &mut out);
    out
}

fn build_with_order(prog: &[PushProgram], inputs: &[(String, InVal)], order: &[usize], limit: usize) -> Option<PushState> {
    let mut b = PushState::builder()
        .with_max_stack_size(64)
        .with_program(prog.to_vec())
        .ok()?
        .with_instruction_step_limit(limit);
    for &i in order {
        let (name, v) = &inputs[i];
        b = match v {
            InVal::I(x) => b.with_int_input(name, *x),
            InVal::F(x) => b.with_float_input(name, OrderedFloat(*x)),
            InVal::B(x) => b.with_bool_input(name, *x),
        };
    }
    Some(b.build())
}

/// Push evaluation is a function of program, inputs and limits — not of declaration order
/// or of the hash map instance the inputs live in.
fn push_determinism(seed: u64, programs: usize, rep: &mut Report) {
    for n in 0..programs {
        let mut g = Xo::derive(seed, "C16-push", n as u64);
        let mut inputs_map: BTreeMap<String, InVal> = pushvm::gen_inputs(&mut g);
        if inputs_map.is_empty() {
            inputs_map.insert("x".into(), InVal::I(3));
        }
        let inputs: Vec<(String, InVal)> = inputs_map.iter().map(|(k, v)| (k.clone(), *v)).collect();
        let model_prog = pushvm::gen_program(&mut g, &inputs_map, 30, 4);
        // make sure the inputs are actually mentioned
        let mut prog: Vec<PushProgram> = inputs.iter().map(|(k, _)| pushvm::to_real(&pushvm::MP::I(pushvm::MI::Input(k.clone())))).collect();
        prog.extend(model_prog.iter().map(pushvm::to_real));
        let limit = 10 + g.usize_below(150);
        let orders = permutations(inputs.len());
        let mut reference: Option<String> = None;
        let mut reference_state: Option<Result<PushState, ()>> = None;
        rep.distinct(fnv_str(&format!("{}{inputs:?}", pushvm::render_prog(&model_prog))));
        for order in &orders {
            let Some(st) = build_with_order(&prog, &inputs, order, limit) else { break };
            rep.eval();
            rep.count("push:runs");
            let out = catch(|| st.run_to_completion());
            let (rendered, state) = match out {
                Err(p) => (format!("PANIC {p}"), Err(())),
                Ok(Ok(s)) => (format!("Ok {:?}", pushvm::observe(&s)), Ok(s)),
                Ok(Err(e)) => {
                    let text = format!("{e:?}");
                    (format!("Fatal {}", text.chars().rev().take(80).collect::<String>()), Err(()))
                }
            };
            match (&reference, &reference_state) {
                (None, _) => {
                    reference = Some(rendered);
                    reference_state = Some(state);
                }
                (Some(r), Some(rs)) => {
                    let states_equal = match (rs, &state) {
                        (Ok(a), Ok(b)) => a == b,
                        (Err(()), Err(())) => true,
                        _ => false,
                    };
                    if *r != rendered || !states_equal {
                        rep.violation("C16/push/depends-on-input-declaration-order", || {
                            json!({"program": pushvm::render_prog(&model_prog), "inputs": format!("{inputs:?}"), "declaration_order": order, "first_order_result": r, "this_order_result": rendered})
                        });
                        break;
                    }
                }
                _ => {}
            }
        }
        if rep.wants_sample() && inputs.len() >= 3 {
            rep.sample(|| json!({"kind": "push program run under every input declaration order", "program": pushvm::render_prog(&model_prog), "inputs": format!("{inputs:?}"), "orders": orders.len(), "result": reference.clone().unwrap_or_default().chars().take(300).collect::<String>()}));
        }
    }
}

pub fn run(args: &Args) -> i32 {
    let seeds = args.tier.pick(20_000usize, 400_000usize);
    let rounds = args.tier.pick(200_000usize, 4_000_000usize);
    let programs = args.tier.pick(20_000usize, 400_000usize);
    let n_reg = registry().len();
    let rep = run_shards(n_reg + 16, args.threads, 256 << 20, |s| {
        let mut rep = Report::new();
        if s < n_reg {
            registry_checks(args.seed, seeds, s, &mut rep);
        } else if s < n_reg + 8 {
            interleaved(mix(args.seed, s as u64), rounds / 8, &mut rep);
            shared_values(mix(args.seed, s as u64), rounds / 400, &mut rep);
        } else {
            push_determinism(mix(args.seed, s as u64), programs / 8, &mut rep);
        }
        rep
    });
    rep.finish(
        args,
        "exploration",
        "a registry of 41 stochastic operations (all selectors and weighted combinations, composed pipelines, GenomeScorer, bit-flip and UMAD mutators, both crossovers on all genome flavours, Bitstring / Bool / collection generators, OneOfCloning / ChooseCloning / Choose / uniform_distribution_of!, GeneGenerator, Plushy and individual generators) x the stated number of seeds with input / output sizes 0..2049 derived from the seed (word and block boundaries included), each run three times (second run on another thread, third run after a reversed call history, fixtures rebuilt); interleaved call histories on shared operator values; random Push programs with up to 5 named inputs run under every declaration order. distinct_nontrivial = distinct (operation, seed) pairs + distinct programs",
        false,
        &[
            "a hidden source of randomness would have to coincide between two runs on two threads to go unnoticed",
            "Generation::serial_next / par_next deliberately use the thread generator and are C09's subject, not part of this registry",
        ],
    )
}
