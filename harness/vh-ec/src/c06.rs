//! C06 — selectors return a member of the given population or a documented error.
//!
//! Oracle: identity invariant (`ptr::eq` against the population's own elements; the
//! populations hold equal-valued duplicates at distinct addresses and an equal decoy
//! population exists elsewhere) + a table of the documented error per configuration;
//! a panic is a violation.

use ec_core::operator::{
    selector::{
        best::Best, lexicase::Lexicase, random::Random, tournament::Tournament, worst::Worst,
        DynSelector, Select, Selector,
    },
    Operator,
};
use vh_core::{catch, fnv_str, json, mix, shard::run_shards, Args, Report, TraceRng, Xo};

use crate::{
    common::{
        err_tokens, gen_population, ind_e, leaf_allowed, observe_select, take_leaf_log, Allowed,
        IndE, IndS, Leaf, LeafKind, SelOut,
    },
    shapes::{build, Pop, Shape},
};

fn judge(out: &SelOut, allowed: &Allowed) -> Result<(), String> {
    match out {
        SelOut::Panic(p) => Err(format!("panic: {p}")),
        SelOut::Foreign => Err("returned a reference that is not an element of the population".into()),
        SelOut::Member(_) => {
            if allowed.may_ok {
                Ok(())
            } else {
                Err(format!("selection must fail with {:?} but returned a member", allowed.errs))
            }
        }
        SelOut::Err(text) => {
            let toks = err_tokens(text);
            if allowed.errs.is_empty() {
                Err(format!("no error is documented for this configuration, got {text}"))
            } else if toks.iter().any(|t| allowed.errs.contains(t)) {
                // the tournament-size error names the tournament size and the population size
                if let Some((k, n)) = allowed.sizes {
                    let numbers: Vec<usize> = text.split(|c: char| !c.is_ascii_digit()).filter_map(|t| t.parse().ok()).collect();
                    if !(numbers.contains(&k) && numbers.contains(&n)) {
                        return Err(format!("the error must carry tournament size {k} and population size {n}, got {text}"));
                    }
                }
                Ok(())
            } else {
                Err(format!("documented error {:?}, got {text}", allowed.errs))
            }
        }
    }
}

fn aspect(out: &SelOut) -> &'static str {
    match out {
        SelOut::Panic(_) => "panic",
        SelOut::Foreign => "not-a-member",
        SelOut::Member(_) => "should-have-failed",
        SelOut::Err(_) => "wrong-error",
    }
}

fn pop_json(pop: &[IndS]) -> vh_core::Value {
    json!(pop.iter().map(|i| json!({"id": i.genome, "results": i.test_results.results.iter().map(|s| s.0).collect::<Vec<_>>()})).collect::<Vec<_>>())
}

fn leaf_name(k: &LeafKind) -> &'static str {
    match k {
        LeafKind::Best => "Best",
        LeafKind::Worst => "Worst",
        LeafKind::Random => "Random",
        LeafKind::Tournament(_) => "Tournament",
        LeafKind::Lexicase(_) => "Lexicase",
        LeafKind::Marker(_) => "Marker",
    }
}

/// One leaf configuration through every access path the library offers.
fn direct_leaf(kind: &LeafKind, pop: &Pop, decoy: &Pop, seed: u64, rep: &mut Report) {
    let allowed = leaf_allowed(kind, pop);
    let name = leaf_name(kind);
    let mut paths: Vec<(&'static str, SelOut)> = Vec::new();
    let rng = || TraceRng::stream(seed);
    macro_rules! all_paths {
        ($sel:expr) => {{
            let s = $sel;
            paths.push(("direct", observe_select(&s, pop, &mut rng())));
            paths.push(("by-reference", observe_select(&&s, pop, &mut rng())));
            // Select operator wrapper
            let op = Select::new(&s);
            let r = catch(|| op.apply(pop, &mut rng()));
            paths.push(("Select-operator", match r {
                Err(p) => SelOut::Panic(p.to_string()),
                Ok(Err(e)) => SelOut::Err(format!("{e:?}")),
                Ok(Ok(r)) => pop.iter().position(|x| std::ptr::eq(x, r)).map_or(SelOut::Foreign, SelOut::Member),
            }));
            // type-erased forms
            let d: &dyn DynSelector<Pop> = &s;
            paths.push(("&dyn", observe_select(&d, pop, &mut rng())));
            let b: Box<dyn DynSelector<Pop>> = Box::new(s);
            paths.push(("Box<dyn>", observe_select(&b, pop, &mut rng())));
        }};
    }
    match kind {
        LeafKind::Best => all_paths!(Best),
        LeafKind::Worst => all_paths!(Worst),
        LeafKind::Random => all_paths!(Random),
        LeafKind::Tournament(k) => all_paths!(Tournament::new(std::num::NonZeroUsize::new(*k).unwrap())),
        LeafKind::Lexicase(c) => all_paths!(Lexicase::new(*c)),
        LeafKind::Marker(_) => {}
    }
    let _ = decoy;
    for (path, out) in paths {
        rep.eval();
        rep.count(&format!("{name}:{}", out.kind()));
        rep.distinct(mix(fnv_str(name), mix(fnv_str(path), mix(pop.len() as u64, fnv_str(&format!("{kind:?}{}", out.kind()))))));
        if let Err(why) = judge(&out, &allowed) {
            rep.violation(format!("C06/{name}/{}", aspect(&out)), || {
                json!({"selector": format!("{kind:?}"), "access_path": path, "population": pop_json(pop), "seed": seed, "observed": format!("{out:?}"), "why": why})
            });
        } else if rep.wants_sample() && matches!(out, SelOut::Err(_)) && pop.len() > 1 {
            rep.sample(|| json!({"kind": "documented error", "selector": format!("{kind:?}"), "access_path": path, "population_size": pop.len(), "observed": format!("{out:?}")}));
        }
    }
}

/// Lexicase with the error polarity (lower is better) — same contract.
fn lexicase_errors(g: &mut Xo, seed: u64, rep: &mut Report) {
    let n = g.usize_below(7);
    let cases = g.usize_below(4);
    let pop: Vec<IndE> = (0..n)
        .map(|id| {
            let len = if g.chance(1, 5) { cases.saturating_sub(1) } else { cases };
            ind_e(id as u32, &(0..len).map(|_| g.range(0, 2)).collect::<Vec<_>>())
        })
        .collect();
    let c = g.usize_below(cases + 3);
    let available = pop.iter().map(|i| i.test_results.results.len()).min().unwrap_or(0);
    let out = observe_select(&Lexicase::new(c), &pop, &mut TraceRng::stream(seed));
    rep.eval();
    rep.count(&format!("Lexicase(errors):{}", out.kind()));
    let allowed = if n == 0 {
        Allowed { may_ok: false, errs: vec!["EmptyPopulation"], sizes: None }
    } else if c <= available {
        Allowed { may_ok: true, errs: vec![], sizes: None }
    } else {
        Allowed { may_ok: true, errs: vec!["MissingTestCase"], sizes: None }
    };
    if let Err(why) = judge(&out, &allowed) {
        rep.violation(format!("C06/Lexicase(errors)/{}", aspect(&out)), || {
            json!({"cases_configured": c, "population": pop.iter().map(|i| i.test_results.results.iter().map(|e| e.0).collect::<Vec<_>>()).collect::<Vec<_>>(), "observed": format!("{out:?}"), "why": why})
        });
    }
}

fn gen_leaf(g: &mut Xo, n: usize, cases: usize) -> LeafKind {
    match g.below(6) {
        0 => LeafKind::Best,
        1 => LeafKind::Worst,
        2 => LeafKind::Random,
        3 => LeafKind::Tournament(1 + g.usize_below(n + 2)),
        4 => LeafKind::Lexicase(g.usize_below(cases + 3)),
        _ => LeafKind::Marker(g.usize_below(n + 1)),
    }
}

fn combination(g: &mut Xo, pop: &Pop, cases: usize, seed: u64, rep: &mut Report) {
    let shape = *g.pick(&Shape::all());
    let k = shape.arity();
    let kinds: Vec<LeafKind> = (0..k).map(|_| gen_leaf(g, pop.len(), cases)).collect();
    let weights: Vec<u32> = (0..k)
        .map(|_| match g.below(5) {
            0 | 1 => 0,
            2 => 1,
            _ => 1 + g.below(9) as u32,
        })
        .collect();
    let sel = match build(shape, &kinds, &weights) {
        Ok(s) => s,
        Err(e) => {
            rep.violation(format!("C06/Weighted:{shape:?}/construction"), || json!({"weights": weights, "error": e}));
            return;
        }
    };
    let total: u64 = weights.iter().map(|w| u64::from(*w)).sum();
    let name = format!("Weighted:{shape:?}");
    for draw in 0..4u64 {
        take_leaf_log();
        let out = sel.sel(pop, &mut TraceRng::stream(mix(seed, draw)));
        let log = take_leaf_log();
        rep.eval();
        rep.count(&format!("{name}:{}", out.kind()));
        rep.distinct(mix(fnv_str(&name), fnv_str(&format!("{kinds:?}{weights:?}{}", pop.len()))));
        let verdict: Result<(), (String, &'static str)> = (|| {
            match &out {
                SelOut::Panic(p) => return Err((format!("panic: {p}"), "panic")),
                SelOut::Foreign => return Err(("not an element of the population".into(), "not-a-member")),
                _ => {}
            }
            if total == 0 {
                if !log.is_empty() {
                    return Err((format!("all weights are zero but members {log:?} were used"), "zero-weight-member-used"));
                }
                return match &out {
                    SelOut::Err(t) if err_tokens(t).iter().any(|x| *x == "ZeroWeight" || *x == "InsufficientNonZero") => Ok(()),
                    other => Err((format!("all weights are zero: a zero-weight error is documented, got {other:?}"), "wrong-error")),
                };
            }
            if log.is_empty() {
                if let SelOut::Err(t) = &out {
                    return Err((format!("the combination has positive total weight but refused to select: {t}"), "undocumented-error"));
                }
            }
            if log.len() != 1 {
                return Err((format!("exactly one member must be used per selection, log = {log:?}"), "delegation-count"));
            }
            let used = log[0];
            if weights[used] == 0 {
                return Err((format!("member {used} has weight 0 but was used"), "zero-weight-member-used"));
            }
            judge(&out, &leaf_allowed(&kinds[used], pop)).map_err(|w| (w, aspect(&out)))
        })();
        if let Err((why, asp)) = verdict {
            rep.violation(format!("C06/{name}/{asp}"), || {
                json!({"shape": format!("{shape:?}"), "members": kinds.iter().map(|k| format!("{k:?}")).collect::<Vec<_>>(), "weights": weights,
                       "population": pop_json(pop), "observed": format!("{out:?}"), "members_used": log, "why": why})
            });
            return;
        }
    }
}

/// The same contract on the other collection types the library accepts as populations:
/// `VecDeque`, `LinkedList`, `BTreeSet` (iterable ones: Best, Worst, Lexicase) and arrays, boxed
/// slices (slice-like ones: additionally Random, Tournament). Identity is decided against the
/// collection's own iteration.
fn other_collections(g: &mut Xo, rep: &mut Report) {
    use std::collections::{BTreeSet, LinkedList, VecDeque};
    fn observe<'p, P, S>(name: &str, coll: &str, sel: &S, pop: &'p P, members: &[*const IndS], n: usize, expect_err: Option<&str>, seed: u64, rep: &mut Report)
    where
        P: ec_core::population::Population<Individual = IndS>,
        S: Selector<P>,
        S::Error: std::fmt::Debug,
    {
        let r = catch(|| sel.select(pop, &mut TraceRng::stream(seed)).map(std::ptr::from_ref).map_err(|e| format!("{e:?}")));
        rep.eval();
        rep.count(&format!("{coll}:{name}"));
        rep.distinct(mix(fnv_str(coll), mix(fnv_str(name), n as u64)));
        let verdict = match (&r, expect_err) {
            (Err(p), _) => Err(format!("panic: {p}")),
            (Ok(Ok(ptr)), None) => if members.contains(ptr) { Ok(()) } else { Err("returned a reference that is not an element of the population".to_string()) },
            (Ok(Ok(_)), Some(e)) => Err(format!("must fail with {e} but returned a member")),
            (Ok(Err(t)), Some(e)) => if t.contains(e) { Ok(()) } else { Err(format!("documented error {e}, got {t}")) },
            (Ok(Err(t)), None) => Err(format!("no error is documented for this configuration, got {t}")),
        };
        if let Err(why) = verdict {
            rep.violation(format!("C06/{name}/on-{coll}"), || json!({"selector": name, "collection": coll, "population_size": n, "why": why}));
        }
    }
    let n = g.usize_below(7);
    let cases = 1 + g.usize_below(3);
    let base = gen_population(g, n, cases);
    let seed = g.next();
    let empty = if n == 0 { Some("EmptyPopulation") } else { None };
    let k = 1 + g.usize_below(n + 2);
    let tk = if k > n { Some("TournamentSizeError") } else { None };
    let tour = Tournament::new(std::num::NonZeroUsize::new(k).unwrap());
    // the population view of a collection: size and emptiness are those of the collection
    {
        use ec_core::population::Population;
        let dq: VecDeque<IndS> = base.iter().cloned().collect();
        let bx: Box<[IndS]> = base.clone().into_boxed_slice();
        rep.eval();
        if Population::size(&base) != n || Population::is_empty(&base) != (n == 0) || Population::size(&dq) != n || Population::is_empty(&dq) != (n == 0) || Population::size(&bx) != n || Population::is_empty(&bx) != (n == 0) {
            rep.violation("C06/population-size-or-emptiness", || json!({"collection_len": n, "Vec": [Population::size(&base) as u64, u64::from(Population::is_empty(&base))], "VecDeque": [Population::size(&dq) as u64, u64::from(Population::is_empty(&dq))]}));
        }
    }
    // iterable collections
    let dq: VecDeque<IndS> = base.iter().cloned().collect();
    let m: Vec<*const IndS> = dq.iter().map(std::ptr::from_ref).collect();
    observe("Best", "VecDeque", &Best, &dq, &m, n, empty, seed, rep);
    observe("Worst", "VecDeque", &Worst, &dq, &m, n, empty, seed, rep);
    observe("Lexicase", "VecDeque", &Lexicase::new(cases), &dq, &m, n, empty, seed, rep);
    let ll: LinkedList<IndS> = base.iter().cloned().collect();
    let m: Vec<*const IndS> = ll.iter().map(std::ptr::from_ref).collect();
    observe("Best", "LinkedList", &Best, &ll, &m, n, empty, seed, rep);
    observe("Worst", "LinkedList", &Worst, &ll, &m, n, empty, seed, rep);
    observe("Lexicase", "LinkedList", &Lexicase::new(cases), &ll, &m, n, empty, seed, rep);
    let bs: BTreeSet<IndS> = base.iter().cloned().collect();
    let m: Vec<*const IndS> = bs.iter().map(std::ptr::from_ref).collect();
    let bs_empty = if bs.is_empty() { Some("EmptyPopulation") } else { None };
    observe("Best", "BTreeSet", &Best, &bs, &m, bs.len(), bs_empty, seed, rep);
    observe("Worst", "BTreeSet", &Worst, &bs, &m, bs.len(), bs_empty, seed, rep);
    observe("Lexicase", "BTreeSet", &Lexicase::new(cases), &bs, &m, bs.len(), bs_empty, seed, rep);
    // slice-like collections
    let bx: Box<[IndS]> = base.clone().into_boxed_slice();
    let m: Vec<*const IndS> = bx.iter().map(std::ptr::from_ref).collect();
    observe("Best", "Box<[T]>", &Best, &bx, &m, n, empty, seed, rep);
    observe("Random", "Box<[T]>", &Random, &bx, &m, n, empty, seed, rep);
    observe("Tournament", "Box<[T]>", &tour, &bx, &m, n, tk, seed, rep);
    observe("Lexicase", "Box<[T]>", &Lexicase::new(cases), &bx, &m, n, empty, seed, rep);
    macro_rules! array {
        ($len:expr) => {
            if n == $len {
                let arr: [IndS; $len] = std::array::from_fn(|i| base[i].clone());
                let m: Vec<*const IndS> = arr.iter().map(std::ptr::from_ref).collect();
                observe("Best", "[T; N]", &Best, &arr, &m, n, empty, seed, rep);
                observe("Worst", "[T; N]", &Worst, &arr, &m, n, empty, seed, rep);
                observe("Random", "[T; N]", &Random, &arr, &m, n, empty, seed, rep);
                observe("Tournament", "[T; N]", &tour, &arr, &m, n, tk, seed, rep);
                observe("Lexicase", "[T; N]", &Lexicase::new(cases), &arr, &m, n, empty, seed, rep);
            }
        };
    }
    array!(0);
    array!(1);
    array!(2);
    array!(3);
    array!(4);
    array!(5);
    array!(6);
}

/// The dynamic list takes `usize` weights: totals beyond `usize::MAX` must surface as an error
/// (or a member), never as a panic - also when such a list is nested in another one.
fn dyn_weight_extremes(g: &mut Xo, rep: &mut Report) {
    use ec_core::operator::selector::dyn_weighted::DynWeighted;
    let n = g.usize_below(5);
    let pop = gen_population(g, n, 2);
    let weight_sets: [&[usize]; 6] = [&[usize::MAX, 1], &[usize::MAX, usize::MAX], &[usize::MAX / 2 + 1, usize::MAX / 2 + 1], &[usize::MAX, 0], &[1, usize::MAX - 1, 1], &[0, usize::MAX, 0, 7]];
    for ws in weight_sets {
        for nested in [false, true] {
            let mut d: DynWeighted<Pop> = DynWeighted::new(Random, ws[0]);
            for w in &ws[1..] {
                d = d.with_selector(Best, *w);
            }
            if nested {
                d = DynWeighted::new(d, 3).with_selector(Worst, 1);
            }
            let out = observe_select(&d, &pop, &mut TraceRng::stream(g.next()));
            rep.eval();
            rep.count(&format!("DynWeighted-usize-extremes:{}", out.kind()));
            let bad = match &out {
                SelOut::Panic(p) => Some(format!("panic: {p}")),
                SelOut::Foreign => Some("not an element of the population".to_string()),
                SelOut::Member(_) | SelOut::Err(_) => None,
            };
            if let Some(why) = bad {
                rep.violation(format!("C06/DynWeighted/usize-weights-{}", aspect(&out)), || json!({"weights": ws.iter().map(|w| w.to_string()).collect::<Vec<_>>(), "nested": nested, "population_size": n, "why": why}));
            }
        }
    }
}

/// A dynamic weighted list that is *used while it is being built*: selections - also failing
/// ones, on an all-zero list or on an empty population - happen between extensions, and every
/// selection is judged against the members and weights the list has at that moment.
fn dyn_staged(g: &mut Xo, rep: &mut Report) {
    use ec_core::operator::selector::dyn_weighted::DynWeighted;
    let n = 1 + g.usize_below(6);
    let pop = gen_population(g, n, 2);
    let empty: Pop = Vec::new();
    let pick_w = |g: &mut Xo| *g.pick(&[0usize, 0, 0, 1, 3]);
    let mut weights = vec![pick_w(g)];
    let mut d: DynWeighted<Pop> = DynWeighted::new(Best, weights[0]);
    let stages = 1 + g.usize_below(4);
    for stage in 0..=stages {
        for _ in 0..g.usize_below(3) {
            let on_empty = g.chance(1, 4);
            let out = observe_select(&d, if on_empty { &empty } else { &pop }, &mut TraceRng::stream(g.next()));
            rep.eval();
            rep.count(&format!("DynWeighted-staged:{}", out.kind()));
            rep.distinct(mix(fnv_str("dyn-staged"), fnv_str(&format!("{weights:?}{on_empty}{n}"))));
            let total: usize = weights.iter().sum();
            let verdict = match &out {
                SelOut::Panic(p) => Err(format!("panic: {p}")),
                SelOut::Foreign => Err("not an element of the population".to_string()),
                SelOut::Err(t) if total == 0 => {
                    if err_tokens(t).iter().any(|x| *x == "ZeroWeight" || *x == "InsufficientNonZero") { Ok(()) } else { Err(format!("all weights are zero at this stage: a zero-weight error is documented, got {t}")) }
                }
                SelOut::Member(_) if total == 0 => Err("all weights are zero at this stage but the list selected".to_string()),
                SelOut::Err(t) if on_empty => {
                    if err_tokens(t).iter().any(|x| *x == "EmptyPopulation") { Ok(()) } else { Err(format!("empty population: the members report EmptyPopulation, got {t}")) }
                }
                SelOut::Member(_) if on_empty => Err("selected from an empty population".to_string()),
                SelOut::Err(t) => Err(format!("positive total weight, non-empty population, members that cannot fail - but the list refused to select: {t}")),
                SelOut::Member(_) => Ok(()),
            };
            if let Err(why) = verdict {
                rep.violation(format!("C06/DynWeighted(staged)/{}", aspect(&out)), || json!({"weights_at_this_stage": weights, "stage": stage, "population_size": if on_empty { 0 } else { n }, "why": why}));
            }
        }
        if stage < stages {
            let w = pick_w(g);
            weights.push(w);
            d = match g.below(3) {
                0 => d.with_selector(Best, w),
                1 => d.with_selector(Worst, w),
                _ => d.with_selector(Random, w),
            };
        }
    }
}

/// Populations of plain values (`Vec<i64>`, `Vec<u8>`, `Vec<(i32, i32)>`) in which many members
/// compare equal - all equal, two values, one distinct - with every tournament size up to the
/// population size (and one beyond), best / worst / random: a member of that population (by
/// address) or the documented error, and a result at all (a selector that waits for k *distinct
/// values* never returns; the hang watchdog reports that).
fn tied_plain_values(g: &mut Xo, rep: &mut Report) {
    let n = 1 + g.usize_below(9);
    let pattern = g.below(5);
    let vals: Vec<i64> = (0..n).map(|i| match pattern { 0 => 7, 1 => (i % 2) as i64, 2 => i64::from(i == n - 1), 3 => (i / 3) as i64, _ => i64::MIN }).collect();
    let as_u8: Vec<u8> = vals.iter().map(|v| (*v & 1) as u8).collect();
    let as_pairs: Vec<(i32, i32)> = vals.iter().map(|v| ((*v & 3) as i32, 0)).collect();
    fn one<T: Ord + std::fmt::Debug, S: Selector<Vec<T>>>(what: &str, sel: &S, pop: &Vec<T>, must_fail: bool, seed: u64, rep: &mut Report)
    where
        S::Error: std::fmt::Debug,
    {
        vh_core::shard::set_context(format!("C06 tied plain values: {what} on {pop:?}"));
        let r = catch(|| sel.select(pop, &mut TraceRng::stream(seed)).map(|x| pop.iter().position(|p| std::ptr::eq(p, x))).map_err(|e| format!("{e:?}")));
        rep.eval();
        rep.count("tied-plain-values");
        let why = match (&r, must_fail) {
            (Err(p), _) => Some(format!("panic: {p}")),
            (Ok(Ok(None)), _) => Some("returned a reference that is not an element of the population".to_string()),
            (Ok(Ok(Some(_))), true) => Some("the tournament is larger than the population but a member was returned".to_string()),
            (Ok(Ok(Some(_))), false) => None,
            (Ok(Err(t)), true) => (!t.contains("TournamentSizeError")).then(|| format!("documented error TournamentSizeError, got {t}")),
            (Ok(Err(t)), false) => Some(format!("no error is documented here, got {t}")),
        };
        if let Some(why) = why {
            rep.violation(format!("C06/{what}/on-tied-plain-values"), || json!({"selector": what, "population": format!("{pop:?}"), "why": why}));
        }
    }
    let seed = g.next();
    for k in 1..=n + 1 {
        let t = Tournament::new(std::num::NonZeroUsize::new(k).unwrap());
        one(&format!("Tournament({k})"), &t, &vals, k > n, mix(seed, k as u64), rep);
        one(&format!("Tournament({k})"), &t, &as_u8, k > n, mix(seed, 100 + k as u64), rep);
        one(&format!("Tournament({k})"), &t, &as_pairs, k > n, mix(seed, 200 + k as u64), rep);
    }
    // tournament sizes far beyond any population: the documented error, nothing sized after them
    for k in [usize::MAX, usize::MAX - 1, 1usize << 60, 1 << 40, u32::MAX as usize + 1] {
        let t = Tournament::new(std::num::NonZeroUsize::new(k).unwrap());
        one(&format!("Tournament({k})"), &t, &vals, true, mix(seed, k as u64), rep);
    }
    one("Best", &Best, &vals, false, seed, rep);
    one("Worst", &Worst, &as_u8, false, seed, rep);
    one("Random", &Random, &as_pairs, false, seed, rep);
}

fn large_population(g: &mut Xo, rep: &mut Report) {
    let n = match g.below(6) {
        0 => 10 + g.usize_below(30),
        1 => 40 + g.usize_below(120),
        2 => *g.pick(&[63usize, 64, 65, 81, 100, 121, 127, 128, 129, 255, 256, 257]),
        3 => 160 + g.usize_below(900),
        4 => *g.pick(&[1000usize, 1023, 1024, 1025, 2048, 4099]),
        _ => 10 + g.usize_below(90),
    };
    let cases = *g.pick(&[0usize, 1, 2, 3, 5, 8, 13, 21, 34]);
    let pop = gen_population(g, n, cases);
    let decoy = pop.clone();
    let root = (n as f64).sqrt() as usize;
    let mut ks: Vec<usize> = vec![1, 2, 3, 4, 7, 8, 9, 10, 11, 15, 16, 17, 31, 32, 33, 63, 64, 65, root.max(1), root + 1, (root.max(2)) - 1, n / 2, n - 1, n, n + 1, n + 7];
    for _ in 0..6 {
        ks.push(1 + g.usize_below(n + 2));
    }
    ks.sort_unstable();
    ks.dedup();
    let mut kinds = vec![LeafKind::Best, LeafKind::Worst, LeafKind::Random];
    kinds.extend(ks.into_iter().filter(|k| *k >= 1).map(LeafKind::Tournament));
    for c in [0, 1, cases / 2, cases.saturating_sub(1), cases, cases + 1, cases + 5] {
        kinds.push(LeafKind::Lexicase(c));
    }
    kinds.dedup();
    for kind in &kinds {
        for _ in 0..3 {
            let seed = g.next();
            direct_leaf(kind, &pop, &decoy, seed, rep);
        }
    }
    rep.count("large-populations");
    for _ in 0..8 {
        let sd = g.next();
        combination(g, &pop, cases, sd, rep);
    }
    if decoy != pop {
        rep.violation("C06/population-mutated", || json!({"population_size": pop.len()}));
    }
}

pub fn run(args: &Args) -> i32 {
    let rounds = args.tier.pick(200_000usize, 3_000_000usize);
    let rep = run_shards(64, args.threads, 16 << 20, |s| {
        let mut rep = Report::new();
        for r in 0..rounds / 64 {
            let mut g = Xo::derive(args.seed, "C06", (s * 1_000_003 + r) as u64);
            let n = g.usize_below(10);
            let cases = g.usize_below(5);
            let mut pop = gen_population(&mut g, n, cases);
            // some individuals with fewer results than the others
            if n > 0 && cases > 0 && g.chance(1, 4) {
                let who = g.usize_below(n);
                let id = pop[who].genome;
                pop[who] = crate::common::ind_s(id, &vec![1; cases - 1]);
            }
            let decoy = pop.clone();
            let seed = g.next();
            let mut kinds = vec![LeafKind::Best, LeafKind::Worst, LeafKind::Random];
            for k in 1..=n + 2 {
                kinds.push(LeafKind::Tournament(k));
            }
            for c in 0..=cases + 2 {
                kinds.push(LeafKind::Lexicase(c));
            }
            for kind in &kinds {
                direct_leaf(kind, &pop, &decoy, seed, &mut rep);
            }
            for _ in 0..6 {
                let sd = g.next();
                combination(&mut g, &pop, cases, sd, &mut rep);
            }
            lexicase_errors(&mut g, seed, &mut rep);
            // the decoy must be untouched and equal: selection does not mutate
            if decoy != pop {
                rep.violation("C06/population-mutated", || json!({"population": pop_json(&pop)}));
            }
            // Large populations: size-dependent code paths (sampling strategies that switch with
            // k or n, fixed-size scratch buffers, index arithmetic) only show beyond toy sizes.
            if r % 40 == 0 {
                large_population(&mut g, &mut rep);
            }
            if r % 4 == 0 {
                other_collections(&mut g, &mut rep);
            }
            if r % 16 == 0 {
                dyn_weight_extremes(&mut g, &mut rep);
            }
            if r % 2 == 0 {
                dyn_staged(&mut g, &mut rep);
            }
            if r % 8 == 0 {
                tied_plain_values(&mut g, &mut rep);
            }
        }
        rep
    });
    let _ = Leaf::new(0, LeafKind::Best);
    rep.finish(
        args,
        "exploration",
        "every fourth round the same contract on VecDeque / LinkedList / BTreeSet / Box<[T]> / [T; N] populations; large populations (10..4099 members, tournament sizes around 8/16/32/64, sqrt(n), n/2, n-1, n, n+1, up to 34 cases) every 40th round; populations of size 0..9 (empty, singleton, all-equal, duplicate-laden, random; some individuals with fewer results) x Best, Worst, Random, Tournament(k=1..n+2), Lexicase(cases 0..m+2, both polarities) through five access paths (direct, &S, Select operator, &dyn, Box<dyn>) x random weighted combinations in 13 nestings with weights incl. 0; distinct_nontrivial counts distinct (selector, access path / members+weights, population size, outcome kind)",
        false,
        &[
            "identity is decided by address (ptr::eq) against the population's own elements",
            "documented errors are recognised by their type names in the Debug rendering of the (nested) error",
            "Lexicase configured with more cases than results available may either succeed or report MissingTestCase",
        ],
    )
}
