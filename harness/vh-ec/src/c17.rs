//! C17 — type-erased (dyn) forms behave exactly like the operators they wrap.
//!
//! Oracle: differential concrete vs erased. All 28 generated flavours (`&`, `&mut`, `Box`,
//! `Rc`, `Arc`, `Ref`, `RefMut` x {-, Send, Sync, Send + Sync}) of the five erasable traits
//! wrap run-time configured implementations (real selectors / mutators / recombinators /
//! compositions and scripted probes that succeed or fail). From cloned generators: same
//! value (selectors: same element by identity), same error text and source chain after
//! conversion (default boxed error type and the identity conversion), same random-stream
//! fingerprint, wrapped thing called exactly once.

use std::{
    cell::{Ref, RefCell, RefMut},
    rc::Rc,
    sync::Arc,
};

use ec_core::{
    child_maker::{ChildMaker, DynChildMaker},
    operator::{
        mutator::{DynMutator, Mutate, Mutator},
        recombinator::{DynRecombinator, Recombinator},
        selector::{DynSelector, Selector},
        Composable, DynOperator, Operator,
    },
};
use ec_linear::{
    mutator::{with_one_over_length::WithOneOverLength, with_rate::WithRate},
    recombinator::{two_point_xo::TwoPointXo, uniform_xo::UniformXo},
};
use rand::Rng;
use vh_core::{catch, fnv_str, json, mix, shard::run_shards, trace_rng::Fingerprint, Args, Report, TraceRng, Xo};

use crate::{
    common::{gen_population, ind_s, take_leaf_log, IndS, Leaf, LeafError, LeafKind},
    shapes::Pop,
};

thread_local! {
    static CALLS: RefCell<u32> = const { RefCell::new(0) };
}
fn bump() {
    CALLS.with(|c| *c.borrow_mut() += 1);
}
fn take_calls() -> u32 {
    CALLS.with(|c| std::mem::take(&mut *c.borrow_mut()))
}

/// Everything observable about one call.
#[derive(Debug, Clone, PartialEq)]
struct Obs {
    value: Result<String, (String, Vec<String>)>,
    fp: Fingerprint,
    wrapped_calls: u32,
}

fn err_chain(e: &(dyn std::error::Error + 'static)) -> (String, Vec<String>) {
    let mut chain = Vec::new();
    let mut cur = e.source();
    while let Some(s) = cur {
        chain.push(s.to_string());
        cur = s.source();
    }
    (e.to_string(), chain)
}

#[derive(Debug)]
pub struct KindErr(String);
impl std::fmt::Display for KindErr {
    fn fmt(&self, f: &mut std::fmt::Formatter<'_>) -> std::fmt::Result {
        write!(f, "{}", self.0)
    }
}
impl std::error::Error for KindErr {}

/// A selector that always fails with an error that has a two-level cause chain.
#[derive(Debug)]
pub struct ChainFail;
#[derive(Debug)]
pub struct ChainErr(u8);
impl std::fmt::Display for ChainErr {
    fn fmt(&self, f: &mut std::fmt::Formatter<'_>) -> std::fmt::Result {
        match self.0 {
            0 => write!(f, "outer failure of the member"),
            1 => write!(f, "middle cause"),
            _ => write!(f, "root cause #7"),
        }
    }
}
impl std::error::Error for ChainErr {
    fn source(&self) -> Option<&(dyn std::error::Error + 'static)> {
        static MIDDLE: ChainErr = ChainErr(1);
        static ROOT: ChainErr = ChainErr(2);
        match self.0 {
            0 => Some(&MIDDLE),
            1 => Some(&ROOT),
            _ => None,
        }
    }
}
impl Selector<Pop> for ChainFail {
    type Error = ChainErr;
    fn select<'pop, R: Rng + ?Sized>(&self, _: &'pop Pop, _: &mut R) -> Result<&'pop IndS, ChainErr> {
        Err(ChainErr(0))
    }
}

type G = Vec<bool>;

/// How a scripted probe draws from the generator it is handed: through each of the three
/// `RngCore` entry points, incl. byte fills whose length is not a multiple of a word, so that an
/// erased layer that re-implements one of them differently shows in value or stream position.
fn draw<R: Rng + ?Sized>(rng: &mut R, style: u8) -> u64 {
    match style % 6 {
        0 => rng.next_u64(),
        1 => u64::from(rng.next_u32()),
        2 => {
            let mut b = [0u8; 5];
            rng.fill_bytes(&mut b);
            b.iter().fold(0u64, |a, x| (a << 8) | u64::from(*x))
        }
        3 => {
            let mut b = [0u8; 11];
            rng.fill_bytes(&mut b);
            b.iter().fold(u64::from(rng.next_u32()), |a, x| a.rotate_left(7) ^ u64::from(*x))
        }
        4 => {
            let mut b = [0u8; 1];
            rng.fill_bytes(&mut b);
            u64::from(b[0]) ^ rng.next_u64()
        }
        _ => u64::from(rng.random_bool(0.37)) | (u64::from(rng.next_u32()) << 1),
    }
}

#[derive(Clone, Debug)]
pub enum MutKind {
    Rate(f32),
    OneOverLength,
    Probe { fail: bool, style: u8 },
}
pub struct MutLeaf(pub MutKind);
impl Mutator<G> for MutLeaf {
    type Error = KindErr;
    fn mutate<R: Rng + ?Sized>(&self, genome: G, rng: &mut R) -> Result<G, KindErr> {
        bump();
        match &self.0 {
            MutKind::Rate(r) => WithRate::new(*r).mutate(genome, rng).map_err(|e| KindErr(format!("{e:?}"))),
            MutKind::OneOverLength => WithOneOverLength.mutate(genome, rng).map_err(|e| KindErr(format!("{e}"))),
            MutKind::Probe { fail, style } => {
                let w = draw(rng, *style);
                if *fail {
                    Err(KindErr(format!("probe mutator failed after drawing {w}")))
                } else {
                    Ok(genome.iter().enumerate().map(|(i, b)| b ^ ((w >> (i % 64)) & 1 == 1)).collect())
                }
            }
        }
    }
}

#[derive(Clone, Debug)]
pub enum RecKind {
    TwoPoint,
    Uniform,
    Probe { fail: bool, style: u8 },
}
pub struct RecLeaf(pub RecKind);
impl Recombinator<[G; 2]> for RecLeaf {
    type Output = G;
    type Error = KindErr;
    fn recombine<R: Rng + ?Sized>(&self, genomes: [G; 2], rng: &mut R) -> Result<G, KindErr> {
        bump();
        match &self.0 {
            RecKind::TwoPoint => TwoPointXo.recombine(genomes, rng).map_err(|e| KindErr(format!("{e}"))),
            RecKind::Uniform => UniformXo.recombine(genomes, rng).map_err(|e| KindErr(format!("{e}"))),
            RecKind::Probe { fail, style } => {
                let w = draw(rng, *style) as u32;
                if *fail {
                    Err(KindErr(format!("probe recombinator failed after drawing {w}")))
                } else {
                    let [a, b] = genomes;
                    Ok(a.iter().zip(b.iter().chain(std::iter::repeat(&false))).map(|(x, y)| x ^ y ^ (w & 1 == 1)).collect())
                }
            }
        }
    }
}

#[derive(Clone, Debug)]
pub enum OpKind {
    Pipeline(f32),
    Probe { fail: bool, style: u8 },
}
#[derive(Composable)]
pub struct OpLeaf(pub OpKind);
impl Operator<G> for OpLeaf {
    type Output = G;
    type Error = KindErr;
    fn apply<R: Rng + ?Sized>(&self, input: G, rng: &mut R) -> Result<G, KindErr> {
        bump();
        match &self.0 {
            OpKind::Pipeline(r) => Mutate::new(WithRate::new(*r))
                .then(Mutate::new(WithOneOverLength))
                .apply(input, rng)
                .map_err(|e| KindErr(format!("{e}"))),
            OpKind::Probe { fail, style } => {
                let w = draw(rng, *style);
                if *fail {
                    Err(KindErr(format!("probe operator failed after drawing {w}")))
                } else {
                    Ok(input.iter().rev().map(|b| b ^ (w & 1 == 1)).collect())
                }
            }
        }
    }
}

pub struct CmLeaf {
    pub fail: bool,
    pub style: u8,
}
impl ChildMaker<Pop, Leaf> for CmLeaf {
    type Error = KindErr;
    fn make_child<R: Rng + ?Sized>(&self, rng: &mut R, population: &Pop, selector: &Leaf) -> Result<IndS, KindErr> {
        bump();
        let parent = selector.select(population, rng).map_err(|e| KindErr(format!("selection failed: {e}")))?;
        let w = draw(rng, self.style) as u32;
        if self.fail {
            return Err(KindErr(format!("probe child maker failed after drawing {w}")));
        }
        Ok(ind_s(parent.genome ^ (w & 0xff), &[i64::from(w % 7), 1]))
    }
}

// generic observers --------------------------------------------------------------------

fn obs_sel<S>(s: &S, pop: &Pop, seed: u64) -> Obs
where
    S: Selector<Pop>,
    S::Error: AsRef<dyn std::error::Error + Send + Sync> + 'static,
{
    take_leaf_log();
    let mut rng = TraceRng::stream(seed);
    let r = s.select(pop, &mut rng);
    let value = match r {
        Ok(x) => Ok(match pop.iter().position(|p| std::ptr::eq(p, x)) {
            Some(i) => format!("element #{i}"),
            None => "foreign reference".to_string(),
        }),
        Err(e) => Err(err_chain(e.as_ref())),
    };
    Obs { value, fp: rng.fingerprint(), wrapped_calls: take_leaf_log().len() as u32 }
}

/// Same for a concrete error type (identity conversion flavour and the concrete call).
fn obs_sel_concrete<S>(s: &S, pop: &Pop, seed: u64) -> Obs
where
    S: Selector<Pop>,
    S::Error: std::error::Error + 'static,
{
    take_leaf_log();
    let mut rng = TraceRng::stream(seed);
    let r = s.select(pop, &mut rng);
    let value = match r {
        Ok(x) => Ok(match pop.iter().position(|p| std::ptr::eq(p, x)) {
            Some(i) => format!("element #{i}"),
            None => "foreign reference".to_string(),
        }),
        Err(e) => Err(err_chain(&e)),
    };
    Obs { value, fp: rng.fingerprint(), wrapped_calls: take_leaf_log().len() as u32 }
}

fn finish<T: std::fmt::Debug, E: std::error::Error + 'static + ?Sized>(r: Result<T, impl AsRef<E>>, rng: &TraceRng) -> Obs {
    let value = match r {
        Ok(v) => Ok(format!("{v:?}")),
        Err(e) => {
            let e: &E = e.as_ref();
            // err_chain needs a sized-erased view
            let mut chain = Vec::new();
            let mut cur = e.source();
            while let Some(s) = cur {
                chain.push(s.to_string());
                cur = s.source();
            }
            Err((e.to_string(), chain))
        }
    };
    Obs { value, fp: rng.fingerprint(), wrapped_calls: take_calls() }
}

struct Own<E>(E);
impl<E: std::error::Error + 'static> AsRef<E> for Own<E> {
    fn as_ref(&self) -> &E {
        &self.0
    }
}

type BoxErr = Box<dyn std::error::Error + Send + Sync>;
struct Boxed(BoxErr);
impl AsRef<dyn std::error::Error + Send + Sync> for Boxed {
    fn as_ref(&self) -> &(dyn std::error::Error + Send + Sync + 'static) {
        &*self.0
    }
}

fn obs_mut_boxed<M: Mutator<G, Error = BoxErr>>(m: &M, g: &G, seed: u64) -> Obs {
    take_calls();
    let mut rng = TraceRng::stream(seed);
    let r = m.mutate(g.clone(), &mut rng).map_err(Boxed);
    finish::<_, dyn std::error::Error + Send + Sync>(r, &rng)
}
fn obs_mut_concrete<M: Mutator<G, Error = KindErr>>(m: &M, g: &G, seed: u64) -> Obs {
    take_calls();
    let mut rng = TraceRng::stream(seed);
    let r = m.mutate(g.clone(), &mut rng).map_err(Own);
    finish::<_, KindErr>(r, &rng)
}
fn obs_rec_boxed<M: Recombinator<[G; 2], Output = G, Error = BoxErr>>(m: &M, g: &[G; 2], seed: u64) -> Obs {
    take_calls();
    let mut rng = TraceRng::stream(seed);
    let r = m.recombine(g.clone(), &mut rng).map_err(Boxed);
    finish::<_, dyn std::error::Error + Send + Sync>(r, &rng)
}
fn obs_rec_concrete<M: Recombinator<[G; 2], Output = G, Error = KindErr>>(m: &M, g: &[G; 2], seed: u64) -> Obs {
    take_calls();
    let mut rng = TraceRng::stream(seed);
    let r = m.recombine(g.clone(), &mut rng).map_err(Own);
    finish::<_, KindErr>(r, &rng)
}
fn obs_op_boxed<M: Operator<G, Output = G, Error = BoxErr>>(m: &M, g: &G, seed: u64) -> Obs {
    take_calls();
    let mut rng = TraceRng::stream(seed);
    let r = m.apply(g.clone(), &mut rng).map_err(Boxed);
    finish::<_, dyn std::error::Error + Send + Sync>(r, &rng)
}
fn obs_op_concrete<M: Operator<G, Output = G, Error = KindErr>>(m: &M, g: &G, seed: u64) -> Obs {
    take_calls();
    let mut rng = TraceRng::stream(seed);
    let r = m.apply(g.clone(), &mut rng).map_err(Own);
    finish::<_, KindErr>(r, &rng)
}
fn obs_cm_boxed<M: ChildMaker<Pop, Leaf, Error = BoxErr>>(m: &M, pop: &Pop, sel: &Leaf, seed: u64) -> Obs {
    take_calls();
    take_leaf_log();
    let mut rng = TraceRng::stream(seed);
    let r = m.make_child(&mut rng, pop, sel).map_err(Boxed);
    finish::<_, dyn std::error::Error + Send + Sync>(r, &rng)
}
fn obs_cm_concrete<M: ChildMaker<Pop, Leaf, Error = KindErr>>(m: &M, pop: &Pop, sel: &Leaf, seed: u64) -> Obs {
    take_calls();
    take_leaf_log();
    let mut rng = TraceRng::stream(seed);
    let r = m.make_child(&mut rng, pop, sel).map_err(Own);
    finish::<_, KindErr>(r, &rng)
}

struct BoxedSelErr;
impl BoxedSelErr {
    // Selector errors of the erased forms are `Box<dyn Error + Send + Sync>`, which is AsRef
    // to the trait object already.
}

/// The seven pointer flavours of one trait-object type.
macro_rules! seven {
    ($dy:ty, $mk:expr, $run:expr, $out:ident, $tag:expr) => {{
        {
            let c = $mk;
            let d: &$dy = &c;
            $out.push((concat!("&", $tag), $run(&d)));
        }
        {
            let mut c = $mk;
            let d: &mut $dy = &mut c;
            $out.push((concat!("&mut", $tag), $run(&d)));
        }
        {
            let d: Box<$dy> = Box::new($mk);
            $out.push((concat!("Box", $tag), $run(&d)));
        }
        {
            let d: Rc<$dy> = Rc::new($mk);
            $out.push((concat!("Rc", $tag), $run(&d)));
        }
        {
            let d: Arc<$dy> = Arc::new($mk);
            $out.push((concat!("Arc", $tag), $run(&d)));
        }
        {
            let cell = RefCell::new($mk);
            let d: Ref<'_, $dy> = Ref::map(cell.borrow(), |x| {
                let y: &$dy = x;
                y
            });
            $out.push((concat!("Ref", $tag), $run(&d)));
        }
        {
            let cell = RefCell::new($mk);
            let d: RefMut<'_, $dy> = RefMut::map(cell.borrow_mut(), |x| {
                let y: &mut $dy = x;
                y
            });
            $out.push((concat!("RefMut", $tag), $run(&d)));
        }
    }};
}

/// All 28 flavours: seven pointers x four auto-trait sets.
macro_rules! twenty_eight {
    ($tr:path, $mk:expr, $run:expr, $out:ident) => {{
        seven!(dyn $tr, $mk, $run, $out, "<dyn>");
        seven!(dyn $tr + Send, $mk, $run, $out, "<dyn + Send>");
        seven!(dyn $tr + Sync, $mk, $run, $out, "<dyn + Sync>");
        seven!(dyn $tr + Send + Sync, $mk, $run, $out, "<dyn + Send + Sync>");
    }};
}

fn compare(trait_name: &str, kind: &str, concrete: &Obs, erased: Vec<(&'static str, Obs)>, rep: &mut Report, input: &str) {
    for (flavour, o) in erased {
        rep.eval();
        rep.count(&format!("{trait_name}:{}", if o.value.is_ok() { "ok" } else { "error" }));
        rep.distinct(mix(fnv_str(trait_name), mix(fnv_str(flavour), fnv_str(&format!("{kind}{}", concrete.value.is_ok())))));
        if o != *concrete {
            let aspect = if o.value != concrete.value {
                if o.value.is_ok() != concrete.value.is_ok() { "outcome" } else if o.value.is_ok() { "value" } else { "error" }
            } else if o.fp != concrete.fp {
                "random-stream"
            } else {
                "call-count"
            };
            rep.violation(format!("C17/{trait_name}/{aspect}"), || {
                json!({"wrapped": kind, "flavour": flavour, "input": input, "concrete": format!("{concrete:?}"), "erased": format!("{o:?}")})
            });
        } else if rep.wants_sample() && o.value.is_err() && flavour.starts_with("Arc") {
            rep.sample(|| json!({"kind": "erased call equals concrete call", "trait": trait_name, "wrapped": kind, "flavour": flavour, "observation": format!("{o:?}")}));
        }
    }
}

fn round(g: &mut Xo, rep: &mut Report) {
    let seed = g.next();
    // ---------------------------------------------------------------- selectors
    let n = g.usize_below(7);
    let pop = gen_population(g, n, 3);
    let kind = match g.below(6) {
        0 => LeafKind::Best,
        1 => LeafKind::Worst,
        2 => LeafKind::Random,
        3 => LeafKind::Tournament(1 + g.usize_below(n + 2)),
        4 => LeafKind::Lexicase(g.usize_below(5)),
        _ => LeafKind::Marker(g.usize_below(n + 1)),
    };
    let concrete = obs_sel_concrete(&Leaf::new(0, kind.clone()), &pop, seed);
    let mut out: Vec<(&'static str, Obs)> = Vec::new();
    twenty_eight!(DynSelector<Pop>, Leaf::new(0, kind.clone()), |d| obs_sel(d, &pop, seed), out);
    compare("DynSelector", &format!("{kind:?}"), &concrete, out, rep, &format!("population of {n}"));
    let mut out: Vec<(&'static str, Obs)> = Vec::new();
    twenty_eight!(DynSelector<Pop, LeafError>, Leaf::new(0, kind.clone()), |d| obs_sel_concrete(d, &pop, seed), out);
    compare("DynSelector(identity error)", &format!("{kind:?}"), &concrete, out, rep, &format!("population of {n}"));

    // A dynamic weighted list with a single erased member of positive weight is that member seen
    // through the erased layer: same element for deterministic selectors, and on failure the
    // member's own error must be what is reported (somewhere in the source chain), not another one.
    {
        use ec_core::operator::selector::dyn_weighted::DynWeighted;
        let dw: DynWeighted<Pop> = DynWeighted::new(Leaf::new(0, kind.clone()), 1 + (seed % 5) as usize);
        take_leaf_log();
        let mut rng = TraceRng::stream(seed);
        let got = match dw.select(&pop, &mut rng) {
            Ok(x) => Ok(pop.iter().position(|p| std::ptr::eq(p, x))),
            Err(e) => {
                let (top, mut chain) = err_chain(&e);
                chain.insert(0, top);
                Err(chain)
            }
        };
        take_leaf_log();
        rep.eval();
        rep.count("DynWeighted(single member)");
        let deterministic = matches!(kind, LeafKind::Best | LeafKind::Worst | LeafKind::Marker(_));
        // whether a selection succeeds does not depend on the stream, except for lexicase configured
        // with more cases than results (the missing case may or may not be reached); the list draws
        // from the stream before its member does, so only stream-independent facts are compared
        let outcome_fixed = !(n > 0 && matches!(kind, LeafKind::Lexicase(c) if c > 3));
        let problem = if !outcome_fixed { None } else { match (&concrete.value, &got) {
            (Ok(_), Ok(None)) => Some("returned a reference that is not an element of the population".to_string()),
            (Ok(want), Ok(Some(i))) if deterministic && *want != format!("element #{i}") && !matches!(kind, LeafKind::Best | LeafKind::Worst) => Some(format!("member returns {want}, the list returned element #{i}")),
            (Ok(_), Ok(Some(_))) => None,
            (Err((text, _)), Err(chain)) => {
                // the member renders its error through LeafError::Real(debug text); the list must carry it
                if chain.iter().any(|c| c.contains(text.as_str()) || text.contains(c.as_str())) { None } else { Some(format!("member fails with `{text}`, the list reports {chain:?}")) }
            }
            (Ok(want), Err(chain)) => Some(format!("member succeeds ({want}), the list fails with {chain:?}")),
            (Err((text, _)), Ok(i)) => Some(format!("member fails with `{text}`, the list returned {i:?}")),
        } };
        if let Some(why) = problem {
            rep.violation("C17/DynWeighted(single member)/differs-from-member", || json!({"member": format!("{kind:?}"), "population_size": n, "why": why}));
        }
    }

    // ... and a member whose error has a cause chain: the whole chain must still be reachable
    // through source() from what the list reports
    {
        use ec_core::operator::selector::dyn_weighted::DynWeighted;
        let dw: DynWeighted<Pop> = DynWeighted::new(ChainFail, 2);
        rep.eval();
        rep.count("DynWeighted(member error with a cause chain)");
        match dw.select(&pop, &mut TraceRng::stream(seed)) {
            Ok(_) => rep.violation("C17/DynWeighted(single member)/differs-from-member", || json!({"member": "always fails", "why": "the list selected although its only member fails"})),
            Err(e) => {
                let (top, mut chain) = err_chain(&e);
                chain.insert(0, top);
                let want = ["outer failure of the member", "middle cause", "root cause #7"];
                let mut pos = 0usize;
                for c in &chain {
                    if pos < want.len() && c.contains(want[pos]) {
                        pos += 1;
                    }
                }
                if pos != want.len() {
                    rep.violation("C17/DynWeighted(single member)/error-chain-lost", || json!({"member_error_chain": want, "chain_reachable_through_source()": chain}));
                }
            }
        }
    }

    // ... and lists nested in lists: every level converts its member's error into its own erased
    // form exactly once, so a failure d levels down arrives wrapped d times (`Other` around what
    // the member itself reports), never flattened into - or mistaken for - an error of an outer list
    {
        use ec_core::operator::selector::dyn_weighted::{DynWeighted, DynWeightedError};
        fn shape(e: &DynWeightedError) -> (usize, String) {
            match e {
                DynWeightedError::Other(b) => match b.downcast_ref::<DynWeightedError>() {
                    Some(inner) => {
                        let (d, leaf) = shape(inner);
                        (d + 1, leaf)
                    }
                    None => (1, format!("member error: {b:?}")),
                },
                own => (0, format!("own error: {own:?}")),
            }
        }
        let depth = 1 + (seed % 3) as usize;
        let flavour = (seed >> 5) % 3;
        // innermost list: 0 = its own weights are all zero, 1 = its member fails with a chain,
        // 2 = it works (Best) - fails only on an empty population, with the member's error
        let innermost: DynWeighted<Pop> = match flavour {
            0 => DynWeighted::new(Leaf::new(0, LeafKind::Best), 0).with_selector(ChainFail, 0),
            1 => DynWeighted::new(ChainFail, 3),
            _ => DynWeighted::new(Leaf::new(0, LeafKind::Best), 2),
        };
        let alone = innermost.select(&pop, &mut TraceRng::stream(seed)).map(|x| x as *const IndS);
        let innermost: DynWeighted<Pop> = match flavour {
            0 => DynWeighted::new(Leaf::new(0, LeafKind::Best), 0).with_selector(ChainFail, 0),
            1 => DynWeighted::new(ChainFail, 3),
            _ => DynWeighted::new(Leaf::new(0, LeafKind::Best), 2),
        };
        let mut nested = innermost;
        for level in 0..depth {
            nested = DynWeighted::new(nested, 1 + level);
        }
        take_leaf_log();
        let got = nested.select(&pop, &mut TraceRng::stream(seed)).map(|x| x as *const IndS);
        take_leaf_log();
        rep.eval();
        rep.count("DynWeighted(nested lists)");
        let problem = match (&alone, &got) {
            (Ok(a), Ok(b)) => (a != b).then(|| "the nested list selects another element than the innermost list (a deterministic member)".to_string()),
            (Err(a), Err(b)) => {
                let (da, la) = shape(a);
                let (db, lb) = shape(b);
                (db != da + depth || la != lb).then(|| format!("the innermost list alone reports {a:?}; behind {depth} more list(s) it must arrive wrapped {depth} more time(s), got {b:?}"))
            }
            (Ok(_), Err(e)) => Some(format!("the innermost list selects, the nested one fails with {e:?}")),
            (Err(e), Ok(_)) => Some(format!("the innermost list fails with {e:?}, the nested one selects")),
        };
        if let Some(why) = problem {
            rep.violation("C17/DynWeighted(nested)/error-not-converted-once-per-level", || json!({"depth": depth, "innermost": (["all weights zero", "member fails with a cause chain", "Best"][flavour as usize]), "population_size": n, "why": why}));
        }
    }

    // ---------------------------------------------------------------- mutators
    let genome: G = (0..g.usize_below(12)).map(|_| g.chance(1, 2)).collect();
    let mk = match g.below(4) {
        0 => MutKind::Rate(g.f64() as f32),
        1 => MutKind::OneOverLength,
        2 => MutKind::Probe { fail: false, style: g.below(6) as u8 },
        _ => MutKind::Probe { fail: true, style: g.below(6) as u8 },
    };
    let concrete = obs_mut_concrete(&MutLeaf(mk.clone()), &genome, seed);
    let mut out: Vec<(&'static str, Obs)> = Vec::new();
    twenty_eight!(DynMutator<G>, MutLeaf(mk.clone()), |d| obs_mut_boxed(d, &genome, seed), out);
    compare("DynMutator", &format!("{mk:?}"), &concrete, out, rep, &format!("{genome:?}"));
    let mut out: Vec<(&'static str, Obs)> = Vec::new();
    twenty_eight!(DynMutator<G, KindErr>, MutLeaf(mk.clone()), |d| obs_mut_concrete(d, &genome, seed), out);
    compare("DynMutator(identity error)", &format!("{mk:?}"), &concrete, out, rep, &format!("{genome:?}"));

    // ---------------------------------------------------------------- recombinators
    let other: G = (0..if g.chance(1, 5) { genome.len() + 1 } else { genome.len() }).map(|_| g.chance(1, 2)).collect();
    let pair = [genome.clone(), other];
    let rk = match g.below(4) {
        0 => RecKind::TwoPoint,
        1 => RecKind::Uniform,
        2 => RecKind::Probe { fail: false, style: g.below(6) as u8 },
        _ => RecKind::Probe { fail: true, style: g.below(6) as u8 },
    };
    let concrete = obs_rec_concrete(&RecLeaf(rk.clone()), &pair, seed);
    let mut out: Vec<(&'static str, Obs)> = Vec::new();
    twenty_eight!(DynRecombinator<[G; 2], Output = G>, RecLeaf(rk.clone()), |d| obs_rec_boxed(d, &pair, seed), out);
    compare("DynRecombinator", &format!("{rk:?}"), &concrete, out, rep, &format!("{pair:?}"));
    let mut out: Vec<(&'static str, Obs)> = Vec::new();
    twenty_eight!(DynRecombinator<[G; 2], KindErr, Output = G>, RecLeaf(rk.clone()), |d| obs_rec_concrete(d, &pair, seed), out);
    compare("DynRecombinator(identity error)", &format!("{rk:?}"), &concrete, out, rep, &format!("{pair:?}"));

    // ---------------------------------------------------------------- operators
    let ok = match g.below(3) {
        0 => OpKind::Pipeline(g.f64() as f32),
        1 => OpKind::Probe { fail: false, style: g.below(6) as u8 },
        _ => OpKind::Probe { fail: true, style: g.below(6) as u8 },
    };
    let concrete = obs_op_concrete(&OpLeaf(ok.clone()), &genome, seed);
    let mut out: Vec<(&'static str, Obs)> = Vec::new();
    twenty_eight!(DynOperator<G, Output = G>, OpLeaf(ok.clone()), |d| obs_op_boxed(d, &genome, seed), out);
    compare("DynOperator", &format!("{ok:?}"), &concrete, out, rep, &format!("{genome:?}"));
    let mut out: Vec<(&'static str, Obs)> = Vec::new();
    twenty_eight!(DynOperator<G, KindErr, Output = G>, OpLeaf(ok.clone()), |d| obs_op_concrete(d, &genome, seed), out);
    compare("DynOperator(identity error)", &format!("{ok:?}"), &concrete, out, rep, &format!("{genome:?}"));

    // ---------------------------------------------------------------- child makers
    let fail = g.chance(1, 3);
    let style = g.below(6) as u8;
    let sel = Leaf::new(0, kind.clone());
    let concrete = obs_cm_concrete(&CmLeaf { fail, style }, &pop, &sel, seed);
    let mut out: Vec<(&'static str, Obs)> = Vec::new();
    twenty_eight!(DynChildMaker<Pop, Leaf>, CmLeaf { fail, style }, |d| obs_cm_boxed(d, &pop, &sel, seed), out);
    compare("DynChildMaker", &format!("fail={fail} selector={kind:?}"), &concrete, out, rep, &format!("population of {n}"));
    let mut out: Vec<(&'static str, Obs)> = Vec::new();
    twenty_eight!(DynChildMaker<Pop, Leaf, KindErr>, CmLeaf { fail, style }, |d| obs_cm_concrete(d, &pop, &sel, seed), out);
    compare("DynChildMaker(identity error)", &format!("fail={fail} selector={kind:?}"), &concrete, out, rep, &format!("population of {n}"));
    let _ = BoxedSelErr;
}

pub fn run(args: &Args) -> i32 {
    let rounds = args.tier.pick(40_000usize, 1_000_000usize);
    let rep = run_shards(64, args.threads, 16 << 20, |s| {
        let mut rep = Report::new();
        for r in 0..rounds / 64 {
            let mut g = Xo::derive(args.seed, "C17", (s * 1_000_003 + r) as u64);
            if let Err(p) = catch(|| round(&mut g, &mut rep)) {
                rep.violation("C17/panic", || json!({"panic": p.to_string()}));
            }
        }
        rep
    });
    let mut rep = rep;
    // compile-time half (tools/c17_flavours.py, run by ./check just before this monitor):
    // rustc's verdict on each of the 280 (trait x pointer x auto-trait x {default, user-defined} error type) flavours
    match std::fs::read_to_string(args.root.join("work/c17-flavours.json")).ok().and_then(|t| serde_json::from_str::<vh_core::Value>(&t).ok()) {
        Some(v) => {
            let n = v.get("flavours_accepted").and_then(vh_core::Value::as_u64).unwrap_or(0);
            rep.evals(v.get("flavours_checked").and_then(vh_core::Value::as_u64).unwrap_or(0));
            rep.count_n("flavours-accepted-by-rustc", n);
            rep.table("flavour_probe", v);
        }
        None => rep.inconclusive("the compile-time flavour probe (tools/c17_flavours.py) left no result; run through ./check"),
    }
    rep.finish(
        args,
        "exploration",
        "rustc's verdict on 280 generated functions that require each (trait x pointer x auto-trait) flavour to implement the wrapped trait; every round instantiates all 28 pointer flavours of each of the five erasable traits, with the default boxed error type and with the identity error conversion (280 erased calls per round), around run-time chosen implementations (real Best/Worst/Random/Tournament/Lexicase, WithRate, WithOneOverLength, TwoPointXo, UniformXo, a Mutate.then(Mutate) pipeline, succeeding and failing probes drawing through next_u32 / next_u64 / fill_bytes of 1, 5 and 11 bytes / random_bool) on random inputs and seeds; the (trait x flavour) grid is covered exhaustively in every round. distinct_nontrivial = distinct (trait, flavour, wrapped implementation, outcome kind)",
        false,
        &[
            "values are compared through Debug renderings, selectors by element identity, errors by Display text and source chain",
        ],
    )
}
