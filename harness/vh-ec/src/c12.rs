//! C12 — configured probabilities are the probabilities applied.
//!
//! Statistical monitor (Bernstein, 1e-10 per category; p = 0 and p = 1 exact) on empirical
//! frequencies of: per-gene flips and adjacent-pair joint flips (`WithRate`,
//! `WithOneOverLength`); UMAD per-position deletion, aggregated additions a(1-d), the full
//! joint law on one-gene parents, empty-parent additions, mean child length incl. the
//! size-preserving setting d = a/(1+a); uniform crossover (1/2 per gene, adjacent pairs
//! independent); `Bitstring::random*` / `BoolGenerator`; `GeneGenerator` close frequency
//! (explicit and the 1/(n+1) default) and instruction frequencies (uniform and skewed).

use std::cell::Cell;

use ec_core::{
    distributions::{collection::ConvertToCollectionGenerator, conversion::IntoDistribution},
    operator::{mutator::Mutator, recombinator::Recombinator},
};
use ec_linear::{
    genome::{
        bitstring::{Bitstring, BoolGenerator},
        vector::Vector,
    },
    mutator::{umad::Umad, with_one_over_length::WithOneOverLength, with_rate::WithRate},
    recombinator::uniform_xo::UniformXo,
};
use push::{
    genome::plushy::{ConvertToGeneGenerator, GeneGenerator, Plushy, PushGene},
    instruction::{IntInstruction, PushInstruction},
};
use rand::{distr::Distribution, Rng};
use vh_core::{fnv_str, json, shard::run_shards, stats::{check, mean_tolerance, DELTA}, Args, Report, TraceRng, Value};

use crate::c11::{SerialGen, UGene};

struct Table {
    config: String,
    rows: Vec<Value>,
}

impl Table {
    fn new(config: String) -> Self {
        Self { config, rows: Vec::new() }
    }

    fn cat(&mut self, rep: &mut Report, sig: &str, label: &str, n: u64, count: u64, p: f64) {
        let c = check(format!("{}: {label}", self.config), n, count, p);
        if !c.ok {
            let cfg = self.config.clone();
            rep.violation(format!("C12/{sig}"), || json!({"config": cfg, "check": c.to_json()}));
        }
        if self.rows.len() < 12 || !c.ok {
            self.rows.push(c.to_json());
        }
    }

    /// For rates at the small end of the range: a sampler that compares a uniform f32 (a multiple of
    /// 2^-24) with the rate realises the next multiple of 2^-24 at or above it - an absolute error
    /// below 6e-8, far below the resolution this monitor claims. The count is accepted if it is
    /// consistent with *some* probability in [p, p + 2^-24].
    fn cat_granular(&mut self, rep: &mut Report, sig: &str, label: &str, n: u64, count: u64, p: f64) {
        let hi = (p + 1.0 / 16_777_216.0).min(1.0);
        let lo_check = check(format!("{}: {label}", self.config), n, count, p);
        let hi_check = check(format!("{}: {label}", self.config), n, count, hi);
        let expected_lo = p * n as f64;
        let expected_hi = hi * n as f64;
        let within = (count as f64) >= expected_lo - lo_check.tol && (count as f64) <= expected_hi + hi_check.tol;
        if !within {
            let cfg = self.config.clone();
            rep.violation(format!("C12/{sig}"), || json!({"config": cfg, "check": lo_check.to_json(), "accepted_probabilities": [p, hi], "why_an_interval": "a uniform f32 is a multiple of 2^-24; a rate below that resolution is realised as the next multiple"}));
        }
        if self.rows.len() < 12 || !within {
            let mut row = lo_check.to_json();
            row["ok"] = json!(within);
            row["accepted_probabilities"] = json!([p, hi]);
            self.rows.push(row);
        }
    }

    fn finish(self, rep: &mut Report) {
        rep.distinct(fnv_str(&self.config));
        if rep.wants_sample() && fnv_str(&self.config) % 5 == 0 {
            let (c, r) = (self.config.clone(), self.rows.clone());
            rep.sample(|| json!({"kind": "configuration with its observed frequencies", "config": c, "categories": r}));
        }
        rep.table_push("frequency_tables", json!({"config": self.config, "categories_shown": self.rows}));
    }
}

fn flip_config(kind: &str, rate: Option<f32>, len: usize, n: u64, seed: u64, rep: &mut Report) {
    let cfg = format!("{kind} rate={rate:?} len={len}");
    let mut rng = TraceRng::derive(seed, "C12-flip", fnv_str(&cfg));
    let mut flips = vec![0u64; len];
    let mut pairs = vec![0u64; len.saturating_sub(1)];
    let parent: Vec<bool> = (0..len).map(|i| i % 3 == 0).collect();
    for _ in 0..n {
        rep.eval();
        let child: Vec<bool> = match (kind, rate) {
            ("WithRate/Vec<bool>", Some(r)) => WithRate::new(r).mutate(parent.clone(), &mut rng).unwrap(),
            ("WithRate/Bitstring", Some(r)) => WithRate::new(r).mutate(Bitstring { bits: parent.clone() }, &mut rng).unwrap().bits,
            ("WithOneOverLength/Vec<bool>", None) => WithOneOverLength.mutate(parent.clone(), &mut rng).unwrap(),
            _ => WithOneOverLength.mutate(Bitstring { bits: parent.clone() }, &mut rng).unwrap().bits,
        };
        if child.len() != len {
            rep.violation("C12/flip/length", || json!({"config": cfg}));
            return;
        }
        let mut prev = false;
        for i in 0..len {
            let f = child[i] != parent[i];
            if f {
                flips[i] += 1;
                if i > 0 && prev {
                    pairs[i - 1] += 1;
                }
            }
            prev = f;
        }
    }
    let p = match rate {
        Some(r) => f64::from(r).clamp(0.0, 1.0),
        None => 1.0 / len as f64,
    };
    let mut t = Table::new(cfg);
    if p > 0.0 && p < 1e-4 {
        // below the resolution of an f32 draw: judged up to that granularity (see cat_granular)
        for i in 0..len {
            t.cat_granular(rep, "flip-rate", &format!("gene {i} flipped"), n, flips[i], p);
        }
        t.cat_granular(rep, "flip-rate", "any gene flipped (aggregated over positions)", n * len as u64, flips.iter().sum(), p);
        t.finish(rep);
        return;
    }
    for i in 0..len {
        t.cat(rep, "flip-rate", &format!("gene {i} flipped"), n, flips[i], p);
    }
    for i in 0..len.saturating_sub(1) {
        t.cat(rep, "flip-independence", &format!("genes {i} and {} both flipped", i + 1), n, pairs[i], p * p);
    }
    // aggregated: total flips over n*len Bernoulli trials (tighter than any single gene)
    t.cat(rep, "flip-rate", "any gene flipped (aggregated over positions)", n * len as u64, flips.iter().sum(), p);
    t.finish(rep);
}

/// 1/length on long genomes: only the aggregated flip count is judged (expected: one flip per
/// mutation), which resolves a rate that is a few per cent off - e.g. a rate computed in coarse
/// fixed point, in integer arithmetic, or from a truncated length.
fn one_over_length_long(kind: &str, len: usize, n: u64, seed: u64, rep: &mut Report) {
    let cfg = format!("{kind} len={len} (long genome, aggregated)");
    let mut rng = TraceRng::derive(seed, "C12-flip-long", fnv_str(&cfg));
    let parent: Vec<bool> = (0..len).map(|i| i % 3 == 0).collect();
    let mut flips = 0u64;
    let mut first_half = 0u64;
    for _ in 0..n {
        rep.eval();
        let child: Vec<bool> = if kind.ends_with("Vec<bool>") {
            WithOneOverLength.mutate(parent.clone(), &mut rng).unwrap()
        } else {
            WithOneOverLength.mutate(Bitstring { bits: parent.clone() }, &mut rng).unwrap().bits
        };
        if child.len() != len {
            rep.violation("C12/flip/length", || json!({"config": cfg}));
            return;
        }
        for i in 0..len {
            if child[i] != parent[i] {
                flips += 1;
                if i < len / 2 {
                    first_half += 1;
                }
            }
        }
    }
    let mut t = Table::new(cfg);
    t.cat(rep, "flip-rate", "any gene flipped (aggregated over positions)", n * len as u64, flips, 1.0 / len as f64);
    t.cat(rep, "flip-rate", "a gene in the first half flipped", n * (len / 2) as u64, first_half, 1.0 / len as f64);
    t.finish(rep);
}

/// Ordinary rates on genomes of millions of genes (aggregated): the configured rate acts, and the
/// mutation answers in time linear in the genome (a mutation whose cost grows with the square of
/// the length never completes one evaluation within the hang budget at these sizes).
fn with_rate_long(kind: &str, rate: f32, len: usize, n: u64, seed: u64, rep: &mut Report) {
    let cfg = format!("{kind} rate={rate} len={len} (long genome, aggregated)");
    vh_core::shard::set_context(format!("C12 {cfg}"));
    let mut rng = TraceRng::derive(seed, "C12-rate-long", fnv_str(&cfg));
    let parent: Vec<bool> = (0..len).map(|i| i % 3 == 0).collect();
    let (mut flips, mut first_half) = (0u64, 0u64);
    for _ in 0..n {
        let child: Vec<bool> = if kind.ends_with("Vec<bool>") {
            WithRate::new(rate).mutate(parent.clone(), &mut rng).unwrap()
        } else {
            WithRate::new(rate).mutate(Bitstring { bits: parent.clone() }, &mut rng).unwrap().bits
        };
        rep.eval();
        if child.len() != len {
            rep.violation("C12/flip/length", || json!({"config": cfg}));
            return;
        }
        for i in 0..len {
            if child[i] != parent[i] {
                flips += 1;
                if i < len / 2 {
                    first_half += 1;
                }
            }
        }
    }
    let mut t = Table::new(cfg);
    t.cat(rep, "flip-rate", "any gene flipped (aggregated over positions)", n * len as u64, flips, f64::from(rate));
    t.cat(rep, "flip-rate", "a gene in the first half flipped", n * (len / 2) as u64, first_half, f64::from(rate));
    t.finish(rep);
}

/// UMAD rates on a parent of two million genes (aggregated): deletion and addition frequencies
/// against the configured rates, the mean-size law, and an answer in time linear in the genome.
fn umad_long(add: f64, del: f64, len: usize, seed: u64, rep: &mut Report) {
    let cfg = format!("Umad add={add} del={del} len={len} (long genome, aggregated)");
    vh_core::shard::set_context(format!("C12 {cfg}"));
    let mut rng = TraceRng::derive(seed, "C12-umad-long", fnv_str(&cfg));
    let gen = SerialGen::new(0);
    let parent: Vector<UGene> = (0..len as u32).map(UGene::Parent).collect();
    let child = Umad::new(add, del, &gen).mutate(parent, &mut rng).unwrap().genes;
    rep.eval();
    let kept = child.iter().filter(|g| matches!(g, UGene::Parent(_))).count() as u64;
    let fresh = child.len() as u64 - kept;
    let mut t = Table::new(cfg);
    t.cat(rep, "umad-deletion-rate", "parent gene deleted (aggregated)", len as u64, len as u64 - kept, del);
    t.cat(rep, "umad-addition-rate", "new gene present after a parent position (aggregated)", len as u64, fresh, add * (1.0 - del));
    t.finish(rep);
}

fn umad_config(add: f64, del: f64, len: usize, n: u64, seed: u64, rep: &mut Report) {
    // every constructor: the empty-genome rate (of `new_with_empty_rate`) is deliberately far from
    // both other rates, and must not influence what happens to a non-empty parent
    let ctor = (fnv_str(&format!("{add}/{del}/{len}")) ^ seed) % 3;
    let empty_rate = ((add + del) * 0.5 + 0.43) % 1.0;
    let cfg = format!("Umad add={add} del={del} len={len} ctor={}", ["new".to_string(), format!("new_with_empty_rate({empty_rate})"), "new_without_empty".to_string()][ctor as usize]);
    let mut rng = TraceRng::derive(seed, "C12-umad", fnv_str(&cfg));
    let gen = SerialGen::new(0);
    let umad = match ctor {
        0 => Umad::new(add, del, &gen),
        1 => Umad::new_with_empty_rate(add, empty_rate, del, &gen),
        _ => Umad::new_without_empty(add, del, &gen),
    };
    let mut deleted = vec![0u64; len];
    let mut fresh_total = 0u64;
    let mut length_sum = 0u64;
    let mut joint = [0u64; 4]; // len == 1: [neither, parent only, fresh only, both]
    for _ in 0..n {
        rep.eval();
        let parent: Vector<UGene> = (0..len as u32).map(UGene::Parent).collect();
        let child = umad.mutate(parent, &mut rng).unwrap().genes;
        let mut kept = vec![false; len];
        let mut fresh = 0u64;
        for g in &child {
            match g {
                UGene::Parent(p) => kept[*p as usize] = true,
                UGene::Fresh(_) => fresh += 1,
            }
        }
        for i in 0..len {
            if !kept[i] {
                deleted[i] += 1;
            }
        }
        fresh_total += fresh;
        length_sum += child.len() as u64;
        if len == 1 {
            joint[usize::from(kept[0]) + 2 * usize::from(fresh > 0)] += 1;
        }
    }
    let mut t = Table::new(cfg.clone());
    for i in 0..len {
        t.cat(rep, "umad-deletion-rate", &format!("parent gene {i} deleted"), n, deleted[i], del);
    }
    t.cat(rep, "umad-deletion-rate", "parent gene deleted (aggregated)", n * len as u64, deleted.iter().sum(), del);
    // a new gene is added with the addition rate and is itself subject to deletion
    t.cat(rep, "umad-addition-rate", "new gene present after a parent position (aggregated)", n * len as u64, fresh_total, add * (1.0 - del));
    if len == 1 {
        let pa = add * (1.0 - del);
        let pk = 1.0 - del;
        t.cat(rep, "umad-independence", "neither parent gene nor new gene", n, joint[0], (1.0 - pk) * (1.0 - pa));
        t.cat(rep, "umad-independence", "parent gene only", n, joint[1], pk * (1.0 - pa));
        t.cat(rep, "umad-independence", "new gene only", n, joint[2], (1.0 - pk) * pa);
        t.cat(rep, "umad-independence", "parent gene and new gene", n, joint[3], pk * pa);
    }
    // mean child length (Hoeffding on a variable in [0, 2 len])
    if len > 0 {
        let mean = length_sum as f64 / n as f64;
        let want = len as f64 * ((1.0 - del) + add * (1.0 - del));
        let tol = mean_tolerance(n, 2.0 * len as f64, DELTA);
        let ok = (mean - want).abs() <= tol;
        if !ok {
            rep.violation("C12/umad-expected-size", || json!({"config": cfg, "mean_child_length": mean, "expected": want, "tolerance": tol}));
        }
        t.rows.push(json!({"category": "mean child length", "observed": mean, "expected": want, "tolerance": tol, "ok": ok,
                           "size_preserving_setting": (del - add / (1.0 + add)).abs() < 1e-12}));
    }
    t.finish(rep);
}

fn umad_empty_config(ctor: u8, add: f64, empty: f64, n: u64, seed: u64, rep: &mut Report) {
    let cfg = format!("Umad empty parent ctor={} add={add} empty_rate={empty}", ["new", "new_with_empty_rate", "new_without_empty"][ctor as usize]);
    let mut rng = TraceRng::derive(seed, "C12-umad-empty", fnv_str(&cfg));
    let gen = SerialGen::new(0);
    let mut added = 0u64;
    for _ in 0..n {
        rep.eval();
        let parent: Vector<UGene> = Vec::new().into_iter().collect();
        let child = match ctor {
            0 => Umad::new(add, 0.3, &gen).mutate(parent, &mut rng),
            1 => Umad::new_with_empty_rate(add, empty, 0.3, &gen).mutate(parent, &mut rng),
            _ => Umad::new_without_empty(add, 0.3, &gen).mutate(parent, &mut rng),
        }
        .unwrap();
        added += child.genes.len() as u64;
    }
    let p = match ctor {
        0 => add,
        1 => empty,
        _ => 0.0,
    };
    let mut t = Table::new(cfg);
    t.cat(rep, "umad-empty-rate", "a gene was added to the empty genome", n, added, p);
    t.finish(rep);
}

fn uniform_config(flavour: usize, len: usize, n: u64, seed: u64, rep: &mut Report) {
    let names = ["[Vec;2]", "(Vec,Vec)", "[Bitstring;2]", "(Bitstring,Bitstring)"];
    let cfg = format!("UniformXo {} len={len}", names[flavour]);
    let mut rng = TraceRng::derive(seed, "C12-uxo", fnv_str(&cfg));
    let mut first = vec![0u64; len];
    let mut pairs = vec![0u64; len.saturating_sub(1)];
    for _ in 0..n {
        rep.eval();
        let from_first: Vec<bool> = match flavour {
            0 => UniformXo.recombine([vec![0u8; len], vec![1u8; len]], &mut rng).unwrap().iter().map(|x| *x == 0).collect(),
            1 => UniformXo.recombine((vec![0u8; len], vec![1u8; len]), &mut rng).unwrap().iter().map(|x| *x == 0).collect(),
            2 => UniformXo.recombine([Bitstring { bits: vec![false; len] }, Bitstring { bits: vec![true; len] }], &mut rng).unwrap().bits.iter().map(|x| !*x).collect(),
            _ => UniformXo.recombine((Bitstring { bits: vec![false; len] }, Bitstring { bits: vec![true; len] }), &mut rng).unwrap().bits.iter().map(|x| !*x).collect(),
        };
        for i in 0..len {
            if from_first[i] {
                first[i] += 1;
                if i > 0 && from_first[i - 1] {
                    pairs[i - 1] += 1;
                }
            }
        }
    }
    let mut t = Table::new(cfg);
    for i in 0..len {
        t.cat(rep, "uniform-xo-half", &format!("gene {i} from the first parent"), n, first[i], 0.5);
    }
    for i in 0..len.saturating_sub(1) {
        t.cat(rep, "uniform-xo-independence", &format!("genes {i} and {} both from the first parent", i + 1), n, pairs[i], 0.25);
    }
    t.finish(rep);
}

/// Independence at *every* distance, not only between neighbours: for each lag L one pair
/// (i, i+L) per draw (so the trials of a category are independent across draws) must show
/// the joint event with frequency p*p. Catches generators that recycle random bits with
/// some period (e.g. one 64-bit word of coins reused every 64 positions).
pub fn lag_independence(sig: &str, cfg: String, len: usize, p: f64, n: u64, rep: &mut Report, mut draw: impl FnMut() -> Vec<bool>) {
    let mut joint = vec![0u64; len];
    let mut same = vec![0u64; len];
    for d in 0..n {
        rep.eval();
        let ev = draw();
        if ev.len() != len {
            rep.violation(format!("{sig}/length"), || json!({"config": cfg, "length": ev.len()}));
            return;
        }
        for lag in 1..len {
            let i = (d as usize).wrapping_mul(7919) % (len - lag);
            if ev[i] && ev[i + lag] {
                joint[lag] += 1;
            }
            if ev[i] == ev[i + lag] {
                same[lag] += 1;
            }
        }
    }
    let mut t = Table::new(cfg);
    let mut worst: (f64, usize) = (0.0, 0);
    for lag in 1..len {
        let c = check(format!("{}: positions at distance {lag} both selected", t.config), n, joint[lag], p * p);
        let c2 = check(format!("{}: positions at distance {lag} decided alike", t.config), n, same[lag], p * p + (1.0 - p) * (1.0 - p));
        let dev = (joint[lag] as f64 / n as f64 - p * p).abs();
        if dev > worst.0 {
            worst = (dev, lag);
        }
        for c in [c, c2] {
            if !c.ok {
                let cfg = t.config.clone();
                rep.violation(format!("{sig}/positions-not-independent"), || json!({"config": cfg, "distance": lag, "check": c.to_json()}));
            } else if t.rows.len() < 6 {
                t.rows.push(c.to_json());
            }
        }
    }
    t.rows.push(json!({"category": "largest deviation of the joint frequency over all distances", "deviation": worst.0, "at_distance": worst.1, "distances_checked": len - 1}));
    t.finish(rep);
}

pub fn uniform_xo_lags(sig: &str, flavour: usize, len: usize, n: u64, seed: u64, rep: &mut Report) {
    let names = ["[Vec;2]", "(Vec,Vec)", "[Bitstring;2]", "(Bitstring,Bitstring)"];
    let cfg = format!("UniformXo {} len={len}: independence at every distance", names[flavour]);
    let mut rng = TraceRng::derive(seed, "lags-uxo", fnv_str(&cfg));
    lag_independence(sig, cfg, len, 0.5, n, rep, || match flavour {
        0 => UniformXo.recombine([vec![0u8; len], vec![1u8; len]], &mut rng).unwrap().iter().map(|x| *x == 0).collect(),
        1 => UniformXo.recombine((vec![0u8; len], vec![1u8; len]), &mut rng).unwrap().iter().map(|x| *x == 0).collect(),
        2 => UniformXo.recombine([Bitstring { bits: vec![false; len] }, Bitstring { bits: vec![true; len] }], &mut rng).unwrap().bits.iter().map(|x| !*x).collect(),
        _ => UniformXo.recombine((Bitstring { bits: vec![false; len] }, Bitstring { bits: vec![true; len] }), &mut rng).unwrap().bits.iter().map(|x| !*x).collect(),
    });
}

fn flip_lags(kind: usize, len: usize, n: u64, seed: u64, rep: &mut Report) {
    let names = ["WithRate(0.3)/Vec<bool>", "WithRate(0.3)/Bitstring", "Bitstring::random", "Bitstring::random_with_probability(0.3)"];
    let cfg = format!("{} len={len}: independence at every distance", names[kind]);
    let mut rng = TraceRng::derive(seed, "lags-flip", fnv_str(&cfg));
    let p = if kind == 2 { 0.5 } else { 0.3f32 as f64 };
    lag_independence("C12/lag", cfg, len, p, n, rep, || match kind {
        0 => WithRate::new(0.3).mutate(vec![false; len], &mut rng).unwrap(),
        1 => WithRate::new(0.3).mutate(Bitstring { bits: vec![false; len] }, &mut rng).unwrap().bits,
        2 => Bitstring::random(len, &mut rng).bits,
        _ => Bitstring::random_with_probability(len, 0.3, &mut rng).bits,
    });
}

fn bitstring_config(which: usize, p: f64, len: usize, n: u64, seed: u64, rep: &mut Report) {
    let names = ["Bitstring::random", "Bitstring::random_with_probability", "BoolGenerator collection", "BoolGenerator reconfigured through its public field, sampled directly", "BoolGenerator reconfigured through its public field, then collection"];
    let cfg = format!("{} p={p} len={len}", names[which]);
    let mut rng = TraceRng::derive(seed, "C12-bits", fnv_str(&cfg));
    let mut ones = vec![0u64; len];
    let mut pairs = vec![0u64; len.saturating_sub(1)];
    for _ in 0..n {
        rep.eval();
        let bits: Vec<bool> = match which {
            0 => Bitstring::random(len, &mut rng).bits,
            1 => Bitstring::random_with_probability(len, p, &mut rng).bits,
            2 => {
                let b: Bitstring = BoolGenerator::new(p).into_collection_generator(len).sample(&mut rng);
                b.bits
            }
            // the probability is a public field: what counts is its value when a bit is drawn,
            // not the value the generator was constructed with
            3 => {
                let mut g = BoolGenerator::new(1.0 - p);
                let _ = g.sample(&mut rng);
                g.true_probability = p;
                (0..len).map(|_| g.sample(&mut rng)).collect()
            }
            _ => {
                let mut g = BoolGenerator::new((p + 0.37) % 1.0);
                g.true_probability = p;
                let b: Bitstring = g.into_collection_generator(len).sample(&mut rng);
                b.bits
            }
        };
        if bits.len() != len {
            rep.violation("C12/bitstring-length", || json!({"config": cfg, "length": bits.len()}));
            return;
        }
        for i in 0..len {
            if bits[i] {
                ones[i] += 1;
                if i > 0 && bits[i - 1] {
                    pairs[i - 1] += 1;
                }
            }
        }
    }
    let p = if which == 0 { 0.5 } else { p };
    let mut t = Table::new(cfg);
    for i in 0..len {
        t.cat(rep, "bit-probability", &format!("bit {i} set"), n, ones[i], p);
    }
    for i in 0..len.saturating_sub(1) {
        t.cat(rep, "bit-independence", &format!("bits {i} and {} both set", i + 1), n, pairs[i], p * p);
    }
    t.cat(rep, "bit-probability", "bit set (aggregated)", n * len as u64, ones.iter().sum(), p);
    t.finish(rep);
}

/// A deliberately skewed instruction distribution: instruction j with weight j+1.
struct Skewed {
    instrs: Vec<PushInstruction>,
    calls: Cell<u64>,
}

impl Distribution<PushInstruction> for Skewed {
    fn sample<R: Rng + ?Sized>(&self, rng: &mut R) -> PushInstruction {
        self.calls.set(self.calls.get() + 1);
        let total: u32 = (1..=self.instrs.len() as u32).sum();
        let mut r = rng.random_range(0..total);
        for (j, i) in self.instrs.iter().enumerate() {
            let w = j as u32 + 1;
            if r < w {
                return i.clone();
            }
            r -= w;
        }
        unreachable!()
    }
}

/// How the gene generator under test is constructed: every public constructor is a separate
/// code path (owning / borrowing, explicit / default close probability).
const GENE_CTORS: [&str; 6] = [
    "GeneGenerator::new",
    "into_gene_generator_with_close_probability",
    "to_gene_generator_with_close_probability",
    "GeneGenerator::with_uniform_close_probability",
    "into_gene_generator",
    "to_gene_generator",
];

fn gene_config(n_instr: usize, close: Option<f32>, skewed: bool, via_plushy: bool, ctor: usize, n: u64, seed: u64, rep: &mut Report) {
    let cfg = format!("GeneGenerator instructions={n_instr} close={close:?} skewed={skewed} ctor={} via={}", GENE_CTORS[ctor], if via_plushy { "Plushy collection" } else { "direct" });
    let mut rng = TraceRng::derive(seed, "C12-genes", fnv_str(&cfg));
    let instrs: Vec<PushInstruction> = (0..n_instr as i64).map(PushInstruction::push_int).collect();
    let mut closes = 0u64;
    let mut per = vec![0u64; n_instr];
    let mut total = 0u64;
    let mut record = |g: &PushGene, rep: &mut Report| {
        total += 1;
        match g {
            PushGene::Close => closes += 1,
            PushGene::Instruction(PushInstruction::IntInstruction(IntInstruction::Push(v))) if (0..n_instr as i64).contains(&v.0) => per[v.0 as usize] += 1,
            other => rep.violation("C12/gene-not-from-distribution", || json!({"gene": format!("{other:?}")})),
        }
    };
    fn drive<D: Distribution<PushGene>>(gg: D, via_plushy: bool, n: u64, rng: &mut TraceRng, rep: &mut Report, record: &mut dyn FnMut(&PushGene, &mut Report)) {
        if via_plushy {
            let cg = gg.into_collection_generator(16);
            for _ in 0..n / 16 {
                let pl: Plushy = cg.sample(rng);
                for g in pl.get_genes() {
                    rep.eval();
                    record(&g, rep);
                }
            }
        } else {
            for _ in 0..n {
                rep.eval();
                let g: PushGene = gg.sample(rng);
                record(&g, rep);
            }
        }
    }
    let explicit = ctor < 3;
    let c = close.unwrap_or(0.25);
    let p_close = if explicit { f64::from(c) } else { 1.0 / (n_instr as f64 + 1.0) };
    let q: Vec<f64>;
    if skewed {
        let d = Skewed { instrs: instrs.clone(), calls: Cell::new(0) };
        let tot: f64 = (1..=n_instr).map(|x| x as f64).sum();
        q = (0..n_instr).map(|j| (j + 1) as f64 / tot).collect();
        match ctor {
            0 => drive(GeneGenerator::new(c, d), via_plushy, n, &mut rng, rep, &mut record),
            1 => drive(d.into_gene_generator_with_close_probability(c), via_plushy, n, &mut rng, rep, &mut record),
            _ => drive(d.to_gene_generator_with_close_probability(c), via_plushy, n, &mut rng, rep, &mut record),
        }
    } else {
        let d = instrs.clone().into_distribution().expect("non-empty");
        q = vec![1.0 / n_instr as f64; n_instr];
        match ctor {
            0 => drive(GeneGenerator::new(c, d), via_plushy, n, &mut rng, rep, &mut record),
            1 => drive(d.into_gene_generator_with_close_probability(c), via_plushy, n, &mut rng, rep, &mut record),
            2 => drive(d.to_gene_generator_with_close_probability(c), via_plushy, n, &mut rng, rep, &mut record),
            3 => drive(GeneGenerator::with_uniform_close_probability(d), via_plushy, n, &mut rng, rep, &mut record),
            4 => drive(d.into_gene_generator(), via_plushy, n, &mut rng, rep, &mut record),
            _ => drive(d.to_gene_generator(), via_plushy, n, &mut rng, rep, &mut record),
        }
    }
    let mut t = Table::new(cfg);
    t.cat(rep, "gene-close-probability", "gene is a close marker", total, closes, p_close);
    for j in 0..n_instr {
        t.cat(rep, "gene-instruction-distribution", &format!("gene is instruction {j}"), total, per[j], (1.0 - p_close) * q[j]);
    }
    t.finish(rep);
}

/// The default close probability is 1/(n+1) for *any* number n of instructions, also far beyond
/// the handful used above (an instruction set enumerated from a large table): close frequency
/// against 1/(n+1), every other gene an instruction of the set, lower / upper half evenly.
fn gene_config_large(n_instr: usize, ctor: usize, n: u64, seed: u64, rep: &mut Report) {
    let cfg = format!("GeneGenerator instructions={n_instr} default close probability ctor={}", GENE_CTORS[ctor]);
    let mut rng = TraceRng::derive(seed, "C12-genes-large", fnv_str(&cfg));
    let instrs: Vec<PushInstruction> = (0..n_instr as i64).map(PushInstruction::push_int).collect();
    let d = instrs.into_distribution().expect("non-empty");
    let (mut closes, mut lower, mut total) = (0u64, 0u64, 0u64);
    let mut record = |g: PushGene, rep: &mut Report| {
        total += 1;
        match g {
            PushGene::Close => closes += 1,
            PushGene::Instruction(PushInstruction::IntInstruction(IntInstruction::Push(v))) if (0..n_instr as i64).contains(&v.0) => {
                if (v.0 as usize) < n_instr / 2 {
                    lower += 1;
                }
            }
            other => rep.violation("C12/gene-not-from-distribution", || json!({"gene": format!("{other:?}")})),
        }
    };
    macro_rules! drive {
        ($gg:expr) => {{
            let gg = $gg;
            for k in 0..n {
                let g: PushGene = gg.sample(&mut rng);
                record(g, rep);
                if k % (1 << 20) == (1 << 20) - 1 {
                    rep.evals(1 << 20);
                }
            }
            rep.evals(n % (1 << 20));
        }};
    }
    match ctor {
        3 => drive!(GeneGenerator::with_uniform_close_probability(d)),
        4 => drive!(d.into_gene_generator()),
        _ => drive!(d.to_gene_generator()),
    }
    let p_close = 1.0 / (n_instr as f64 + 1.0);
    let mut t = Table::new(cfg);
    t.cat(rep, "gene-close-probability", "gene is a close marker", total, closes, p_close);
    t.cat(rep, "gene-instruction-distribution", "gene is an instruction from the lower half of the set", total, lower, (1.0 - p_close) * ((n_instr / 2) as f64 / n_instr as f64));
    t.finish(rep);
}

enum Cfg {
    Flip(&'static str, Option<f32>, usize),
    Umad(f64, f64, usize),
    UmadEmpty(u8, f64, f64),
    Uniform(usize, usize),
    Bits(usize, f64, usize),
    Gene(usize, Option<f32>, bool, bool, usize),
    GeneLarge(usize, usize),
    OneOverLong(&'static str, usize, u64),
    RateLong(&'static str, f32, usize),
    UmadLong(f64, f64, usize),
    UniformLags(usize, usize),
    FlipLags(usize, usize),
}

pub fn run(args: &Args) -> i32 {
    let n = args.tier.pick(2_000_000u64, 40_000_000u64);
    let mut cfgs: Vec<Cfg> = Vec::new();
    for kind in ["WithRate/Vec<bool>", "WithRate/Bitstring"] {
        for rate in [0.0f32, 0.01, 0.1, 0.3, 0.5, 0.9, 1.0] {
            for len in [1usize, 2, 8, 64] {
                cfgs.push(Cfg::Flip(kind, Some(rate), len));
            }
        }
    }
    // rates at the small end of the range: positive but below the resolution of an f32 next to 1
    // (2^-24, 2^-25), and far smaller; a rate that small means "practically never", not "always"
    for kind in ["WithRate/Vec<bool>", "WithRate/Bitstring"] {
        for rate in [1e-3f32, 1e-5, 1e-7, 5.960_464_5e-8, 2.980_232_2e-8, 1e-9, 1e-20, f32::MIN_POSITIVE] {
            cfgs.push(Cfg::Flip(kind, Some(rate), 64));
        }
    }
    for kind in ["WithOneOverLength/Vec<bool>", "WithOneOverLength/Bitstring"] {
        for len in [1usize, 2, 3, 8, 20, 64] {
            cfgs.push(Cfg::Flip(kind, None, len));
        }
    }
    for (a, d) in [(0.0, 0.0), (0.1, 0.0), (0.0, 0.1), (0.3, 0.3), (0.5, 0.5), (1.0, 0.0), (0.0, 1.0), (1.0, 1.0), (0.9, 0.2), (0.09, 0.09 / 1.09), (0.5, 1.0 / 3.0), (1.0, 0.5)] {
        for len in [1usize, 2, 10, 40] {
            cfgs.push(Cfg::Umad(a, d, len));
        }
    }
    for ctor in 0..3u8 {
        for add in [0.0, 0.2, 1.0] {
            for empty in [0.0, 0.7, 1.0] {
                if ctor == 1 || empty == 0.0 {
                    cfgs.push(Cfg::UmadEmpty(ctor, add, empty));
                }
            }
        }
    }
    for fl in 0..4 {
        for len in [1usize, 2, 8, 32] {
            cfgs.push(Cfg::Uniform(fl, len));
        }
    }
    for len in [1usize, 8, 64] {
        cfgs.push(Cfg::Bits(0, 0.5, len));
        for p in [0.0, 0.05, 0.5, 0.8, 1.0] {
            cfgs.push(Cfg::Bits(1, p, len));
            cfgs.push(Cfg::Bits(2, p, len));
            cfgs.push(Cfg::Bits(3, p, len));
            cfgs.push(Cfg::Bits(4, p, len));
        }
    }
    // longer strings: a generator / mutator that works word-wise or block-wise may treat the
    // positions beyond the first word (or the last, partial word) differently
    for len in [100usize, 200, 1000] {
        cfgs.push(Cfg::Bits(0, 0.5, len));
        cfgs.push(Cfg::Bits(1, 0.3, len));
        cfgs.push(Cfg::Bits(2, 0.3, len));
        cfgs.push(Cfg::Flip("WithRate/Vec<bool>", Some(0.3), len));
        cfgs.push(Cfg::Flip("WithRate/Bitstring", Some(0.3), len));
        cfgs.push(Cfg::Flip("WithOneOverLength/Bitstring", None, len));
        for fl in 0..4 {
            cfgs.push(Cfg::Uniform(fl, len));
        }
    }
    for kind in ["WithOneOverLength/Vec<bool>", "WithOneOverLength/Bitstring"] {
        // (length, mutations): enough mutations to resolve a rate that is ~4 % off
        for (len, muts) in [(3_000usize, 60_000u64), (6_000, 20_000), (11_000, 12_000), (70_000, 2_500)] {
            cfgs.push(Cfg::OneOverLong(kind, len, muts));
        }
    }
    for (a, d) in [(0.3f64, 0.3f64), (0.1, 1.0 / 11.0), (1.0, 0.5)] {
        cfgs.push(Cfg::UmadLong(a, d, 2_000_000));
    }
    for kind in ["WithRate/Vec<bool>", "WithRate/Bitstring"] {
        for (rate, len) in [(0.5f32, 1usize << 22), (1.0, 1 << 22), (0.01, 6_000_000)] {
            cfgs.push(Cfg::RateLong(kind, rate, len));
        }
    }
    for fl in 0..4 {
        for len in [70usize, 130] {
            cfgs.push(Cfg::UniformLags(fl, len));
        }
    }
    for kind in 0..4 {
        cfgs.push(Cfg::FlipLags(kind, 130));
    }
    // default close probability 1/(n+1): every default-probability constructor x n = 1..8 (+ larger sets)
    for ctor in 3..6usize {
        for n_instr in [1usize, 2, 3, 4, 5, 6, 7, 8, 15, 16, 31] {
            cfgs.push(Cfg::Gene(n_instr, None, false, n_instr == 3, ctor));
        }
        for big in [200_000usize, (1 << 20) - 1] {
            cfgs.push(Cfg::GeneLarge(big, ctor));
        }
    }
    // explicit close probability: every explicit constructor, uniform and skewed instruction distributions
    for ctor in 0..3usize {
        for c in [0.0f32, 0.1, 0.5, 1.0] {
            cfgs.push(Cfg::Gene(4, Some(c), false, false, ctor));
            cfgs.push(Cfg::Gene(5, Some(c), true, false, ctor));
            cfgs.push(Cfg::Gene(3, Some(c), false, true, ctor));
        }
        cfgs.push(Cfg::Gene(2, Some(0.37), true, true, ctor));
    }
    let mut rep = run_shards(cfgs.len(), args.threads, 16 << 20, |i| {
        let mut rep = Report::new();
        match &cfgs[i] {
            Cfg::Flip(kind, rate, len) => flip_config(kind, *rate, *len, n / (*len as u64).clamp(1, 8) / (*len as u64 / 64).max(1), args.seed, &mut rep),
            Cfg::Umad(a, d, len) => umad_config(*a, *d, *len, n / (*len as u64).clamp(1, 8), args.seed, &mut rep),
            Cfg::UmadEmpty(c, a, e) => umad_empty_config(*c, *a, *e, n, args.seed, &mut rep),
            Cfg::Uniform(fl, len) => uniform_config(*fl, *len, n / (*len as u64).clamp(1, 8) / (*len as u64 / 64).max(1), args.seed, &mut rep),
            Cfg::Bits(w, p, len) => bitstring_config(*w, *p, *len, n / (*len as u64).clamp(1, 8) / (*len as u64 / 64).max(1), args.seed, &mut rep),
            Cfg::UmadLong(a, d, len) => umad_long(*a, *d, *len, args.seed, &mut rep),
            Cfg::RateLong(kind, rate, len) => with_rate_long(kind, *rate, *len, 2, args.seed, &mut rep),
            Cfg::OneOverLong(kind, len, muts) => one_over_length_long(kind, *len, *muts * args.tier.pick(1, 8), args.seed, &mut rep),
            Cfg::GeneLarge(k, ctor) => gene_config_large(*k, *ctor, n * 8, args.seed, &mut rep),
            Cfg::Gene(k, c, s, v, ctor) => gene_config(*k, *c, *s, *v, *ctor, n / 2, args.seed, &mut rep),
            Cfg::UniformLags(fl, len) => uniform_xo_lags("C12/uniform-xo", *fl, *len, n / 10, args.seed, &mut rep),
            Cfg::FlipLags(kind, len) => flip_lags(*kind, *len, n / 10, args.seed, &mut rep),
        }
        rep
    });
    rep.table("statistical_monitor", json!({
        "samples_per_configuration_before_length_scaling": n,
        "per_category_false_alarm_bound": DELTA,
        "resolution_at_p_half_for_n": vh_core::stats::resolution(n, 0.5),
        "configurations": cfgs.len(),
    }));
    rep.finish(
        args,
        "exploration",
        "rate grid incl. 0 and 1 (exact) x genome lengths 1..64 (plus 100, 200, 1000 for a subset) x the stated number of seeded samples per configuration for bit-flip mutators (Vec<bool>, Bitstring), UMAD (tagged Vector; three constructors on the empty genome), uniform crossover (four flavours), Bitstring::random / random_with_probability / BoolGenerator, GeneGenerator (all six public constructors, owning and borrowing; 1..31 instructions default close probability; explicit close probabilities; uniform and skewed instruction distributions; direct and through a Plushy collection generator). distinct_nontrivial = distinct configurations",
        false,
        &[
            "a bias below the stated resolution is invisible to this monitor",
            "rates are f32 in the bit-flip mutators; the conversion error (< 1e-7) is far below the resolution",
        ],
    )
}
