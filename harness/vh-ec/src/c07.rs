//! C07 — best, worst and tournament selection apply the intended selection pressure.
//!
//! Oracles: (1) Best/Worst: the result is maximal / minimal under `cmp` (ties: any);
//! (2) the exact winner law of "draw a uniformly random k-subset, return its best":
//!     P(winner value = v) = [C(#<=v, k) - C(#<v, k)] / C(n, k), checked within
//!     non-asymptotic Bernstein intervals (1e-10 per category), plus exact per-draw
//!     facts (winner at least as good as k-1 others; k = n => a best member; k = 1 =>
//!     uniform over *individuals*);
//! (3) subset monitor through a logging `Ord`: when the set D of individuals that took
//!     part in comparisons has exactly k members, D must be uniform over the C(n,k)
//!     subsets and the winner maximal in D. When an implementation compares differently
//!     the instrument is reported not applicable and (2) alone decides.

use std::{cell::RefCell, cmp::Ordering, collections::BTreeMap, num::NonZeroUsize};

use ec_core::operator::selector::{best::Best, tournament::Tournament, worst::Worst, Selector};
use vh_core::{
    catch, fnv_str, json, mix,
    shard::run_shards,
    stats::{binom, check},
    Args, Report, TraceRng, Xo,
};

thread_local! {
    static CMP_LOG: RefCell<Vec<u32>> = const { RefCell::new(Vec::new()) };
}

/// Individual whose comparison is logged: tournament selection compares exactly the
/// individuals it drew, so the log exposes the drawn subset itself.
#[derive(Debug, Clone)]
pub struct LInd {
    pub id: u32,
    pub val: i64,
}

impl PartialEq for LInd {
    fn eq(&self, other: &Self) -> bool {
        self.val == other.val
    }
}
impl Eq for LInd {}
impl PartialOrd for LInd {
    fn partial_cmp(&self, other: &Self) -> Option<Ordering> {
        Some(self.cmp(other))
    }
}
impl Ord for LInd {
    fn cmp(&self, other: &Self) -> Ordering {
        CMP_LOG.with(|l| {
            let mut l = l.borrow_mut();
            l.push(self.id);
            l.push(other.id);
        });
        self.val.cmp(&other.val)
    }
}

fn take_cmp_log() -> Vec<u32> {
    CMP_LOG.with(|l| std::mem::take(&mut *l.borrow_mut()))
}

fn best_worst(seed: u64, shard: usize, rounds: usize, rep: &mut Report) {
    for r in 0..rounds {
        let mut g = Xo::derive(seed, "C07-bw", (shard * 1_000_003 + r) as u64);
        let n = 1 + g.usize_below(12);
        let spread = *g.pick(&[1i64, 2, 5, 1000]);
        let pop: Vec<LInd> = (0..n)
            .map(|id| LInd { id: id as u32, val: g.range(-spread, spread) })
            .collect();
        let max = pop.iter().map(|i| i.val).max().unwrap();
        let min = pop.iter().map(|i| i.val).min().unwrap();
        let mut rng = TraceRng::new(g.next());
        for (name, want) in [("Best", max), ("Worst", min)] {
            rep.eval();
            rep.distinct(mix(fnv_str(name), fnv_str(&format!("{:?}", pop.iter().map(|i| i.val).collect::<Vec<_>>()))));
            let got = catch(|| match name {
                "Best" => Best.select(&pop, &mut rng).map(|i| i.val),
                _ => Worst.select(&pop, &mut rng).map(|i| i.val),
            });
            match got {
                Ok(Ok(v)) if v == want => rep.count(&format!("{name}:ok")),
                other => rep.violation(format!("C07/{name}/not-extremal"), || {
                    json!({"population_values": pop.iter().map(|i| i.val).collect::<Vec<_>>(), "expected_value": want, "observed": format!("{other:?}")})
                }),
            }
        }
        take_cmp_log();
    }
}

/// The same clauses on the library's own individual type, with *repeated genomes* carrying
/// different results (re-scored or noisy individuals): ordering must follow the results.
fn ec_individuals(seed: u64, shard: usize, rounds: usize, rep: &mut Report) {
    use crate::common::ind_s;
    for r in 0..rounds {
        let mut g = Xo::derive(seed, "C07-ec", (shard * 1_000_003 + r) as u64);
        let n = 1 + g.usize_below(8);
        let genomes = 1 + g.usize_below(3);
        // result vectors of different lengths within one population: ordering follows the totals
        let uneven = g.chance(1, 2);
        let pop: Vec<_> = (0..n)
            .map(|_| {
                let len = if uneven { g.usize_below(5) } else { 2 };
                ind_s(g.below(genomes as u64) as u32, &(0..len).map(|_| g.range(-3, 3)).collect::<Vec<_>>())
            })
            .collect();
        let total = |i: &crate::common::IndS| i.test_results.total_result.0;
        let max = pop.iter().map(total).max().unwrap();
        let min = pop.iter().map(total).min().unwrap();
        let mut rng = TraceRng::new(g.next());
        rep.eval();
        rep.distinct(mix(fnv_str("ec"), fnv_str(&format!("{:?}", pop.iter().map(|i| (i.genome, total(i))).collect::<Vec<_>>()))));
        let show = |pop: &Vec<crate::common::IndS>| pop.iter().map(|i| json!({"genome": i.genome, "total": i.test_results.total_result.0})).collect::<Vec<_>>();
        match catch(|| Best.select(&pop, &mut rng).map(total)) {
            Ok(Ok(v)) if v == max => rep.count("EcIndividual/Best:ok"),
            other => rep.violation("C07/Best/not-extremal", || json!({"population": show(&pop), "expected_total": max, "observed": format!("{other:?}")})),
        }
        match catch(|| Worst.select(&pop, &mut rng).map(total)) {
            Ok(Ok(v)) if v == min => rep.count("EcIndividual/Worst:ok"),
            other => rep.violation("C07/Worst/not-extremal", || json!({"population": show(&pop), "expected_total": min, "observed": format!("{other:?}")})),
        }
        // whole-population tournament = best selection; any tournament: winner at least as
        // good as k-1 others
        for k in 1..=n {
            let sel = Tournament::new(NonZeroUsize::new(k).unwrap());
            for _ in 0..4 {
                rep.eval();
                match catch(|| sel.select(&pop, &mut rng).map(total)) {
                    Ok(Ok(v)) => {
                        let le = pop.iter().filter(|i| total(i) <= v).count();
                        if le < k || (k == n && v != max) {
                            rep.violation("C07/Tournament/winner-among-the-k-1-worst", || json!({"population": show(&pop), "tournament_size": k, "winner_total": v}));
                        }
                    }
                    other => rep.violation("C07/Tournament/failed", || json!({"population": show(&pop), "tournament_size": k, "observed": format!("{other:?}")})),
                }
            }
        }
    }
}

fn patterns(n: usize) -> Vec<(&'static str, Vec<i64>)> {
    let mut v = vec![("distinct", (0..n as i64).map(|x| (x * 7 + 3) % n as i64).collect::<Vec<_>>())];
    if n >= 2 {
        v.push(("ties", (0..n as i64).map(|x| x / 2).collect()));
        v.push(("all-equal", vec![5; n]));
    }
    if n >= 4 {
        v.push(("one-best-many-worst", (0..n as i64).map(|x| i64::from(x == 2)).collect()));
    }
    v
}

/// A tournament of size `k` through every constructor the library offers (chosen by the
/// configuration, so each is used throughout): `new`, `of_size::<K>()`, `binary()`.
fn make_tournament(k: usize, variant: usize) -> (Tournament, &'static str) {
    let by_new = (Tournament::new(NonZeroUsize::new(k).unwrap()), "Tournament::new");
    if variant % 2 == 0 {
        return by_new;
    }
    match k {
        1 => (Tournament::of_size::<1>(), "Tournament::of_size::<1>"),
        2 if variant % 4 == 1 => (Tournament::binary(), "Tournament::binary"),
        2 => (Tournament::of_size::<2>(), "Tournament::of_size::<2>"),
        3 => (Tournament::of_size::<3>(), "Tournament::of_size::<3>"),
        4 => (Tournament::of_size::<4>(), "Tournament::of_size::<4>"),
        5 => (Tournament::of_size::<5>(), "Tournament::of_size::<5>"),
        6 => (Tournament::of_size::<6>(), "Tournament::of_size::<6>"),
        7 => (Tournament::of_size::<7>(), "Tournament::of_size::<7>"),
        8 => (Tournament::of_size::<8>(), "Tournament::of_size::<8>"),
        9 => (Tournament::of_size::<9>(), "Tournament::of_size::<9>"),
        10 => (Tournament::of_size::<10>(), "Tournament::of_size::<10>"),
        16 => (Tournament::of_size::<16>(), "Tournament::of_size::<16>"),
        _ => by_new,
    }
}

fn tournament_config(n: usize, k: usize, pname: &str, vals: &[i64], draws: u64, seed: u64, rep: &mut Report) {
    let pop: Vec<LInd> = vals.iter().enumerate().map(|(id, v)| LInd { id: id as u32, val: *v }).collect();
    let (sel, ctor) = make_tournament(k, n + fnv_str(pname) as usize % 4);
    rep.count(&format!("constructor:{ctor}"));
    let mut rng = TraceRng::derive(seed, "C07-tournament", mix(n as u64, mix(k as u64, fnv_str(pname))));
    let mut wins = vec![0u64; n];
    let mut subsets: BTreeMap<u128, u64> = BTreeMap::new();
    // large populations: inclusion counts of individuals and of pairs instead of whole subsets
    let big = n > 12;
    let mut incl = vec![0u64; n];
    let mut pair_incl = vec![0u64; if big { n * n } else { 0 }];
    let mut subset_applicable = k >= 2;
    let max_val = *vals.iter().max().unwrap();
    let cfg = format!("n={n} k={k} {pname} via {ctor}");
    // exact per-draw facts also under hostile streams (all zeros / all ones / alternating ...)
    for mut hr in TraceRng::hostile_variants((n * 131 + k) as u64) {
        for _ in 0..4 {
            take_cmp_log();
            let r = catch(|| sel.select(&pop, &mut hr).map(|w| w.id as usize));
            take_cmp_log();
            rep.eval();
            match r {
                Ok(Ok(w)) if vals.iter().filter(|v| **v <= vals[w]).count() >= k && (k < n || vals[w] == max_val) => {}
                other => {
                    rep.violation("C07/Tournament/extreme-stream", || json!({"config": cfg, "values": vals, "observed": format!("{other:?}"), "meaning": "under an extreme random stream the winner is among the k-1 worst, not a best member for k = n, or selection failed"}));
                    return;
                }
            }
        }
    }
    for d in 0..draws {
        take_cmp_log();
        let r = catch(|| sel.select(&pop, &mut rng).map(|w| w.id as usize));
        let log = take_cmp_log();
        rep.eval();
        let w = match r {
            Ok(Ok(w)) => w,
            other => {
                rep.violation("C07/Tournament/failed", || json!({"config": cfg, "values": vals, "draw": d, "observed": format!("{other:?}")}));
                return;
            }
        };
        wins[w] += 1;
        // exact per-draw facts
        let le = vals.iter().filter(|v| **v <= vals[w]).count();
        if le < k {
            rep.violation("C07/Tournament/winner-among-the-k-1-worst", || {
                json!({"config": cfg, "values": vals, "winner_index": w, "winner_value": vals[w], "individuals_not_better_than_winner": le, "tournament_size": k})
            });
            return;
        }
        if k == n && vals[w] != max_val {
            rep.violation("C07/Tournament/whole-population-not-best", || json!({"config": cfg, "values": vals, "winner_index": w}));
            return;
        }
        if subset_applicable {
            let mut mask = 0u128;
            for id in &log {
                mask |= 1 << id;
            }
            if mask.count_ones() as usize != k {
                subset_applicable = false; // implementation compares differently: instrument N/A
            } else {
                if big {
                    let members: Vec<usize> = (0..n).filter(|i| mask & (1 << i) != 0).collect();
                    for (x, a) in members.iter().enumerate() {
                        incl[*a] += 1;
                        for b in &members[x + 1..] {
                            pair_incl[a * n + b] += 1;
                        }
                    }
                } else {
                    *subsets.entry(mask).or_insert(0) += 1;
                }
                if mask & (1 << w) == 0 {
                    rep.violation("C07/Tournament/winner-not-in-drawn-subset", || json!({"config": cfg, "values": vals, "winner_index": w, "compared_ids": log}));
                    return;
                }
                let best_in_d = (0..n).filter(|i| mask & (1u128 << i) != 0).map(|i| vals[i]).max().unwrap();
                if vals[w] != best_in_d {
                    rep.violation("C07/Tournament/not-best-of-drawn-subset", || {
                        json!({"config": cfg, "values": vals, "winner_index": w, "drawn_subset": (0..n).filter(|i| mask & (1 << i) != 0).collect::<Vec<_>>()})
                    });
                    return;
                }
            }
        }
    }
    rep.distinct(fnv_str(&cfg));
    // law over value classes
    let total = binom(n as u64, k as u64);
    let mut classes: Vec<i64> = vals.to_vec();
    classes.sort_unstable();
    classes.dedup();
    let mut rows = Vec::new();
    for v in &classes {
        let le = vals.iter().filter(|x| *x <= v).count() as u64;
        let lt = vals.iter().filter(|x| *x < v).count() as u64;
        let p = (binom(le, k as u64) - binom(lt, k as u64)) / total;
        let count: u64 = (0..n).filter(|i| vals[*i] == *v).map(|i| wins[i]).sum();
        let c = check(format!("{cfg}: winner value = {v}"), draws, count, p);
        if !c.ok {
            rep.violation("C07/Tournament/rank-law", || json!({"config": cfg, "values": vals, "check": c.to_json(), "wins_per_individual": wins}));
        }
        rows.push(c.to_json());
    }
    if k == 1 {
        for i in 0..n {
            let c = check(format!("{cfg}: individual {i} chosen"), draws, wins[i], 1.0 / n as f64);
            if !c.ok {
                rep.violation("C07/Tournament/size-1-not-uniform", || json!({"config": cfg, "check": c.to_json(), "wins_per_individual": wins}));
            }
            rows.push(c.to_json());
        }
    }
    let mut subset_note = json!("not applicable (k = 1 or the implementation's comparison pattern does not expose exactly k individuals)");
    if subset_applicable && k >= 2 && big {
        // a uniformly random k-subset contains individual i with probability k/n and the pair
        // {i, j} with probability k(k-1)/(n(n-1)) - for every i and every pair
        let p1 = k as f64 / n as f64;
        let p2 = (k * (k - 1)) as f64 / (n * (n - 1)) as f64;
        let mut worst = 0.0f64;
        for i in 0..n {
            let c = check(format!("{cfg}: individual {i} takes part"), draws, incl[i], p1);
            worst = worst.max((incl[i] as f64 - draws as f64 * p1).abs() / c.tol.max(1.0));
            if !c.ok {
                rep.violation("C07/Tournament/subsets-not-uniform", || json!({"config": cfg, "what": "inclusion frequency of one individual", "check": c.to_json()}));
            }
            for j in i + 1..n {
                let c = check(format!("{cfg}: individuals {i} and {j} take part together"), draws, pair_incl[i * n + j], p2);
                worst = worst.max((pair_incl[i * n + j] as f64 - draws as f64 * p2).abs() / c.tol.max(1.0));
                if !c.ok {
                    rep.violation("C07/Tournament/subsets-not-uniform", || json!({"config": cfg, "what": "joint inclusion frequency of a pair", "check": c.to_json()}));
                }
            }
        }
        subset_note = json!({"instrument": "inclusion of every individual and every pair", "categories": n + n * (n - 1) / 2, "max_deviation_over_tolerance": worst});
        rep.count("subset-monitor:applicable(pairs)");
    } else if subset_applicable && k >= 2 {
        let p = 1.0 / total;
        let mut worst = 0.0f64;
        // every k-subset is a category, including those never seen
        let mut seen = 0usize;
        for mask in 0u128..(1 << n) {
            if mask.count_ones() as usize != k {
                continue;
            }
            let count = subsets.get(&mask).copied().unwrap_or(0);
            if count > 0 {
                seen += 1;
            }
            let c = check(format!("{cfg}: subset {mask:#b}"), draws, count, p);
            worst = worst.max((count as f64 - draws as f64 * p).abs() / c.tol.max(1.0));
            if !c.ok {
                rep.violation("C07/Tournament/subsets-not-uniform", || json!({"config": cfg, "check": c.to_json()}));
            }
        }
        subset_note = json!({"distinct_subsets_seen": seen, "of": total, "max_deviation_over_tolerance": worst});
        rep.count("subset-monitor:applicable");
    } else if k >= 2 {
        rep.count("subset-monitor:not-applicable");
    }
    if rep.wants_sample() && n >= 4 && k >= 2 && k < n {
        rep.sample(|| json!({"kind": "tournament configuration", "config": cfg, "values_by_individual": vals, "draws": draws, "wins_per_individual": wins}));
    }
    rep.table_push("frequency_tables", json!({"config": cfg, "draws": draws, "value_classes": rows, "subset_monitor": subset_note}));
}

/// Large populations with tournaments that take most of them (k = n-1, 0.9 n, n/2 + 1) as well as
/// a few (1, 2, 7) or all: the winner beats at least k-1 others - with k = n-1 it is the best or
/// the second best - and the selection answers in time that does not grow with the square of n.
fn large_populations(seed: u64, rep: &mut Report) {
    for n in [5_000usize, 500_000] {
        let mut g = Xo::derive(seed, "C07-large", n as u64);
        // distinct values in a scrambled order
        let mut vals: Vec<u64> = (0..n as u64).collect();
        for i in (1..n).rev() {
            vals.swap(i, g.usize_below(i + 1));
        }
        for k in [1usize, 2, 7, n / 2 + 1, n - n / 10, n - 1, n] {
            vh_core::shard::set_context(format!("C07 tournament of size {k} on a population of {n} distinct values"));
            let t = Tournament::new(NonZeroUsize::new(k).unwrap());
            let mut rng = TraceRng::new(mix(seed, (n * 31 + k) as u64));
            for _ in 0..2 {
                let r = catch(|| t.select(&vals, &mut rng).map(|w| *w).map_err(|e| format!("{e:?}")));
                rep.eval();
                rep.count("large-population-tournaments");
                // distinct values 0..n: the value is the number of members it beats
                match r {
                    Ok(Ok(w)) if w as usize + 1 >= k => {}
                    other => rep.violation("C07/Tournament/winner-among-the-k-1-worst", || json!({"population": format!("{n} distinct values"), "tournament_size": k, "observed": format!("{other:?}"), "meaning": "the winner of a tournament of k distinct members beats at least k-1 members of the population"})),
                }
            }
            rep.distinct(fnv_str(&format!("large{n}-{k}")));
        }
    }
}

pub fn run(args: &Args) -> i32 {
    let draws = args.tier.pick(1_000_000u64, 20_000_000u64);
    let mut configs = Vec::new();
    for n in 1..=7usize {
        for k in 1..=n {
            for (pname, vals) in patterns(n) {
                configs.push((n, k, pname, vals));
            }
        }
    }
    // larger populations: sampling code may switch strategy with k or n (rejection sampling,
    // partial shuffles, fixed-size index buffers, cyclic windows)
    for n in [10usize, 13, 16, 20, 33, 64, 81, 100] {
        let mut ks = vec![1, 2, 3, 5, 7, 8, 9, 10, 11, 16, 17, 32, n / 2, n - 2, n - 1, n];
        ks.retain(|k| *k >= 1 && *k <= n);
        ks.sort_unstable();
        ks.dedup();
        for k in ks {
            for (pname, vals) in patterns(n).into_iter().filter(|(p, _)| *p == "distinct" || *p == "ties") {
                configs.push((n, k, pname, vals));
            }
        }
    }
    let mut rep = run_shards(configs.len(), args.threads, 16 << 20, |i| {
        let mut rep = Report::new();
        let (n, k, pname, vals) = &configs[i];
        let draws = if *n > 12 { draws / 4 } else { draws };
        tournament_config(*n, *k, pname, vals, draws, args.seed, &mut rep);
        rep
    });
    let bw_rounds = args.tier.pick(20_000usize, 400_000usize);
    let bw = run_shards(16, args.threads, 16 << 20, |s| {
        let mut rep = Report::new();
        best_worst(args.seed, s, bw_rounds / 16, &mut rep);
        ec_individuals(args.seed, s, bw_rounds / 16, &mut rep);
        rep
    });
    rep.merge(bw);
    large_populations(args.seed, &mut rep);
    rep.table("statistical_monitor", json!({
        "draws_per_configuration": draws,
        "per_category_false_alarm_bound": vh_core::stats::DELTA,
        "resolution_at_p_half": vh_core::stats::resolution(draws, 0.5),
        "configurations": configs.len(),
    }));
    rep.finish(
        args,
        "exploration",
        "populations n = 1..7 x every tournament size k = 1..n, and n in {10,13,16,20,33,64,81,100} x k in {1,2,3,5,7,8,9,10,11,16,17,32,n/2,n-2,n-1,n} (inclusion of every individual and pair instead of whole subsets), x value patterns (distinct, ties, all equal, one best) with the stated number of seeded draws each; Best/Worst on random populations of 1..12 with ties. distinct_nontrivial = distinct (n, k, pattern) configurations + distinct Best/Worst populations",
        false,
        &[
            "distributional claims are decided up to the stated resolution; the acceptance region is a Bernstein bound with 1e-10 per category, valid for any correct sampler",
            "with ties any of the tied best individuals may be returned (value classes are judged)",
        ],
    )
}
