//! C15 — scores, errors and individuals are ordered and aggregated consistently.
//!
//! Oracle: an order-law checker run exhaustively over a boundary value pool (all pairs and
//! triples): reflexivity, antisymmetry, transitivity, agreement of `cmp`, `partial_cmp`,
//! `<`, `<=`, `>`, `>=`, `==`, `!=`, `max`, `min`; `Score` ascending, `Error` exactly
//! reversed; a score is never comparable to an error. `TestResults` / `EcIndividual`
//! compare exactly as their total results do; the total equals the sum of the per-case
//! results kept in the order given (through `From<IntoIterator>` and `FromIterator`);
//! an individual created by scoring carries the genome produced and the scorer's result
//! for exactly that genome (recording scorer, identity by serial number).

use std::{cell::RefCell, cmp::Ordering};

use ec_core::{
    individual::{
        ec::{EcIndividual, IndividualGenerator, WithScorer},
        scorer::Scorer,
    },
    operator::{genome_scorer::GenomeScorer, Operator},
    test_results::{Error, Score, TestResult, TestResults},
};
use rand::{distr::Distribution, Rng, RngCore};
use vh_core::{catch, fnv_str, json, mix, Args, Report, TraceRng, Xo};

const POOL: [i64; 10] = [i64::MIN, i64::MIN + 1, -1, 0, 1, i64::MAX - 1, i64::MAX, 0, i64::MAX, 7];

/// All comparison observations of a pair, as one record.
#[derive(Debug, PartialEq, Clone)]
struct Cmp {
    partial: Option<Ordering>,
    lt: bool,
    le: bool,
    gt: bool,
    ge: bool,
}

fn observe<T: PartialOrd>(a: &T, b: &T) -> Cmp {
    Cmp { partial: a.partial_cmp(b), lt: a < b, le: a <= b, gt: a > b, ge: a >= b }
}

fn expected(o: Option<Ordering>) -> Cmp {
    Cmp {
        partial: o,
        lt: o == Some(Ordering::Less),
        le: matches!(o, Some(Ordering::Less | Ordering::Equal)),
        gt: o == Some(Ordering::Greater),
        ge: matches!(o, Some(Ordering::Greater | Ordering::Equal)),
    }
}

/// Laws of a total order on `T` built from pool values; `want(a, b)` is the ordering the
/// statement prescribes for the underlying values.
fn total_order_laws<T: Ord + Clone + std::fmt::Debug>(name: &str, mk: impl Fn(i64) -> T, want: impl Fn(i64, i64) -> Ordering, eq_expected: bool, rep: &mut Report) {
    for &a in &POOL {
        for &b in &POOL {
            let (x, y) = (mk(a), mk(b));
            rep.eval();
            rep.distinct(mix(fnv_str(name), mix(a as u64, b as u64)));
            let c = x.cmp(&y);
            let bad = |what: &str, rep: &mut Report| {
                rep.violation(format!("C15/{name}/{what}"), || json!({"a": a, "b": b, "cmp": format!("{c:?}"), "observed": format!("{:?}", observe(&x, &y))}));
            };
            if c != want(a, b) {
                bad("direction", rep);
            }
            if observe(&x, &y) != expected(Some(c)) {
                bad("operators-disagree-with-cmp", rep);
            }
            if y.cmp(&x) != c.reverse() {
                bad("antisymmetry", rep);
            }
            if a == b && c != Ordering::Equal {
                bad("reflexivity", rep);
            }
            let mx = x.clone().max(y.clone());
            let mn = x.clone().min(y.clone());
            if mx.cmp(&x) == Ordering::Less || mx.cmp(&y) == Ordering::Less || mn.cmp(&x) == Ordering::Greater || mn.cmp(&y) == Ordering::Greater {
                bad("max-min", rep);
            }
            if eq_expected {
                // for the plain wrappers equality agrees with the ordering
                let _ = &mx;
            }
            for &d in &POOL {
                let z = mk(d);
                rep.eval();
                if c != Ordering::Greater && y.cmp(&z) != Ordering::Greater && x.cmp(&z) == Ordering::Greater {
                    rep.violation(format!("C15/{name}/transitivity"), || json!({"a": a, "b": b, "c": d}));
                }
            }
        }
    }
}

/// Inner types that are only partially ordered (floats with NaN): the wrappers' operators must
/// still agree with their own `partial_cmp` - every operator false where it is `None` - and the
/// error wrapper must still be the mirror image of the score wrapper.
fn partial_order_wrappers(rep: &mut Report) {
    let pool = [f64::NAN, -f64::NAN, f64::NEG_INFINITY, -1.5, -0.0, 0.0, 1.5, f64::MAX, f64::INFINITY];
    for &a in &pool {
        for &b in &pool {
            rep.eval();
            rep.distinct(mix(fnv_str("float-wrappers"), mix(a.to_bits(), b.to_bits())));
            let want = a.partial_cmp(&b);
            let s = observe(&Score(a), &Score(b));
            let e = observe(&Error(a), &Error(b));
            if s != expected(want) || (Score(a) == Score(b)) != (a == b) {
                rep.violation("C15/Score/operators-disagree-with-cmp", || json!({"inner_type": "f64", "a": format!("{a:?}"), "b": format!("{b:?}"), "observed": format!("{s:?}")}));
            }
            if e != expected(want.map(Ordering::reverse)) || (Error(a) == Error(b)) != (a == b) {
                rep.violation("C15/Error/operators-disagree-with-cmp", || json!({"inner_type": "f64", "a": format!("{a:?}"), "b": format!("{b:?}"), "observed": format!("{e:?}")}));
            }
            let ts: TestResult<f64, f64> = TestResult::Score(Score(a));
            let te: TestResult<f64, f64> = TestResult::Error(Error(b));
            if observe(&ts, &te) != expected(None) {
                rep.violation("C15/TestResult/score-comparable-to-error", || json!({"inner_type": "f64", "a": format!("{a:?}"), "b": format!("{b:?}")}));
            }
            // individuals and result collections over a *partial* order compare exactly as their
            // (total) results do - incomparable stays incomparable, through every operator
            let pairs: [(&str, TestResult<f64, f64>, TestResult<f64, f64>); 4] = [
                ("score/score", TestResult::Score(Score(a)), TestResult::Score(Score(b))),
                ("error/error", TestResult::Error(Error(a)), TestResult::Error(Error(b))),
                ("score/error", ts, te),
                ("error/score", TestResult::Error(Error(a)), TestResult::Score(Score(b))),
            ];
            for (what, x, y) in pairs {
                rep.eval();
                let want = observe(&x, &y);
                let ind = observe(&EcIndividual::new(7u8, x), &EcIndividual::new(9u8, y));
                let raw = observe(&EcIndividual::new(vec![1u8], a), &EcIndividual::new(vec![2u8, 3], b));
                let coll = observe(&TestResults { results: vec![x, x], total_result: x }, &TestResults { results: vec![y], total_result: y });
                let nested = observe(
                    &EcIndividual::new("g", TestResults { results: vec![x], total_result: x }),
                    &EcIndividual::new("h", TestResults { results: vec![y, y, y], total_result: y }),
                );
                if ind != want || coll != want || nested != want || raw != expected(a.partial_cmp(&b)) {
                    rep.violation("C15/partial-order/not-as-total-results", || json!({"pair": what, "a": format!("{a:?}"), "b": format!("{b:?}"), "results_compare": format!("{want:?}"),
                        "individuals_compare": format!("{ind:?}"), "collections_compare": format!("{coll:?}"), "individuals_over_collections_compare": format!("{nested:?}"), "individuals_over_plain_f64_compare": format!("{raw:?}")}));
                }
            }
        }
    }
    // unsigned and 128-bit inner types at their extremes
    for (a, b) in [(0u64, u64::MAX), (u64::MAX, u64::MAX), (1, 0), (u64::MAX - 1, u64::MAX)] {
        rep.eval();
        if observe(&Score(a), &Score(b)) != expected(Some(a.cmp(&b))) || observe(&Error(a), &Error(b)) != expected(Some(b.cmp(&a))) || Score(a).cmp(&Score(b)) != a.cmp(&b) || Error(a).cmp(&Error(b)) != b.cmp(&a) {
            rep.violation("C15/Score-Error/unsigned", || json!({"a": a, "b": b}));
        }
    }
    for (a, b) in [(i128::MIN, i128::MAX), (i128::MAX, i128::MAX), (-1i128, 0), (i128::MIN, i128::MIN + 1)] {
        rep.eval();
        if observe(&Score(a), &Score(b)) != expected(Some(a.cmp(&b))) || observe(&Error(a), &Error(b)) != expected(Some(b.cmp(&a))) {
            rep.violation("C15/Score-Error/i128", || json!({"a": a.to_string(), "b": b.to_string()}));
        }
    }
}

/// Copies of individuals and result collections: `clone` and `clone_from` (also through
/// `Vec::clone_from`, which overwrites existing elements in place) give an equal value.
fn copies(seed: u64, rounds: usize, rep: &mut Report) {
    let mut g = Xo::derive(seed, "C15-copies", 0);
    for _ in 0..rounds {
        let a = gen_results(&mut g);
        let b = gen_results(&mut g);
        if a.len() > 50 || b.len() > 50 {
            continue;
        }
        let ia = EcIndividual::new(g.next() % 5, a.iter().copied().collect::<TestResults<Score<i64>>>());
        let ib = EcIndividual::new(g.next() % 5 + 10, b.iter().copied().collect::<TestResults<Score<i64>>>());
        rep.eval();
        let mut target = ib.clone();
        target.clone_from(&ia);
        let mut pop = vec![ib.clone(), ib.clone(), ia.clone()];
        let src = vec![ia.clone(), ia.clone()];
        pop.clone_from(&src);
        let mut tr = ib.test_results.clone();
        tr.clone_from(&ia.test_results);
        let ok = ia.clone() == ia && target == ia && target.genome == ia.genome && target.test_results == ia.test_results && pop == src && tr == ia.test_results && tr.total_result == ia.test_results.total_result;
        if !ok {
            rep.violation("C15/EcIndividual/copy-differs-from-original", || json!({"source_results": short(&a), "overwritten_results": short(&b), "clone_from_gives_genome": target.genome, "source_genome": ia.genome, "results_equal": target.test_results == ia.test_results}));
        }
    }
}

/// Result collections built from iterators whose size hint says little or far too much
/// (`take_while` / `map_while` / `scan` over an astronomically long range, `filter`, chains): the
/// total is the sum of what the iterator actually yields, in the order given - nothing may be
/// sized after the hint.
fn collected_from_odd_iterators(rep: &mut Report) {
    let want: Vec<i64> = vec![0, 1, 2, 3, 4];
    let builds: Vec<(&str, Box<dyn Fn() -> TestResults<Score<i64>>>)> = vec![
        ("take_while over 0..u64::MAX", Box::new(|| (0..u64::MAX).map(|x| x as i64).take_while(|x| *x < 5).map(Score).collect())),
        ("map_while over 0..usize::MAX", Box::new(|| (0..usize::MAX).map_while(|x| (x < 5).then_some(Score(x as i64))).collect())),
        ("scan over an endless counter", Box::new(|| (0i64..).scan((), |(), x| (x < 5).then_some(Score(x))).collect())),
        ("filter over 0..100", Box::new(|| (0..100i64).filter(|x| *x < 5).map(Score).collect())),
        ("chain of an exact and a take_while part", Box::new(|| (0..2i64).chain((2..i64::MAX).take_while(|x| *x < 5)).map(Score).collect())),
        ("From<take_while over 0..u64::MAX>", Box::new(|| TestResults::from((0..u64::MAX).map(|x| Score(x as i64)).take_while(|x| x.0 < 5)))),
        ("skip(usize::MAX - 5) of repeat_n(.., usize::MAX) mapped", Box::new(|| std::iter::repeat_n(1i64, usize::MAX).take(5).enumerate().map(|(i, _)| Score(i as i64)).collect())),
    ];
    for (what, build) in builds {
        vh_core::shard::set_context(format!("C15 TestResults collected from {what}"));
        let r = catch(|| build());
        rep.eval();
        rep.count("collected-from-odd-iterators");
        rep.distinct(fnv_str(what));
        match r {
            Ok(t) if t.results.iter().map(|s| s.0).collect::<Vec<_>>() == want && t.total_result == Score(10) => {}
            Ok(t) => rep.violation("C15/TestResults/total", || json!({"built_from": what, "expected_results": want, "observed_results": format!("{:?}", t.results).chars().take(200).collect::<String>(), "observed_total": format!("{:?}", t.total_result)})),
            Err(p) => rep.violation("C15/TestResults/panic", || json!({"built_from": what, "panic": p.to_string()})),
        }
    }
}

fn wrappers(rep: &mut Report) {
    collected_from_odd_iterators(rep);
    partial_order_wrappers(rep);
    total_order_laws("Score", Score, |a, b| a.cmp(&b), true, rep);
    total_order_laws("Error", Error, |a, b| b.cmp(&a), true, rep);
    // equality operators of the wrappers agree with the ordering
    for &a in &POOL {
        for &b in &POOL {
            rep.eval();
            if (Score(a) == Score(b)) != (a == b) || (Score(a) != Score(b)) != (a != b) || (Error(a) == Error(b)) != (a == b) || (Error(a) != Error(b)) != (a != b) {
                rep.violation("C15/Score-Error/equality", || json!({"a": a, "b": b}));
            }
        }
    }
    // TestResult: same-kind comparisons follow the wrapper, cross-kind are incomparable
    for &a in &POOL {
        for &b in &POOL {
            let s1: TestResult<i64, i64> = TestResult::Score(Score(a));
            let s2: TestResult<i64, i64> = TestResult::Score(Score(b));
            let e1: TestResult<i64, i64> = TestResult::Error(Error(a));
            let e2: TestResult<i64, i64> = TestResult::Error(Error(b));
            rep.eval();
            rep.distinct(mix(fnv_str("TestResult"), mix(a as u64, b as u64)));
            if observe(&s1, &s2) != expected(Some(a.cmp(&b))) || (s1 == s2) != (a == b) {
                rep.violation("C15/TestResult/score-vs-score", || json!({"a": a, "b": b, "observed": format!("{:?}", observe(&s1, &s2))}));
            }
            if observe(&e1, &e2) != expected(Some(b.cmp(&a))) || (e1 == e2) != (a == b) {
                rep.violation("C15/TestResult/error-vs-error", || json!({"a": a, "b": b, "observed": format!("{:?}", observe(&e1, &e2))}));
            }
            for (x, y) in [(&s1, &e2), (&e1, &s2)] {
                if observe(x, y) != expected(None) || x == y || !(x != y) {
                    rep.violation("C15/TestResult/score-comparable-to-error", || json!({"a": a, "b": b, "observed": format!("{:?}", observe(x, y)), "eq": x == y}));
                }
            }
        }
    }
}

fn gen_results(g: &mut Xo) -> Vec<i64> {
    // Now and then a long vector: aggregation code may switch strategy with the length
    // (chunking, parallel reduction, unrolling), so lengths around powers of two, with
    // remainders, and far beyond any small-vector fast path are part of the workload.
    if g.chance(1, 400) {
        let n = match g.below(4) {
            0 => 9 + g.usize_below(300),
            1 => *g.pick(&[255usize, 256, 257, 511, 512, 513, 1000, 1023, 1024, 1025, 2047, 2049, 4095, 4096, 4097, 5000, 8191, 8192, 8197]),
            2 => 1 + g.usize_below(20_000),
            _ => *g.pick(&[16_383usize, 16_385, 32_771, 65_537, 100_003]),
        };
        let bound = (1i64 << 61) / n as i64;
        let style = g.below(3);
        return (0..n)
            .map(|i| match style {
                0 => g.range(-bound, bound),
                1 => i as i64 + 1, // every position contributes a different amount
                _ => g.range(-20, 20),
            })
            .collect();
    }
    let n = match g.below(5) {
        0 => 0,
        1 => 1,
        _ => g.usize_below(8),
    };
    // keep sums in range: values in +-2^59 for up to 8 cases, plus small ones
    (0..n)
        .map(|_| match g.below(4) {
            0 => g.range(-(1 << 59), 1 << 59),
            1 => 0,
            _ => g.range(-20, 20),
        })
        .collect()
}

/// Witness rendering of a result vector: whole if short, otherwise length + both ends.
fn short(v: &[i64]) -> vh_core::Value {
    if v.len() <= 40 {
        json!(v)
    } else {
        json!({"length": v.len(), "first": &v[..12], "last": &v[v.len() - 6..], "sum": v.iter().map(|x| i128::from(*x)).sum::<i128>().to_string()})
    }
}

fn aggregates(seed: u64, rounds: usize, rep: &mut Report) {
    let mut g = Xo::derive(seed, "C15-agg", 0);
    for _ in 0..rounds {
        let a = gen_results(&mut g);
        let b = if g.chance(1, 5) { a.clone() } else { gen_results(&mut g) };
        rep.distinct(fnv_str(&format!("{a:?}{b:?}")));
        let sum = |v: &[i64]| v.iter().sum::<i64>();
        // construction: From<IntoIterator> and FromIterator, scores and errors
        let sa: TestResults<Score<i64>> = a.clone().into();
        let sa2: TestResults<Score<i64>> = a.iter().copied().collect();
        let sa3: TestResults<Score<i64>> = a.iter().copied().map(Score).collect();
        let ea: TestResults<Error<i64>> = a.clone().into();
        let ea2: TestResults<Error<i64>> = a.iter().copied().map(Error::from).collect();
        let sb: TestResults<Score<i64>> = b.clone().into();
        let eb: TestResults<Error<i64>> = b.clone().into();
        rep.eval();
        let score_ok = |t: &TestResults<Score<i64>>| t.results.iter().map(|s| s.0).eq(a.iter().copied()) && t.total_result == Score(sum(&a)) && t.len() == a.len() && t.is_empty() == a.is_empty();
        if !score_ok(&sa) || !score_ok(&sa2) || !score_ok(&sa3) {
            rep.violation("C15/TestResults/scores-total-or-order", || json!({"values": short(&a), "from": format!("{sa:?}"), "collect": format!("{sa2:?}")}));
        }
        let error_ok = |t: &TestResults<Error<i64>>| t.results.iter().map(|s| s.0).eq(a.iter().copied()) && t.total_result == Error(sum(&a));
        if !error_ok(&ea) || !error_ok(&ea2) {
            rep.violation("C15/TestResults/errors-total-or-order", || json!({"values": short(&a), "from": format!("{ea:?}")}));
        }
        // i128 element type for the extremes
        let big: Vec<i128> = a.iter().map(|x| i128::from(*x) * (1 << 40)).collect();
        let tb: TestResults<Score<i128>> = big.clone().into();
        if tb.total_result != Score(big.iter().sum::<i128>()) || !tb.results.iter().map(|s| s.0).eq(big.iter().copied()) {
            rep.violation("C15/TestResults/i128-total", || json!({"values": short(&a)}));
        }
        // comparisons delegate to the totals
        rep.eval();
        let want_s = sum(&a).cmp(&sum(&b));
        let want_e = sum(&b).cmp(&sum(&a));
        if sa.cmp(&sb) != want_s || observe(&sa, &sb) != expected(Some(want_s)) {
            rep.violation("C15/TestResults/score-ordering", || json!({"a": short(&a), "b": short(&b), "cmp": format!("{:?}", sa.cmp(&sb)), "ops": format!("{:?}", observe(&sa, &sb))}));
        }
        if ea.cmp(&eb) != want_e || observe(&ea, &eb) != expected(Some(want_e)) {
            rep.violation("C15/TestResults/error-ordering", || json!({"a": short(&a), "b": short(&b), "cmp": format!("{:?}", ea.cmp(&eb)), "ops": format!("{:?}", observe(&ea, &eb))}));
        }
        // individuals compare as their results do, whatever the genomes are
        let (g1, g2) = (g.next() % 3, g.next() % 3);
        let ia = EcIndividual::new(g1, sa.clone());
        let ib = EcIndividual::new(g2, sb.clone());
        let ja = EcIndividual::new(g1, ea.clone());
        let jb = EcIndividual::new(g2, eb.clone());
        rep.eval();
        if ia.cmp(&ib) != want_s || observe(&ia, &ib) != expected(Some(want_s)) || ja.cmp(&jb) != want_e || observe(&ja, &jb) != expected(Some(want_e)) {
            rep.violation("C15/EcIndividual/ordering", || json!({"a": short(&a), "b": short(&b), "genomes": [g1, g2], "scores": format!("{:?}", observe(&ia, &ib)), "errors": format!("{:?}", observe(&ja, &jb))}));
        }
        let t: EcIndividual<u64, u8> = (g1, 3u8).into();
        if t.genome != g1 || t.test_results != 3 {
            rep.violation("C15/EcIndividual/from-pair", || json!({}));
        }
        if rep.wants_sample() && a.len() >= 3 && b.len() >= 2 {
            rep.sample(|| json!({"kind": "result vectors", "a": short(&a), "b": short(&b), "total_a": sum(&a), "total_b": sum(&b), "score_cmp": format!("{want_s:?}"), "error_cmp": format!("{want_e:?}")}));
        }
    }
}

// recording scorer / genome source ---------------------------------------------------

thread_local! {
    static SCORED: RefCell<Vec<u64>> = const { RefCell::new(Vec::new()) };
}

#[derive(Debug, Clone, PartialEq)]
struct Genome {
    serial: u64,
    payload: Vec<u8>,
}

struct SerialGenomes;
impl Distribution<Genome> for SerialGenomes {
    fn sample<R: Rng + ?Sized>(&self, rng: &mut R) -> Genome {
        let serial = rng.next_u64();
        Genome { serial, payload: (0..(serial % 5) as u8).collect() }
    }
}

struct RecScorer;
impl Scorer<Genome> for RecScorer {
    type Score = (u64, usize);
    fn score(&self, genome: &Genome) -> Self::Score {
        SCORED.with(|s| s.borrow_mut().push(genome.serial));
        (genome.serial.rotate_left(9), genome.payload.len())
    }
}

#[derive(ec_core::operator::Composable)]
struct MakeGenome {
    fail: bool,
}
impl<'a> Operator<&'a Vec<u8>> for MakeGenome {
    type Output = Genome;
    type Error = String;
    fn apply<R: Rng + ?Sized>(&self, pop: &'a Vec<u8>, rng: &mut R) -> Result<Genome, String> {
        let serial = rng.next_u64();
        if self.fail {
            return Err(format!("maker failed {serial}"));
        }
        Ok(Genome { serial, payload: pop.clone() })
    }
}

fn scoring(seed: u64, rounds: usize, rep: &mut Report) {
    for r in 0..rounds {
        let s = mix(seed, r as u64);
        // IndividualGenerator (Distribution)
        SCORED.with(|l| l.borrow_mut().clear());
        let mut rng = TraceRng::new(s);
        let expect_serial = rng.clone().next_u64();
        let gen = IndividualGenerator::new(SerialGenomes, RecScorer);
        let ind = catch(|| gen.sample(&mut rng));
        let log = SCORED.with(|l| l.borrow().clone());
        rep.eval();
        rep.distinct(mix(fnv_str("IndividualGenerator"), s));
        match ind {
            Ok(ind) if ind.genome.serial == expect_serial && log == vec![expect_serial] && ind.test_results == (expect_serial.rotate_left(9), ind.genome.payload.len()) => {}
            other => rep.violation("C15/IndividualGenerator/genome-or-score", || json!({"expected_serial": expect_serial, "scorer_calls": log, "observed": format!("{other:?}")})),
        }
        // the same generator value asked again: the second individual carries *its* genome and
        // the score of that genome (nothing remembered from the first one)
        {
            SCORED.with(|l| l.borrow_mut().clear());
            let expect2 = rng.clone().next_u64();
            let second = catch(|| gen.sample(&mut rng));
            let log = SCORED.with(|l| l.borrow().clone());
            rep.eval();
            match second {
                Ok(ind) if ind.genome.serial == expect2 && log == vec![expect2] && ind.test_results == (expect2.rotate_left(9), ind.genome.payload.len()) => {}
                other => rep.violation("C15/IndividualGenerator/genome-or-score", || json!({"sample": "second from the same generator value", "expected_serial": expect2, "scorer_calls": log, "observed": format!("{other:?}")})),
            }
        }
        // a scorer handed over by reference (the forwarding impl for &T) scores the same genome the same way
        {
            SCORED.with(|l| l.borrow_mut().clear());
            let mut rng3 = TraceRng::new(s);
            let scorer = RecScorer;
            let by_ref = catch(|| IndividualGenerator::new(SerialGenomes, &scorer).sample(&mut rng3));
            let by_ref2 = catch(|| SerialGenomes.with_scorer(&&scorer).sample(&mut rng3));
            let log = SCORED.with(|l| l.borrow().clone());
            rep.eval();
            let expect2 = { let mut c = TraceRng::new(s); c.next_u64(); c.next_u64() };
            match (by_ref, by_ref2) {
                (Ok(a), Ok(b)) if a.genome.serial == expect_serial && a.test_results == (expect_serial.rotate_left(9), a.genome.payload.len()) && b.genome.serial == expect2 && b.test_results == (expect2.rotate_left(9), b.genome.payload.len()) && log == vec![expect_serial, expect2] => {}
                other => rep.violation("C15/IndividualGenerator/genome-or-score", || json!({"sample": "scorer handed over as &T and &&T", "expected_serials": [expect_serial, expect2], "scorer_calls": log, "observed": format!("{other:?}")})),
            }
        }
        // the WithScorer convenience builds the same generator
        SCORED.with(|l| l.borrow_mut().clear());
        let mut rng2 = TraceRng::new(s);
        let ws = SerialGenomes.with_scorer(RecScorer);
        let ind2 = ws.sample(&mut rng2);
        let _ = ws.sample(&mut rng2);
        rep.eval();
        if ind2.genome.serial != expect_serial || ind2.test_results.0 != expect_serial.rotate_left(9) || rng2.fingerprint() != rng.fingerprint() {
            rep.violation("C15/WithScorer/genome-or-score", || json!({"expected_serial": expect_serial, "observed": format!("{ind2:?}")}));
        }
        // GenomeScorer (Operator over a population)
        for fail in [false, true] {
            SCORED.with(|l| l.borrow_mut().clear());
            let pop: Vec<u8> = (0..(s % 4) as u8).collect();
            let mut rng = TraceRng::new(s);
            let out = catch(|| GenomeScorer::new(MakeGenome { fail }, RecScorer).apply(&pop, &mut rng));
            let log = SCORED.with(|l| l.borrow().clone());
            rep.eval();
            rep.distinct(mix(fnv_str("GenomeScorer"), mix(s, u64::from(fail))));
            let ok = match &out {
                Ok(Ok(ind)) => !fail && ind.genome.serial == expect_serial && ind.genome.payload == pop && log == vec![expect_serial] && ind.test_results == (expect_serial.rotate_left(9), pop.len()),
                Ok(Err(e)) => fail && log.is_empty() && *e == format!("maker failed {expect_serial}"),
                Err(_) => false,
            };
            if !ok {
                rep.violation("C15/GenomeScorer/genome-or-score", || json!({"maker_fails": fail, "expected_serial": expect_serial, "scorer_calls": log, "observed": format!("{out:?}")}));
            }
        }
    }
}

pub fn run(args: &Args) -> i32 {
    let mut rep = Report::new();
    wrappers(&mut rep);
    aggregates(args.seed, args.tier.pick(2_000_000, 40_000_000), &mut rep);
    scoring(args.seed, args.tier.pick(500_000, 10_000_000), &mut rep);
    copies(args.seed, args.tier.pick(200_000, 4_000_000), &mut rep);
    rep.finish(
        args,
        "exploration",
        "order laws exhaustively over all pairs and triples of a 10-value boundary pool (i64 extremes, -1, 0, 1, repeats) for Score, Error and TestResult; random result vectors (empty, one, many, and every 400th up to 100003 results with lengths around powers of two; values up to 2^59 so sums stay in range; an i128 variant) for TestResults / EcIndividual construction and comparison; seeded streams for IndividualGenerator / WithScorer / GenomeScorer with a recording scorer. distinct_nontrivial = distinct value pairs per type + distinct vector pairs + distinct scoring runs",
        true,
        &[
            "== of TestResults / EcIndividual is not required to agree with cmp (two different result vectors with the same total are ordered Equal but are not equal); only the ordering is claimed",
            "sums are kept in range; overflow of the total is outside the statement",
        ],
    )
}
