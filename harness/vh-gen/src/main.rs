//! C09 — a generation step atomically replaces the population with as many fresh children.
//!
//! A probe child maker (an `Operator<&P>`) appends to a mutex-protected event log with
//! logical timestamps from one atomic clock: call start / end, worker thread, address and
//! content fingerprint of the population it was shown, the two random words it drew from
//! the generator it was handed, the serial of the child it returned or the injected error,
//! and it injects delays (yield / spin / sleep) at this legitimate suspension point.
//! An offline checker over log + return value + population before / after decides:
//!   success => new size = old size = number of calls, the multiset of child serials in the
//!   new population equals the serials issued (exactly once), every call saw the *old*
//!   population (same address, same fingerprint), all random words pairwise distinct;
//!   failure => the error is one of the injected ones (serial: the first in call order, and
//!   no call after it) and the population equals the snapshot taken before.
//! Workload: sizes x {serial_next, par_next} x rayon pools of 1..16 threads x failure at
//! every call index (fault enumeration) x delay modes; `Vec` and `VecDeque` populations.
//! The same probe workload runs under Miri (tree borrows, many seeds) and ThreadSanitizer.

use std::{
    collections::{BTreeMap, BTreeSet, VecDeque},
    sync::{
        atomic::{AtomicU64, Ordering},
        Arc, Mutex,
    },
};

use ec_core::{
    generation::Generation,
    operator::{Composable, Operator},
};
use rand::Rng;

#[derive(Clone, Debug, PartialEq, Eq)]
pub struct Child {
    serial: u64,
    w1: u64,
    w2: u64,
}

#[derive(Debug, Clone, PartialEq, Eq)]
pub struct ProbeError {
    call: u64,
}
impl std::fmt::Display for ProbeError {
    fn fmt(&self, f: &mut std::fmt::Formatter<'_>) -> std::fmt::Result {
        write!(f, "injected failure at call {}", self.call)
    }
}
impl std::error::Error for ProbeError {}

#[derive(Clone, Debug)]
enum Ev {
    Start { t: u64, call: u64, thread: u64, addr: usize, fp: u64, len: usize },
    End { t: u64, call: u64, thread: u64, result: Result<(u64, u64, u64), u64> },
}

pub trait PopLike: Send + Sync {
    /// what the population holds (the child itself, or a wrapper with its own notion of equality)
    type Item: From<Child> + Send + Sync;
    /// a set-like population keeps one representative of children that compare equal
    const COLLAPSES: bool = false;
    fn fp(&self) -> u64;
    fn n(&self) -> usize;
    fn serials(&self) -> Vec<u64>;
    fn children(&self) -> Vec<Child>;
}

fn fp_of<'a>(it: impl Iterator<Item = &'a Child>) -> u64 {
    let mut h: u64 = 0xcbf2_9ce4_8422_2325;
    for c in it {
        for w in [c.serial, c.w1, c.w2] {
            h ^= w;
            h = h.wrapping_mul(0x0000_0100_0000_01b3).rotate_left(13);
        }
    }
    h
}

impl PopLike for Vec<Child> {
    type Item = Child;
    fn fp(&self) -> u64 {
        fp_of(self.iter())
    }
    fn n(&self) -> usize {
        self.len()
    }
    fn serials(&self) -> Vec<u64> {
        self.iter().map(|c| c.serial).collect()
    }
    fn children(&self) -> Vec<Child> {
        self.clone()
    }
}

impl PopLike for VecDeque<Child> {
    type Item = Child;
    fn fp(&self) -> u64 {
        fp_of(self.iter())
    }
    fn n(&self) -> usize {
        self.len()
    }
    fn serials(&self) -> Vec<u64> {
        self.iter().map(|c| c.serial).collect()
    }
    fn children(&self) -> Vec<Child> {
        self.iter().cloned().collect()
    }
}

/// Member of a set-like population: children are equal when their keys are, so a generation of
/// n children may legitimately collapse to fewer individuals - and the *next* step must then make
/// exactly as many children as the population has *now*.
#[derive(Clone, Debug)]
pub struct Keyed(pub Child);

pub fn key_of(serial: u64) -> u64 {
    // the initial individuals are all different; children fall into three classes
    if serial < 1_000_000 { serial + 10 } else { serial % 3 }
}
impl From<Child> for Keyed {
    fn from(c: Child) -> Self {
        Keyed(c)
    }
}
impl PartialEq for Keyed {
    fn eq(&self, o: &Self) -> bool {
        key_of(self.0.serial) == key_of(o.0.serial)
    }
}
impl Eq for Keyed {}
impl PartialOrd for Keyed {
    fn partial_cmp(&self, o: &Self) -> Option<std::cmp::Ordering> {
        Some(self.cmp(o))
    }
}
impl Ord for Keyed {
    fn cmp(&self, o: &Self) -> std::cmp::Ordering {
        key_of(self.0.serial).cmp(&key_of(o.0.serial))
    }
}

impl PopLike for BTreeSet<Keyed> {
    type Item = Keyed;
    const COLLAPSES: bool = true;
    fn fp(&self) -> u64 {
        fp_of(self.iter().map(|k| &k.0))
    }
    fn n(&self) -> usize {
        self.len()
    }
    fn serials(&self) -> Vec<u64> {
        self.iter().map(|c| c.0.serial).collect()
    }
    fn children(&self) -> Vec<Child> {
        self.iter().map(|k| k.0.clone()).collect()
    }
}

static NEXT_TID: AtomicU64 = AtomicU64::new(1);
thread_local! {
    static TID: u64 = NEXT_TID.fetch_add(1, Ordering::Relaxed);
}

/// The child maker handed to `Generation`; the driver keeps a second handle to the shared
/// state so that it can script failures and read the event log.
#[derive(Composable, Clone)]
pub struct Probe(Arc<Shared>);

impl std::ops::Deref for Probe {
    type Target = Shared;
    fn deref(&self) -> &Shared {
        &self.0
    }
}

pub struct Shared {
    log: Mutex<Vec<Ev>>,
    clock: AtomicU64,
    calls: AtomicU64,
    serials: AtomicU64,
    fail_at: Mutex<BTreeSet<u64>>,
    delay_mode: u8,
    delay_seed: u64,
}

fn mix(a: u64, b: u64) -> u64 {
    let mut z = a ^ b.wrapping_mul(0x9e37_79b9_7f4a_7c15).rotate_left(17);
    z = (z ^ (z >> 30)).wrapping_mul(0xbf58_476d_1ce4_e5b9);
    z = (z ^ (z >> 27)).wrapping_mul(0x94d0_49bb_1331_11eb);
    z ^ (z >> 31)
}

impl Probe {
    fn new(first_serial: u64, delay_mode: u8, delay_seed: u64) -> Self {
        Self(Arc::new(Shared {
            log: Mutex::new(Vec::new()),
            clock: AtomicU64::new(0),
            calls: AtomicU64::new(0),
            serials: AtomicU64::new(first_serial),
            fail_at: Mutex::new(BTreeSet::new()),
            delay_mode,
            delay_seed,
        }))
    }
}

impl Shared {

    fn delay(&self, call: u64, phase: u64) {
        let h = mix(self.delay_seed, mix(call, phase));
        match self.delay_mode {
            0 => {}
            1 => std::thread::yield_now(),
            2 => {
                for _ in 0..(h % 2_000) {
                    std::hint::spin_loop();
                }
            }
            3 => std::thread::sleep(std::time::Duration::from_micros(h % 200)),
            // a child maker that itself uses the pool it runs on (parallel scoring inside the
            // operator): it gives the worker back to rayon and forks a nested job
            _ => {
                // bounded: a worker that yields runs other pending child-maker jobs on its own
                // stack, which yield in turn - without a bound the nesting grows with the number of
                // pending jobs and the *probe* would exhaust the worker's stack
                thread_local! { static NESTING: std::cell::Cell<u32> = const { std::cell::Cell::new(0) }; }
                if NESTING.with(std::cell::Cell::get) < 3 {
                    NESTING.with(|n| n.set(n.get() + 1));
                    let _ = rayon::yield_now();
                    let (a, b) = rayon::join(|| std::hint::black_box(h % 7), || std::hint::black_box(h % 11));
                    std::hint::black_box(a + b);
                    NESTING.with(|n| n.set(n.get() - 1));
                }
            }
        }
    }

    fn reset_step(&self, fail_at: BTreeSet<u64>) {
        self.log.lock().unwrap().clear();
        self.calls.store(0, Ordering::SeqCst);
        *self.fail_at.lock().unwrap() = fail_at;
    }
}

impl<'a, P: PopLike> Operator<&'a P> for Probe {
    type Output = P::Item;
    type Error = ProbeError;

    fn apply<R: Rng + ?Sized>(&self, pop: &'a P, rng: &mut R) -> Result<P::Item, ProbeError> {
        let call = self.calls.fetch_add(1, Ordering::SeqCst);
        let thread = TID.with(|t| *t);
        let addr = std::ptr::from_ref(pop) as *const u8 as usize;
        {
            let t = self.clock.fetch_add(1, Ordering::SeqCst);
            self.log.lock().unwrap().push(Ev::Start { t, call, thread, addr, fp: pop.fp(), len: pop.n() });
        }
        self.delay(call, 0);
        let w1 = rng.next_u64();
        self.delay(call, 1);
        let w2 = rng.next_u64();
        let fail = self.fail_at.lock().unwrap().contains(&call);
        // the population must still be what it was when the call started
        let fp_end = pop.fp();
        let result = if fail {
            Err(ProbeError { call })
        } else {
            Ok(Child { serial: self.serials.fetch_add(1, Ordering::SeqCst), w1, w2 })
        };
        self.delay(call, 2);
        {
            let t = self.clock.fetch_add(1, Ordering::SeqCst);
            let mut log = self.log.lock().unwrap();
            log.push(Ev::End { t, call, thread, result: result.as_ref().map(|c| (c.serial, w1 ^ fp_end.wrapping_sub(fp_end), w2)).map_err(|e| e.call) });
            if fp_end != pop.fp() {
                // unreachable in safe code without interior mutability; kept as a tripwire
                log.push(Ev::End { t, call: u64::MAX, thread, result: Err(u64::MAX) });
            }
        }
        result.map(P::Item::from)
    }
}

#[derive(Debug, Default)]
struct StepStats {
    signature: u64,
    workers: BTreeSet<u64>,
    max_overlap: usize,
}

type Finding = (String, String);

/// The offline checker.
#[allow(clippy::too_many_arguments)]
fn check_step(
    collapses: bool,
    parallel: bool,
    before: &[Child],
    before_addr: usize,
    before_fp: u64,
    result: &Result<(), ProbeError>,
    after: &[Child],
    log: &[Ev],
    injected: &BTreeSet<u64>,
    first_serial: u64,
    next_serial: u64,
) -> (Vec<Finding>, StepStats) {
    let mut f: Vec<Finding> = Vec::new();
    let mut stats = StepStats::default();
    let mode = if parallel { "par_next" } else { "serial_next" };
    let n = before.len();
    let mut starts: BTreeMap<u64, (u64, u64)> = BTreeMap::new(); // call -> (t, thread)
    let mut ends: BTreeMap<u64, (u64, Result<(u64, u64, u64), u64>)> = BTreeMap::new();
    let mut order: Vec<(u64, u64, bool)> = Vec::new(); // (t, thread, is_start)
    for ev in log {
        match ev {
            Ev::Start { t, call, thread, addr, fp, len } => {
                starts.insert(*call, (*t, *thread));
                order.push((*t, *thread, true));
                stats.workers.insert(*thread);
                if *addr != before_addr || *fp != before_fp || *len != n {
                    f.push((format!("C09/{mode}/child-built-from-other-population"), format!("call {call} saw population at {addr:#x} (fingerprint {fp:#x}, size {len}); the previous population is at {before_addr:#x} (fingerprint {before_fp:#x}, size {n})")));
                }
            }
            Ev::End { t, call, thread, result } => {
                if *call == u64::MAX {
                    f.push((format!("C09/{mode}/population-modified-during-call"), "the population changed while a child was being built".into()));
                    continue;
                }
                ends.insert(*call, (*t, result.clone()));
                order.push((*t, *thread, false));
            }
        }
    }
    order.sort_unstable();
    // interleaving signature: the start/end order by worker (workers renumbered by first appearance)
    let mut rename: BTreeMap<u64, u64> = BTreeMap::new();
    let mut sig = 0u64;
    let mut open = 0usize;
    for (_, th, is_start) in &order {
        let k = rename.len() as u64;
        let id = *rename.entry(*th).or_insert(k);
        sig = mix(sig, id * 2 + u64::from(*is_start));
        if *is_start {
            open += 1;
            stats.max_overlap = stats.max_overlap.max(open);
        } else {
            open = open.saturating_sub(1);
        }
    }
    stats.signature = sig;
    let calls = starts.len();
    let ok_children: Vec<(u64, u64, u64)> = ends.values().filter_map(|(_, r)| r.clone().ok()).collect();
    let errors: Vec<u64> = ends.values().filter_map(|(_, r)| r.clone().err()).collect();
    // live randomness: all words drawn in this step pairwise distinct
    let mut words = BTreeSet::new();
    for (_, w1, w2) in &ok_children {
        if !words.insert(*w1) || !words.insert(*w2) {
            f.push((format!("C09/{mode}/random-words-repeat"), format!("two children share a random word ({w1:#x} / {w2:#x}): children are correlated copies of one draw")));
            break;
        }
    }
    // ... nor across steps, pools and configurations: every word ever handed to a child maker in
    // this process is new (a generator re-seeded identically per pool or per step replays)
    {
        static SEEN: Mutex<Option<std::collections::HashSet<u64>>> = Mutex::new(None);
        let mut seen = SEEN.lock().unwrap_or_else(|e| e.into_inner());
        let set = seen.get_or_insert_with(std::collections::HashSet::new);
        let mut replayed = 0usize;
        for (_, w1, w2) in &ok_children {
            if !set.insert(*w1) {
                replayed += 1;
            }
            if !set.insert(*w2) {
                replayed += 1;
            }
        }
        if replayed > 0 && !f.iter().any(|x| x.0.ends_with("random-words-repeat")) {
            f.push((format!("C09/{mode}/random-words-replayed"), format!("{replayed} of the {} random words drawn in this step had already been drawn in an earlier step, pool or configuration of this process", ok_children.len() * 2)));
        }
    }
    match result {
        Ok(()) => {
            if !errors.is_empty() {
                f.push((format!("C09/{mode}/error-swallowed"), format!("child creation failed at calls {errors:?} but the step reported success")));
            }
            if collapses {
                // set-like population: one representative per class of equal children
                let classes: BTreeSet<u64> = ok_children.iter().map(|c| key_of(c.0)).collect();
                if after.len() != classes.len() {
                    f.push((format!("C09/{mode}/population-size-changed"), format!("{} children in {} classes were made, the set-like population holds {}", ok_children.len(), classes.len(), after.len())));
                }
            } else if after.len() != n {
                f.push((format!("C09/{mode}/population-size-changed"), format!("population had {n} individuals, the next generation has {}", after.len())));
            }
            if calls != n {
                f.push((format!("C09/{mode}/call-count"), format!("{calls} children were requested for a population of {n}")));
            }
            // exactly-once: the multiset of serials in the new population = serials issued
            let mut got: Vec<u64> = after.iter().map(|c| c.serial).collect();
            got.sort_unstable();
            let mut issued: Vec<u64> = ok_children.iter().map(|c| c.0).collect();
            issued.sort_unstable();
            if collapses {
                // every member is a child issued in this step, none twice
                let issued_set: BTreeSet<u64> = issued.iter().copied().collect();
                if got.iter().any(|s| !issued_set.contains(s)) || got.windows(2).any(|w| w[0] == w[1]) {
                    f.push((format!("C09/{mode}/children-lost-duplicated-or-foreign"), format!("the set-like population holds serials {:?} that were not issued in this step (or holds one twice)", got.iter().filter(|s| !issued_set.contains(s)).take(5).collect::<Vec<_>>())));
                }
            } else if got != issued {
                let lost: Vec<&u64> = issued.iter().filter(|s| !got.contains(s)).take(5).collect();
                let foreign: Vec<&u64> = got.iter().filter(|s| !issued.contains(s)).take(5).collect();
                let dup = got.windows(2).any(|w| w[0] == w[1]);
                f.push((format!("C09/{mode}/children-lost-duplicated-or-foreign"), format!("new population serials != serials issued this step: lost {lost:?}, foreign {foreign:?}, duplicates {dup}")));
            }
            if issued.iter().any(|s| *s < first_serial || *s >= next_serial) {
                f.push((format!("C09/{mode}/serial-range"), "a child serial outside this step's range".into()));
            }
            // each child in the new population carries the words its call drew
            let by_serial: BTreeMap<u64, (u64, u64)> = ok_children.iter().map(|c| (c.0, (c.1, c.2))).collect();
            for c in after {
                if let Some((w1, w2)) = by_serial.get(&c.serial) {
                    if (c.w1, c.w2) != (*w1, *w2) {
                        f.push((format!("C09/{mode}/child-altered"), format!("child {} in the new population does not carry the random words its call drew", c.serial)));
                        break;
                    }
                }
            }
        }
        Err(e) => {
            if !injected.contains(&e.call) {
                f.push((format!("C09/{mode}/unknown-error"), format!("the step failed with {e} which was not injected (injected: {injected:?})")));
            }
            if after != before {
                f.push((format!("C09/{mode}/population-changed-after-failure"), format!("the step failed but the population changed: before {} individuals (first serials {:?}), after {} (first serials {:?})", before.len(), before.iter().take(4).map(|c| c.serial).collect::<Vec<_>>(), after.len(), after.iter().take(4).map(|c| c.serial).collect::<Vec<_>>())));
            }
            if !parallel {
                // serial: the first injected failure in call order, and nothing after it
                let first = injected.iter().next().copied();
                if Some(e.call) != first {
                    f.push((format!("C09/{mode}/not-first-error"), format!("serial stepping returned the error of call {} but the first failing call is {first:?}", e.call)));
                }
                if calls as u64 != e.call + 1 {
                    f.push((format!("C09/{mode}/calls-after-failure"), format!("{calls} calls were made although call {} failed", e.call)));
                }
            }
        }
    }
    if injected.iter().any(|k| (*k as usize) < n) && result.is_ok() && !parallel {
        f.push((format!("C09/{mode}/error-swallowed"), "an injected failure inside the call range did not fail the step".into()));
    }
    if parallel && result.is_ok() && injected.iter().any(|k| (*k as usize) < n) {
        f.push((format!("C09/{mode}/error-swallowed"), "an injected failure inside the call range did not fail the step".into()));
    }
    (f, stats)
}

#[derive(Clone, Debug)]
pub struct Cfg {
    pub size: usize,
    pub parallel: bool,
    pub pool: usize,
    /// 0 = Vec, 1 = VecDeque, 2 = BTreeSet of keyed children (collapses equal children)
    pub kind: u8,
    pub delay_mode: u8,
    pub fail: BTreeSet<u64>,
    pub steps: usize,
}

#[derive(Debug, Default)]
pub struct CfgOutcome {
    pub findings: Vec<Finding>,
    pub steps_run: usize,
    pub calls: u64,
    pub signatures: BTreeSet<u64>,
    pub workers: BTreeSet<u64>,
    pub max_overlap: usize,
}

fn initial(size: usize, first: u64) -> Vec<Child> {
    (0..size as u64).map(|i| Child { serial: first + i, w1: mix(first, i), w2: mix(i, first) }).collect()
}

/// Stall detector. A generation step is pure computation: while one is in progress the process
/// burns CPU. If no step started or finished for `STALL_WALL_S` seconds *and* the whole process
/// consumed practically no CPU time in that window, every thread is blocked - the step can never
/// return (for instance a lock held across a call that re-enters the pool). Reported as
/// `C09/<mode>/stalled`. The criterion is "no CPU consumed", which load on the machine cannot
/// produce: a runnable thread on a loaded machine still gets *some* CPU in two minutes.
pub static STEP_EVENTS: std::sync::atomic::AtomicU64 = std::sync::atomic::AtomicU64::new(0);
pub static STEP_IN_PROGRESS: Mutex<BTreeMap<u64, String>> = Mutex::new(BTreeMap::new());
pub const STALL_WALL_S: u64 = 120;

fn process_cpu_seconds() -> f64 {
    // SAFETY: clock_gettime with a valid out-pointer
    unsafe {
        let mut ts = libc::timespec { tv_sec: 0, tv_nsec: 0 };
        libc::clock_gettime(libc::CLOCK_PROCESS_CPUTIME_ID, &mut ts);
        ts.tv_sec as f64 + ts.tv_nsec as f64 * 1e-9
    }
}

pub fn start_stall_detector(root: std::path::PathBuf) {
    static ONCE: std::sync::Once = std::sync::Once::new();
    ONCE.call_once(|| {
        let _ = std::thread::Builder::new().name("stall-detector".into()).spawn(move || {
            let mut last_events = STEP_EVENTS.load(Ordering::SeqCst);
            let mut window_start = std::time::Instant::now();
            let mut cpu_at_start = process_cpu_seconds();
            loop {
                std::thread::sleep(std::time::Duration::from_secs(2));
                let ev = STEP_EVENTS.load(Ordering::SeqCst);
                let what: Option<String> = STEP_IN_PROGRESS.lock().unwrap_or_else(|e| e.into_inner()).values().next().cloned();
                if ev != last_events || what.is_none() {
                    last_events = ev;
                    window_start = std::time::Instant::now();
                    cpu_at_start = process_cpu_seconds();
                    continue;
                }
                let cpu = process_cpu_seconds() - cpu_at_start;
                if window_start.elapsed().as_secs() >= STALL_WALL_S && cpu < 1.0 {
                    let what = what.unwrap_or_default();
                    let mode = if what.contains("par_next") { "par_next" } else { "serial_next" };
                    let dir = root.join("replays");
                    let _ = std::fs::create_dir_all(&dir);
                    let path = dir.join("C09-stalled.json");
                    let doc = vh_core::json!({"property": "C09", "signature": format!("C09/{mode}/stalled"), "step_in_progress": what,
                        "seconds_without_a_step_starting_or_finishing": window_start.elapsed().as_secs(), "cpu_seconds_consumed_by_the_whole_process_meanwhile": cpu,
                        "meaning": "every thread of the process is blocked while a generation step is in progress: the step can never return"});
                    let _ = std::fs::write(&path, serde_json::to_string_pretty(&doc).unwrap_or_default());
                    println!("VIOLATION property=C09 replay={} signature=C09/{mode}/stalled occurrences=1", path.display());
                    use std::io::Write;
                    let _ = std::io::stdout().flush();
                    std::process::exit(1);
                }
            }
        });
    });
}

pub fn run_cfg(cfg: &Cfg, seed: u64) -> CfgOutcome {
    let mut out = CfgOutcome::default();
    let probe = Probe::new(1_000_000, cfg.delay_mode, seed);
    let body = |out: &mut CfgOutcome| {
        if cfg.kind == 1 {
            let pop: VecDeque<Child> = initial(cfg.size, 0).into_iter().collect();
            drive_ref(pop, cfg, probe.clone(), out);
        } else if cfg.kind == 2 {
            let pop: BTreeSet<Keyed> = initial(cfg.size, 0).into_iter().map(Keyed).collect();
            drive_ref(pop, cfg, probe.clone(), out);
        } else {
            drive_ref(initial(cfg.size, 0), cfg, probe.clone(), out);
        }
    };
    if cfg.parallel {
        match rayon::ThreadPoolBuilder::new().num_threads(cfg.pool).build() {
            Ok(pool) => pool.install(|| body(&mut out)),
            Err(e) => out.findings.push(("HARNESS/pool".into(), format!("cannot build rayon pool: {e}"))),
        }
    } else {
        body(&mut out);
    }
    out
}

fn drive_ref<P>(pop: P, cfg: &Cfg, probe: Probe, out: &mut CfgOutcome)
where
    P: PopLike + ec_core::population::Population<Individual = <P as PopLike>::Item> + FromIterator<<P as PopLike>::Item> + rayon::iter::FromParallelIterator<<P as PopLike>::Item>,
{
    let mut generation: Generation<P, Probe> = Generation::new(probe.clone(), pop);
    for step in 0..cfg.steps {
        let injected: BTreeSet<u64> = if step == 0 { cfg.fail.clone() } else { BTreeSet::new() };
        let before = generation.population().children();
        let before_addr = std::ptr::from_ref(generation.population()) as *const u8 as usize;
        let before_fp = generation.population().fp();
        probe.reset_step(injected.clone());
        let first_serial = probe.serials.load(Ordering::SeqCst);
        // a panicking step is a violation in itself (the statement allows an error, not a panic)
        let me = TID.with(|t| *t);
        STEP_IN_PROGRESS.lock().unwrap_or_else(|e| e.into_inner()).insert(me, format!("{} step {step} of {cfg:?}", if cfg.parallel { "par_next" } else { "serial_next" }));
        STEP_EVENTS.fetch_add(1, Ordering::SeqCst);
        let stepped = std::panic::catch_unwind(std::panic::AssertUnwindSafe(|| if cfg.parallel { generation.par_next() } else { generation.serial_next() }));
        STEP_EVENTS.fetch_add(1, Ordering::SeqCst);
        STEP_IN_PROGRESS.lock().unwrap_or_else(|e| e.into_inner()).remove(&me);
        let result = match stepped {
            Ok(r) => r,
            Err(p) => {
                let msg = p.downcast_ref::<String>().cloned().or_else(|| p.downcast_ref::<&str>().map(|s| (*s).to_string())).unwrap_or_else(|| "non-string panic payload".into());
                let mode = if cfg.parallel { "par_next" } else { "serial_next" };
                out.findings.push((format!("C09/{mode}/panic"), format!("stepping a population of {} panicked: {msg}", before.len())));
                out.steps_run += 1;
                return;
            }
        };
        let after = generation.population().children();
        let log = probe.log.lock().unwrap().clone();
        let next_serial = probe.serials.load(Ordering::SeqCst);
        let (f, st) = check_step(P::COLLAPSES, cfg.parallel, &before, before_addr, before_fp, &result, &after, &log, &injected, first_serial, next_serial);
        out.findings.extend(f);
        out.steps_run += 1;
        out.calls += log.iter().filter(|e| matches!(e, Ev::Start { .. })).count() as u64;
        out.signatures.insert(st.signature);
        out.workers.extend(st.workers);
        out.max_overlap = out.max_overlap.max(st.max_overlap);
    }
}

mod native;

fn main() {
    let first = std::env::args().nth(1).unwrap_or_default();
    if first == "--sanitizer-child" {
        std::process::exit(native::sanitizer_child());
    }
    std::process::exit(native::main());
}
