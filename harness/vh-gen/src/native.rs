//! Drivers: the native stress run (with evidence), and the small workload that runs under
//! Miri / ThreadSanitizer (`--sanitizer-child`).

use std::{collections::BTreeSet, time::Duration};

use vh_core::{
    fnv_str, json, mix,
    shard::{run_child, run_shards, ChildOutcome},
    Args, Report, Tier, Value, Xo,
};

use crate::{run_cfg, Cfg};

fn failure_sets(n: usize, g: &mut Xo, exhaustive_upto: usize, extra_random: usize) -> Vec<BTreeSet<u64>> {
    let mut sets: Vec<BTreeSet<u64>> = vec![BTreeSet::new()];
    if n == 0 {
        return sets;
    }
    if n <= exhaustive_upto {
        for k in 0..n as u64 {
            sets.push([k].into_iter().collect());
        }
    } else {
        for k in [0, 1, n as u64 / 2, n as u64 - 2, n as u64 - 1] {
            sets.push([k].into_iter().collect());
        }
    }
    for _ in 0..extra_random {
        let m = 1 + g.usize_below(4.min(n));
        sets.push((0..m).map(|_| g.below(n as u64)).collect());
    }
    sets
}

fn configs(tier: Tier, seed: u64) -> Vec<Cfg> {
    let mut g = Xo::derive(seed, "C09-cfg", 0);
    let mut v = Vec::new();
    let sizes = [0usize, 1, 2, 3, 5, 8, 17, 64, 257, 1000];
    for &size in &sizes {
        let modes: &[u8] = if size <= 64 { &[0, 1, 2, 3, 4] } else { &[0, 1, 2, 4] };
        for &delay_mode in modes {
            let mut variants: Vec<(bool, usize)> = vec![(false, 1)];
            for pool in [1usize, 2, 3, 4, 8, 16] {
                variants.push((true, pool));
            }
            for (parallel, pool) in variants {
                let extra = tier.pick(1, 3);
                for fail in failure_sets(size, &mut g, 17, extra) {
                    // thin out the biggest populations
                    if size >= 257 && !fail.is_empty() && delay_mode != 1 && g.chance(1, 2) {
                        continue;
                    }
                    let steps = if fail.is_empty() { 3 } else { 2 };
                    v.push(Cfg { size, parallel, pool, kind: match g.below(8) { 0 | 1 => 1, 2 => 2, _ => 0 }, delay_mode, fail, steps });
                }
            }
        }
    }
    v
}

fn pop_kind_name(kind: u8) -> &'static str {
    ["Vec", "VecDeque", "BTreeSet (equal children collapse)"][kind as usize]
}

fn cfg_json(c: &Cfg) -> Value {
    let delay = ["none", "yield_now", "spin", "sleep 0-200us", "re-enters the rayon pool (yield_now + nested join)"][c.delay_mode as usize];
    json!({"population_size": c.size, "stepping": if c.parallel { format!("par_next on a rayon pool of {}", c.pool) } else { "serial_next".to_string() },
           "population_type": pop_kind_name(c.kind), "injected_delay": delay,
           "fail_at_calls": c.fail, "generations": c.steps})
}

/// Small workload for Miri / TSan. Prints one line per configuration and a final summary.
pub fn sanitizer_child() -> i32 {
    let big = std::env::args().any(|a| a == "--big");
    let tiny = std::env::args().any(|a| a == "--tiny");
    if std::env::args().any(|a| a == "--none") {
        // used by MANIFEST.setup_cmd to pre-build the interpreter-side artefacts
        println!("SANITIZER-SUMMARY {{\"configurations\":0}}");
        return 0;
    }
    let mut bad = 0usize;
    let mut cfgs = Vec::new();
    let sizes: &[usize] = if big { &[0, 1, 2, 3, 8, 17, 64, 257] } else if tiny { &[0, 2, 3] } else { &[0, 1, 2, 3, 5] };
    let pools: &[usize] = if big { &[2, 4, 8] } else if tiny { &[2] } else { &[2, 3] };
    for &size in sizes {
        let mut fails: Vec<BTreeSet<u64>> = vec![BTreeSet::new()];
        if tiny {
            if size > 0 {
                fails.push([0u64].into_iter().collect());
                fails.push([size as u64 - 1].into_iter().collect());
            }
        } else {
            for k in 0..size.min(if big { 4 } else { 5 }) as u64 {
                fails.push([k].into_iter().collect());
            }
        }
        for fail in fails {
            for delay_mode in if big { vec![0u8, 1, 2, 3] } else if tiny { vec![1u8] } else { vec![0u8, 1] } {
                cfgs.push(Cfg { size, parallel: false, pool: 1, kind: 0, delay_mode, fail: fail.clone(), steps: 2 });
                for &pool in pools {
                    cfgs.push(Cfg { size, parallel: true, pool, kind: (size % 3) as u8, delay_mode, fail: fail.clone(), steps: 2 });
                }
            }
        }
    }
    let mut calls = 0u64;
    let mut signatures = BTreeSet::new();
    let mut overlap = 0usize;
    for (i, c) in cfgs.iter().enumerate() {
        let out = run_cfg(c, 0x5eed ^ i as u64);
        calls += out.calls;
        signatures.extend(out.signatures.iter().copied());
        overlap = overlap.max(out.max_overlap);
        for (sig, why) in &out.findings {
            bad += 1;
            println!("SANITIZER-FINDING {}", json!({"signature": sig, "why": why, "config": cfg_json(c)}));
        }
    }
    println!(
        "SANITIZER-SUMMARY {}",
        json!({"configurations": cfgs.len(), "child_maker_calls": calls, "distinct_interleaving_signatures": signatures.len(), "max_overlapping_calls": overlap, "findings": bad})
    );
    i32::from(bad > 0)
}

fn harness_dir(args: &Args) -> std::path::PathBuf {
    args.root.join("harness")
}

fn miri(args: &Args, seeds: u32, tiny: bool, rep: &mut Report) {
    let mut cmd = std::process::Command::new("cargo");
    cmd.current_dir(harness_dir(args))
        .args(["+nightly", "miri", "run", "--offline", "-q", "-p", "vh-gen", "--", "--sanitizer-child", if tiny { "--tiny" } else { "--full" }])
        .env("CARGO_NET_OFFLINE", "true")
        .env("CARGO_TARGET_DIR", harness_dir(args).join("target/miri"))
        .env(
            "MIRIFLAGS",
            format!("-Zmiri-tree-borrows -Zmiri-permissive-provenance -Zmiri-ignore-leaks -Zmiri-disable-isolation -Zmiri-many-seeds=0..{seeds}"),
        );
    let out = run_child(&mut cmd, Duration::from_secs(3_000));
    absorb_sanitizer("miri", seeds, out, rep);
}

fn tsan(args: &Args, rep: &mut Report) {
    let mut cmd = std::process::Command::new("cargo");
    cmd.current_dir(harness_dir(args))
        .args([
            "+nightly", "run", "--offline", "-q", "-Zbuild-std", "--target", "x86_64-unknown-linux-gnu", "-p", "vh-gen", "--", "--sanitizer-child", "--big",
        ])
        .env("CARGO_NET_OFFLINE", "true")
        .env("CARGO_TARGET_DIR", harness_dir(args).join("target/tsan"))
        .env("RUSTFLAGS", "-Zsanitizer=thread")
        .env("TSAN_OPTIONS", format!("halt_on_error=1 exitcode=66 suppressions={}", harness_dir(args).join("vh-gen/tsan.supp").display()));
    let out = run_child(&mut cmd, Duration::from_secs(3_000));
    absorb_sanitizer("tsan", 1, out, rep);
}

fn absorb_sanitizer(tool: &str, runs: u32, out: ChildOutcome, rep: &mut Report) {
    let (code, so, se) = match out {
        ChildOutcome::Exited(c, so, se) => (Some(c), so, se),
        ChildOutcome::Signaled(s, so, se) => (Some(-s), so, se),
        ChildOutcome::WallTimeout(so, se) => {
            rep.inconclusive(format!("{tool}: wall-clock watchdog fired"));
            (None, so, se)
        }
        ChildOutcome::SpawnFailed(e) => {
            rep.inconclusive(format!("{tool}: cannot start cargo: {e}"));
            return;
        }
    };
    let mut summaries = 0u32;
    let mut calls = 0u64;
    let mut sigs = 0u64;
    for line in so.lines() {
        if let Some(rest) = line.strip_prefix("SANITIZER-FINDING ") {
            if let Ok(v) = serde_json_from(rest) {
                let sig = v["signature"].as_str().unwrap_or("C09/sanitizer/finding").to_string();
                rep.violation(format!("{sig}/under-{tool}"), || v.clone());
            }
        } else if let Some(rest) = line.strip_prefix("SANITIZER-SUMMARY ") {
            if let Ok(v) = serde_json_from(rest) {
                summaries += 1;
                calls += v["child_maker_calls"].as_u64().unwrap_or(0);
                sigs += v["distinct_interleaving_signatures"].as_u64().unwrap_or(0);
                rep.evals(v["child_maker_calls"].as_u64().unwrap_or(0));
                rep.distinct(mix(fnv_str(tool), u64::from(summaries)));
            }
        }
    }
    let report_lines: Vec<&str> = se
        .lines()
        .filter(|l| l.contains("Undefined Behavior") || l.contains("data race") || l.contains("WARNING: ThreadSanitizer") || l.starts_with("error:"))
        .take(8)
        .collect();
    if !report_lines.is_empty() && code != Some(0) {
        let which = if tool == "miri" { "C09/miri/undefined-behaviour-or-data-race" } else { "C09/tsan/data-race" };
        let tail: String = se.chars().rev().take(3_000).collect::<String>().chars().rev().collect();
        rep.violation(which, || json!({"tool": tool, "exit": code, "report_lines": report_lines, "stderr_tail": tail}));
    } else if code.is_some() && code != Some(0) && summaries == 0 {
        // the tool itself could not build / run: not a verdict
        let tail: String = se.chars().rev().take(600).collect::<String>().chars().rev().collect();
        rep.inconclusive(format!("{tool} run did not complete (exit {code:?}): {tail}"));
    }
    rep.table(
        &format!("sanitizer_{tool}"),
        json!({"runs_requested": runs, "runs_completed": summaries, "child_maker_calls": calls, "interleaving_signatures_summed_over_runs": sigs, "exit": code, "reports": report_lines.len()}),
    );
    if summaries < runs && code == Some(0) {
        rep.inconclusive(format!("{tool}: only {summaries} of {runs} runs reported"));
    }
}

fn serde_json_from(s: &str) -> Result<Value, ()> {
    serde_json::from_str::<Value>(s).map_err(|_| ())
}

pub fn main() -> i32 {
    let args = Args::parse();
    if args.prop != "C09" {
        eprintln!("vh-gen: unknown property {}", args.prop);
        return 2;
    }
    let cfgs = configs(args.tier, args.seed);
    crate::start_stall_detector(args.root.clone());
    let reps = args.tier.pick(1u64, 6u64);
    // configurations run on a few harness threads at once: par_next configurations bring
    // their own rayon pools, so the machine is deliberately oversubscribed
    let workers = args.threads.min(8);
    let mut rep = run_shards(cfgs.len(), workers, 16 << 20, |i| {
        let mut rep = Report::new();
        let c = &cfgs[i];
        for r in 0..reps {
            let out = run_cfg(c, mix(args.seed, mix(i as u64, r)));
            rep.evals(out.calls.max(1));
            rep.count_n("generation-steps", out.steps_run as u64);
            rep.count_n(if c.parallel { "child-maker-calls:par_next" } else { "child-maker-calls:serial_next" }, out.calls);
            rep.distinct(fnv_str(&format!("{c:?}")));
            for s in &out.signatures {
                rep.distinct(mix(0x51, *s));
            }
            if c.parallel {
                rep.count_n(&format!("pool-{}:steps", c.pool), out.steps_run as u64);
                rep.count_n(&format!("pool-{}:configs-whose-max-overlapping-calls={}", c.pool, out.max_overlap), 1);
                if out.max_overlap >= 2 {
                    rep.count("parallel:steps-with-overlapping-calls");
                }
            }
            for (sig, why) in out.findings {
                rep.violation(sig, || json!({"config": cfg_json(c), "why": why}));
            }
            if rep.wants_sample() && c.parallel && c.size >= 5 && out.max_overlap >= 2 && !c.fail.is_empty() {
                rep.sample(|| json!({"kind": "generation step under fault injection", "config": cfg_json(c), "calls": out.calls, "max_overlapping_calls": out.max_overlap, "interleaving_signatures": out.signatures.len()}));
            }
        }
        rep
    });
    let overlapping = rep.counter("parallel:steps-with-overlapping-calls");
    if overlapping == 0 {
        rep.inconclusive("schedule dimension: the parallel variant never overlapped two child-maker calls in this run");
    }
    rep.table("native_stress", json!({"configurations": cfgs.len(), "repetitions": reps, "harness_threads": workers}));
    // sanitizers
    let no_sanitizers = args.has_flag("--no-sanitizers");
    if !no_sanitizers {
        match args.tier {
            Tier::Quick => miri(&args, 8, true, &mut rep),
            Tier::Thorough => {
                miri(&args, 32, false, &mut rep);
                tsan(&args, &mut rep);
            }
        }
    }
    rep.finish(
        &args,
        "fault_enumeration",
        "population sizes {0,1,2,3,5,8,17,64,257,1000} x {serial_next, par_next on rayon pools of 1,2,3,4,8,16} x injected delay {none, yield, spin, sleep} x failure at every call index (sizes <= 17; sampled positions and random multi-failure sets beyond) x Vec / VecDeque populations, 2-3 consecutive generations each; the same probe workload at small sizes under Miri (tree borrows, many seeds) and, in the thorough tier, ThreadSanitizer. distinct_nontrivial = distinct configurations + distinct interleaving signatures (order of call start/end events by worker)",
        false,
        &[
            "the probe child maker is user code: delays are injected there, a legitimate suspension point",
            "schedules are explored by stress, pool sizes, injected delays, Miri seeds and TSan — not exhaustively",
            "Stacked Borrows is not used under Miri because crossbeam-epoch's container-of pattern is a known false positive there; Tree Borrows accepts it",
        ],
    )
}
