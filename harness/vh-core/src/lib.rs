//! Shared machinery for the runtime monitors: deterministic PRNG, a recording
//! RNG wrapper handed to the code under test, a non-asymptotic statistical
//! monitor, panic capture, sharding, evidence / replay / known-finding handling.

pub mod panics;
pub mod prng;
pub mod report;
pub mod shard;
pub mod stats;
pub mod trace_rng;

pub use panics::{catch, PanicInfo};
pub use prng::Xo;
pub use report::{Args, Report, Tier};
pub use trace_rng::TraceRng;

pub use serde_json::{json, Value};

/// FNV-1a 64 over bytes; used for structural hashes of cases (distinct counting).
#[must_use]
pub fn fnv(bytes: &[u8]) -> u64 {
    let mut h: u64 = 0xcbf2_9ce4_8422_2325;
    for b in bytes {
        h ^= u64::from(*b);
        h = h.wrapping_mul(0x0000_0100_0000_01b3);
    }
    h
}

#[must_use]
pub fn fnv_str(s: &str) -> u64 {
    fnv(s.as_bytes())
}

#[must_use]
pub fn mix(a: u64, b: u64) -> u64 {
    let mut z = a ^ b.wrapping_mul(0x9e37_79b9_7f4a_7c15).rotate_left(17);
    z = (z ^ (z >> 30)).wrapping_mul(0xbf58_476d_1ce4_e5b9);
    z = (z ^ (z >> 27)).wrapping_mul(0x94d0_49bb_1331_11eb);
    z ^ (z >> 31)
}
