//! Sharding over worker threads (pure workloads) and subprocess helpers (workloads that
//! may abort the process).

use std::{
    sync::{
        atomic::{AtomicUsize, Ordering},
        Mutex,
    },
    time::Duration,
};

use crate::report::Report;

/// Runs `f(shard_index)` for shard_index in 0..shards on `threads` worker threads with
/// the given stack size, merging the partial reports.
pub fn run_shards<F>(shards: usize, threads: usize, stack_bytes: usize, f: F) -> Report
where
    F: Fn(usize) -> Report + Sync,
{
    let next = AtomicUsize::new(0);
    let merged = Mutex::new(Report::new());
    std::thread::scope(|scope| {
        let mut handles = Vec::new();
        for w in 0..threads.min(shards.max(1)) {
            let next = &next;
            let merged = &merged;
            let f = &f;
            let h = std::thread::Builder::new()
                .name(format!("shard-worker-{w}"))
                .stack_size(stack_bytes)
                .spawn_scoped(scope, move || loop {
                    let i = next.fetch_add(1, Ordering::Relaxed);
                    if i >= shards {
                        break;
                    }
                    set_context(format!("shard {i} of {shards}"));
                    let part = match crate::panics::catch(|| f(i)) {
                        Ok(r) => r,
                        Err(p) => {
                            // A panic that escaped a monitor is a harness problem, not a verdict.
                            let mut r = Report::new();
                            r.inconclusive(format!("harness shard {i} panicked outside a monitor: {p}"));
                            r
                        }
                    };
                    merged.lock().unwrap_or_else(|e| e.into_inner()).merge(part);
                })
                .expect("spawn shard worker");
            handles.push(h);
        }
        for h in handles {
            let _ = h.join();
        }
    });
    merged.into_inner().unwrap_or_else(|e| e.into_inner())
}

#[derive(Debug)]
pub enum ChildOutcome {
    Exited(i32, String, String),
    Signaled(i32, String, String),
    /// wall-clock watchdog fired: inconclusive, never a violation
    WallTimeout(String, String),
    SpawnFailed(String),
}

/// Runs a subprocess with a wall-clock watchdog; stdout/stderr captured.
pub fn run_child(cmd: &mut std::process::Command, wall: Duration) -> ChildOutcome {
    use std::io::Read;
    use std::os::unix::process::ExitStatusExt;
    use std::process::Stdio;
    cmd.stdout(Stdio::piped()).stderr(Stdio::piped()).stdin(Stdio::null());
    let mut child = match cmd.spawn() {
        Ok(c) => c,
        Err(e) => return ChildOutcome::SpawnFailed(e.to_string()),
    };
    let mut out = child.stdout.take().expect("piped");
    let mut err = child.stderr.take().expect("piped");
    let t_out = std::thread::spawn(move || {
        let mut s = Vec::new();
        let _ = out.read_to_end(&mut s);
        String::from_utf8_lossy(&s).into_owned()
    });
    let t_err = std::thread::spawn(move || {
        let mut s = Vec::new();
        let _ = err.read_to_end(&mut s);
        String::from_utf8_lossy(&s).into_owned()
    });
    let start = std::time::Instant::now();
    let status = loop {
        match child.try_wait() {
            Ok(Some(st)) => break Some(st),
            Ok(None) => {
                if start.elapsed() > wall {
                    let _ = child.kill();
                    let _ = child.wait();
                    break None;
                }
                std::thread::sleep(Duration::from_millis(20));
            }
            Err(_) => break None,
        }
    };
    let so = t_out.join().unwrap_or_default();
    let se = t_err.join().unwrap_or_default();
    match status {
        None => ChildOutcome::WallTimeout(so, se),
        Some(st) => {
            if let Some(code) = st.code() {
                ChildOutcome::Exited(code, so, se)
            } else {
                ChildOutcome::Signaled(st.signal().unwrap_or(-1), so, se)
            }
        }
    }
}

/// Set RLIMIT_CPU (seconds) and RLIMIT_AS (bytes) for the *current* process.
/// Used by subprocess shards right after start.
pub fn limit_self(cpu_seconds: u64, address_space_bytes: u64) {
    // SAFETY: plain setrlimit calls with valid pointers to stack values.
    unsafe {
        if cpu_seconds > 0 {
            let lim = libc::rlimit {
                rlim_cur: cpu_seconds,
                rlim_max: cpu_seconds + 5,
            };
            libc::setrlimit(libc::RLIMIT_CPU, &lim);
        }
        if address_space_bytes > 0 {
            let lim = libc::rlimit {
                rlim_cur: address_space_bytes,
                rlim_max: address_space_bytes,
            };
            libc::setrlimit(libc::RLIMIT_AS, &lim);
        }
    }
}

/// CPU time consumed by this thread so far, in seconds.
#[must_use]
pub fn thread_cpu_seconds() -> f64 {
    // SAFETY: clock_gettime with a valid pointer.
    unsafe {
        let mut ts = libc::timespec {
            tv_sec: 0,
            tv_nsec: 0,
        };
        libc::clock_gettime(libc::CLOCK_THREAD_CPUTIME_ID, &mut ts);
        ts.tv_sec as f64 + ts.tv_nsec as f64 * 1e-9
    }
}

// ------------------------------------------------------------------------------------
// Supervision: a check whose code under test may take the whole process down (allocation
// failure, stack exhaustion, runaway growth) runs as a child of itself. The child marks what
// it is about to hand to the code under test; if it dies abnormally the parent reports the
// open marks as the witness of a violation instead of dying silently.

fn supervised_child() -> bool {
    std::env::var_os("VERIF_SUPERVISED").is_some()
}

thread_local! {
    static RISKY_TID: u64 = {
        static NEXT: std::sync::atomic::AtomicU64 = std::sync::atomic::AtomicU64::new(1);
        NEXT.fetch_add(1, Ordering::Relaxed)
    };
}

/// calls in progress: mark id -> (thread handle, thread CPU seconds at the start)
static IN_PROGRESS: Mutex<Vec<(u64, libc::pthread_t, f64)>> = Mutex::new(Vec::new());
static HANG_WATCHDOG: std::sync::Once = std::sync::Once::new();
/// CPU seconds one call into the code under test may burn before it counts as hanging
pub const RISKY_CPU_BUDGET_S: f64 = 150.0;

fn cpu_of(thread: libc::pthread_t) -> Option<f64> {
    // SAFETY: plain libc calls with valid out-pointers; the handle belongs to a live thread
    // (entries are removed by that thread itself before it exits a call).
    unsafe {
        let mut clock: libc::clockid_t = 0;
        if libc::pthread_getcpuclockid(thread, &mut clock) != 0 {
            return None;
        }
        let mut ts = libc::timespec { tv_sec: 0, tv_nsec: 0 };
        if libc::clock_gettime(clock, &mut ts) != 0 {
            return None;
        }
        Some(ts.tv_sec as f64 + ts.tv_nsec as f64 * 1e-9)
    }
}

/// Marks the start of one call into the code under test (child mode only; a no-op otherwise).
pub fn risky_begin(describe: impl FnOnce() -> String) {
    if supervised_child() {
        let tid = RISKY_TID.with(|t| *t);
        let text: String = describe().chars().take(700).collect();
        println!("RISKY-BEGIN {tid} {}", text.replace('\n', " "));
        // SAFETY: pthread_self has no preconditions
        let me = unsafe { libc::pthread_self() };
        IN_PROGRESS.lock().unwrap_or_else(|e| e.into_inner()).push((tid, me, thread_cpu_seconds()));
        // hang watchdog: decides on the CPU time of the calling thread (independent of machine
        // load), never on wall-clock time
        HANG_WATCHDOG.call_once(|| {
            std::thread::spawn(|| loop {
                std::thread::sleep(Duration::from_millis(500));
                let open = IN_PROGRESS.lock().unwrap_or_else(|e| e.into_inner()).clone();
                for (tid, th, t0) in open {
                    if let Some(now) = cpu_of(th) {
                        if now - t0 > RISKY_CPU_BUDGET_S {
                            println!("RISKY-HANG {tid}");
                            use std::io::Write;
                            let _ = std::io::stdout().flush();
                            std::process::exit(117);
                        }
                    }
                }
            });
        });
    }
}

pub fn risky_end() {
    if supervised_child() {
        let tid = RISKY_TID.with(|t| *t);
        IN_PROGRESS.lock().unwrap_or_else(|e| e.into_inner()).retain(|e| e.0 != tid);
        println!("RISKY-END {tid}");
    }
}

/// Parent mode: re-runs the current executable with the same arguments as a supervised child
/// (address space limited to `mem_bytes`), forwards its output, and returns its exit code - or,
/// if it died abnormally, prints a VIOLATION for `signature` with the open marks and returns 1.
/// Child mode: applies the memory limit and returns `None` (the caller carries on).
pub fn supervise(prop: &str, root: &std::path::Path, signature: &str, mem_bytes: u64, wall: Duration) -> Option<i32> {
    use std::io::{BufRead, BufReader};
    use std::os::unix::process::ExitStatusExt;
    use std::process::Stdio;
    if supervised_child() {
        limit_self(0, mem_bytes);
        if !cfg!(miri) {
            status_init(root, prop);
        }
        return None;
    }
    if cfg!(miri) || std::env::var_os("VERIF_NO_SUPERVISE").is_some() {
        return None;
    }
    let exe = std::env::current_exe().ok()?;
    let mut cmd = std::process::Command::new(exe);
    cmd.args(std::env::args().skip(1)).env("VERIF_SUPERVISED", "1").stdout(Stdio::piped()).stderr(Stdio::piped()).stdin(Stdio::null());
    let mut child = match cmd.spawn() {
        Ok(c) => c,
        Err(_) => return None, // cannot supervise: run unsupervised
    };
    let pid = child.id();
    let out = child.stdout.take()?;
    let err = child.stderr.take()?;
    let open = std::sync::Arc::new(Mutex::new(std::collections::BTreeMap::<String, String>::new()));
    let open2 = open.clone();
    let reader = std::thread::spawn(move || {
        for line in BufReader::new(out).lines().map_while(Result::ok) {
            if let Some(rest) = line.strip_prefix("RISKY-BEGIN ") {
                let (tid, text) = rest.split_once(' ').unwrap_or((rest, ""));
                open2.lock().unwrap_or_else(|e| e.into_inner()).insert(tid.to_string(), text.to_string());
            } else if let Some(tid) = line.strip_prefix("RISKY-END ") {
                open2.lock().unwrap_or_else(|e| e.into_inner()).remove(tid.trim());
            } else if let Some(tid) = line.strip_prefix("RISKY-HANG ") {
                // keep only the hanging call as the witness
                let mut o = open2.lock().unwrap_or_else(|e| e.into_inner());
                let keep = o.remove(tid.trim());
                o.clear();
                o.insert("hang".into(), format!("(used more than {RISKY_CPU_BUDGET_S} s of CPU time) {}", keep.unwrap_or_default()));
            } else {
                println!("{line}");
            }
        }
    });
    // stderr is passed on, and its last lines are kept: the runtime names the thread whose stack
    // overflowed and says when an allocation failed
    let tail = std::sync::Arc::new(Mutex::new(std::collections::VecDeque::<String>::new()));
    let tail2 = tail.clone();
    let err_reader = std::thread::spawn(move || {
        for line in BufReader::new(err).lines().map_while(Result::ok) {
            eprintln!("{line}");
            let mut t = tail2.lock().unwrap_or_else(|e| e.into_inner());
            t.push_back(line.chars().take(300).collect());
            if t.len() > 40 {
                t.pop_front();
            }
        }
    });
    let start = std::time::Instant::now();
    let status = loop {
        match child.try_wait() {
            Ok(Some(st)) => break Some(st),
            Ok(None) => {
                if start.elapsed() > wall {
                    let _ = child.kill();
                    let _ = child.wait();
                    break None;
                }
                std::thread::sleep(Duration::from_millis(50));
            }
            Err(_) => break None,
        }
    };
    let _ = reader.join();
    let _ = err_reader.join();
    let in_library = status_read(root, prop, pid);
    // status pages of grandchildren (subprocess shards) are not read by anybody: sweep them
    if let Ok(rd) = std::fs::read_dir(root.join("work")) {
        for e in rd.flatten() {
            if e.file_name().to_string_lossy().starts_with(&format!("status-{prop}-")) {
                let _ = std::fs::remove_file(e.path());
            }
        }
    }
    let Some(st) = status else {
        println!("INCONCLUSIVE property={prop} the supervised run hit the wall-clock watchdog ({} s) - not a verdict", wall.as_secs());
        return Some(0);
    };
    if let Some(code) = st.code() {
        if code != 101 && code != 134 && code != 117 {
            return Some(code);
        }
    }
    let how = if st.code() == Some(117) {
        format!("stopped by the hang watchdog: one call used more than {RISKY_CPU_BUDGET_S} s of CPU time")
    } else {
        st.signal().map_or_else(|| format!("exit status {:?}", st.code()), |s| format!("signal {s}"))
    };
    let stderr_tail: Vec<String> = tail.lock().unwrap_or_else(|e| e.into_inner()).iter().cloned().collect();
    // the thread the runtime blames, if it says so ("thread 'shard-worker-3' has overflowed its stack")
    let blamed: Option<String> = stderr_tail.iter().rev().find_map(|l| {
        let rest = l.split("thread '").nth(1)?;
        let (name, after) = rest.split_once('\'')?;
        after.contains("has overflowed its stack").then(|| name.to_string())
    });
    let mut marks: Vec<String> = open.lock().unwrap_or_else(|e| e.into_inner()).values().cloned().collect();
    for (thread, ctx) in &in_library {
        if blamed.as_ref().is_none_or(|b| b == thread) {
            marks.push(format!("thread {thread} was inside a call into the code under test while working on: {ctx}"));
        }
    }
    if marks.is_empty() {
        println!("INCONCLUSIVE property={prop} the supervised run died ({how}) outside any call into the code under test - harness problem, not a verdict");
        return Some(3);
    }
    let dir = root.join("replays");
    let _ = std::fs::create_dir_all(&dir);
    let path = dir.join(format!("{prop}-aborted.json"));
    let doc = serde_json::json!({
        "property": prop, "signature": signature, "how_the_process_died": how,
        "calls_into_the_code_under_test_that_were_in_progress": marks,
        "last_lines_of_stderr": stderr_tail,
        "meaning": "the process died (stack exhaustion / allocation failure / abort) or was stopped by the CPU-time hang watchdog while the code under test was handling one of these inputs, under an address-space limit of the stated size (0 = none). Re-run the check with the same seed and tier to reproduce.",
        "address_space_limit_bytes": mem_bytes,
        "args": std::env::args().collect::<Vec<_>>(),
    });
    let _ = std::fs::write(&path, serde_json::to_string_pretty(&doc).unwrap_or_default());
    println!("VIOLATION property={prop} replay={} signature={signature} occurrences=1", path.display());
    Some(1)
}

// ---------------------------------------------------------------------------------------------
// Progress pulse: hang detection for every check.
//
// Every worker thread that evaluates monitored calls ticks a per-thread counter
// (`Report::eval`). A watchdog thread samples, once a second, each registered thread's tick
// counter and *CPU* clock: a thread that burned more than the budget of CPU seconds without
// completing a single evaluation is stuck inside one call (a loop in the code under test that
// cannot terminate). That is reported as a violation with the thread's context as the witness.
// The decision is on the thread's CPU time, never on wall-clock time, so machine load, waiting
// for a child process or for a lock cannot trigger it.

pub struct Pulse {
    ticks: std::sync::atomic::AtomicU64,
    ctx: Mutex<String>,
    thread: libc::pthread_t,
    name: String,
}

// SAFETY: pthread_t is a plain handle; it is only used under the PULSES lock while the owning
// thread is still registered (the thread removes itself, under the same lock, before it ends).
unsafe impl Send for Pulse {}
unsafe impl Sync for Pulse {}

static PULSES: Mutex<Vec<std::sync::Arc<Pulse>>> = Mutex::new(Vec::new());
static PULSE_WATCHDOG: std::sync::Once = std::sync::Once::new();
static PULSE_CFG: Mutex<Option<(String, std::path::PathBuf, f64)>> = Mutex::new(None);
/// largest CPU gap (seconds, 1 s resolution) any thread showed between two evaluations
static MAX_GAP_MS: std::sync::atomic::AtomicU64 = std::sync::atomic::AtomicU64::new(0);

struct PulseHandle(std::sync::Arc<Pulse>);

impl Drop for PulseHandle {
    fn drop(&mut self) {
        let mut all = PULSES.lock().unwrap_or_else(|e| e.into_inner());
        all.retain(|p| !std::sync::Arc::ptr_eq(p, &self.0));
    }
}

thread_local! {
    static PULSE: PulseHandle = {
        // SAFETY: pthread_self has no preconditions
        let me = unsafe { libc::pthread_self() };
        let p = std::sync::Arc::new(Pulse {
            ticks: std::sync::atomic::AtomicU64::new(0),
            ctx: Mutex::new(String::new()),
            thread: me,
            name: std::thread::current().name().unwrap_or("unnamed").to_string(),
        });
        PULSES.lock().unwrap_or_else(|e| e.into_inner()).push(p.clone());
        PulseHandle(p)
    };
}

/// One monitored evaluation completed on this thread.
#[inline]
pub fn tick() {
    let _ = PULSE.try_with(|p| p.0.ticks.fetch_add(1, Ordering::Relaxed));
}

/// What this thread is working on (shown as the witness if it hangs).
pub fn set_context(text: String) {
    status_context(&text);
    let _ = PULSE.try_with(|p| {
        *p.0.ctx.lock().unwrap_or_else(|e| e.into_inner()) = text;
        p.0.ticks.fetch_add(1, Ordering::Relaxed);
    });
}

pub fn hang_budget_and_max_gap() -> (f64, f64) {
    let b = PULSE_CFG.lock().unwrap_or_else(|e| e.into_inner()).as_ref().map_or(0.0, |c| c.2);
    (b, MAX_GAP_MS.load(Ordering::Relaxed) as f64 / 1000.0)
}

/// Starts the hang watchdog of this process (idempotent).
pub fn start_hang_watchdog(prop: &str, root: &std::path::Path, budget_cpu_s: f64) {
    *PULSE_CFG.lock().unwrap_or_else(|e| e.into_inner()) = Some((prop.to_string(), root.to_path_buf(), budget_cpu_s));
    PULSE_WATCHDOG.call_once(|| {
        let _ = std::thread::Builder::new().name("hang-watchdog".into()).spawn(|| {
            // per registered thread: (ticks last seen, CPU seconds when they last changed)
            let mut seen: std::collections::HashMap<usize, (u64, f64)> = std::collections::HashMap::new();
            loop {
                std::thread::sleep(Duration::from_millis(1000));
                let Some((prop, root, budget)) = PULSE_CFG.lock().unwrap_or_else(|e| e.into_inner()).clone() else { continue };
                let mut stuck: Option<(String, String, f64)> = None;
                {
                    let all = PULSES.lock().unwrap_or_else(|e| e.into_inner());
                    let mut live = std::collections::HashSet::new();
                    for p in all.iter() {
                        let key = std::sync::Arc::as_ptr(p) as usize;
                        live.insert(key);
                        let Some(cpu) = cpu_of(p.thread) else { continue };
                        let ticks = p.ticks.load(Ordering::Relaxed);
                        let e = seen.entry(key).or_insert((ticks, cpu));
                        let gap = cpu - e.1;
                        if e.0 != ticks {
                            *e = (ticks, cpu);
                            continue;
                        }
                        MAX_GAP_MS.fetch_max((gap * 1000.0) as u64, Ordering::Relaxed);
                        if gap > budget {
                            let ctx = p.ctx.lock().unwrap_or_else(|e| e.into_inner()).clone();
                            stuck = Some((p.name.clone(), ctx, gap));
                            break;
                        }
                    }
                    seen.retain(|k, _| live.contains(k));
                }
                if let Some((name, ctx, gap)) = stuck {
                    let dir = root.join("replays");
                    let _ = std::fs::create_dir_all(&dir);
                    let path = dir.join(format!("{prop}-hang.json"));
                    let doc = serde_json::json!({
                        "property": prop, "signature": format!("{prop}/hang"),
                        "thread": name, "working_on": ctx, "cpu_seconds_without_completing_one_evaluation": gap,
                        "budget_cpu_seconds": budget,
                        "meaning": "a worker thread burned this much CPU time inside one monitored call without returning: the code under test does not terminate on an input the property covers. Re-run the check with the same seed and tier to reproduce; the thread context names the shard/configuration.",
                        "args": std::env::args().collect::<Vec<_>>(),
                    });
                    let _ = std::fs::write(&path, serde_json::to_string_pretty(&doc).unwrap_or_default());
                    println!("VIOLATION property={prop} replay={} signature={prop}/hang occurrences=1", path.display());
                    use std::io::Write;
                    let _ = std::io::stdout().flush();
                    std::process::exit(1);
                }
            }
        });
    });
}

// ---------------------------------------------------------------------------------------------
// Status page: what every worker thread of a supervised child is doing, readable by the parent
// after the child died (stack exhaustion, allocation failure and abort() cannot be caught in
// the process itself). A file under <root>/work is mapped shared; each thread owns one slot:
//   byte 0        depth of `catch` nesting = "inside a call into the code under test"
//   bytes 1..64   thread name (NUL padded)
//   bytes 64..512 context text (NUL padded), see `set_context`
// Stores are plain byte writes into the mapping; the parent only reads it after the child ended.

const SLOT: usize = 512;
const SLOTS: usize = 96;
static STATUS_BASE: std::sync::atomic::AtomicUsize = std::sync::atomic::AtomicUsize::new(0);
static NEXT_SLOT: AtomicUsize = AtomicUsize::new(0);

thread_local! {
    static MY_SLOT: std::cell::Cell<usize> = const { std::cell::Cell::new(usize::MAX) };
}

fn status_path(root: &std::path::Path, prop: &str, pid: u32) -> std::path::PathBuf {
    root.join("work").join(format!("status-{prop}-{pid}.bin"))
}

/// Child mode: create and map the status page (no-op when not supervised).
fn status_init(root: &std::path::Path, prop: &str) {
    if !supervised_child() || STATUS_BASE.load(Ordering::Relaxed) != 0 {
        return;
    }
    let _ = std::fs::create_dir_all(root.join("work"));
    let path = status_path(root, prop, std::process::id());
    let Ok(file) = std::fs::OpenOptions::new().read(true).write(true).create(true).truncate(true).open(&path) else { return };
    if file.set_len((SLOT * SLOTS) as u64).is_err() {
        return;
    }
    use std::os::fd::AsRawFd;
    // SAFETY: mapping a regular file we just created with the length we just set; the mapping
    // lives for the rest of the process
    let p = unsafe { libc::mmap(std::ptr::null_mut(), SLOT * SLOTS, libc::PROT_READ | libc::PROT_WRITE, libc::MAP_SHARED, file.as_raw_fd(), 0) };
    if p != libc::MAP_FAILED {
        STATUS_BASE.store(p as usize, Ordering::Release);
    }
}

fn my_slot() -> Option<*mut u8> {
    let base = STATUS_BASE.load(Ordering::Acquire);
    if base == 0 {
        return None;
    }
    let idx = MY_SLOT.try_with(|c| {
        if c.get() == usize::MAX {
            let i = NEXT_SLOT.fetch_add(1, Ordering::Relaxed);
            c.set(if i < SLOTS { i } else { usize::MAX - 1 });
            if i < SLOTS {
                let name = std::thread::current().name().unwrap_or("unnamed").to_string();
                // SAFETY: slot i lies inside the mapping; only this thread writes it
                unsafe {
                    let dst = (base + i * SLOT + 1) as *mut u8;
                    let n = name.len().min(62);
                    std::ptr::copy_nonoverlapping(name.as_ptr(), dst, n);
                }
            }
        }
        c.get()
    }).ok()?;
    (idx < SLOTS).then(|| (base + idx * SLOT) as *mut u8)
}

/// Marks this thread as being inside a call into the code under test (nesting allowed).
#[inline]
pub fn call_enter() {
    if let Some(p) = my_slot() {
        // SAFETY: p points at this thread's own slot inside the mapping
        unsafe { p.write_volatile(p.read_volatile().saturating_add(1)) };
    }
}

#[inline]
pub fn call_leave() {
    if let Some(p) = my_slot() {
        // SAFETY: as above
        unsafe { p.write_volatile(p.read_volatile().saturating_sub(1)) };
    }
}

/// Runs `f` marked as a call into the code under test (for call sites that are not under `catch`).
pub fn in_library<R>(f: impl FnOnce() -> R) -> R {
    call_enter();
    let r = f();
    call_leave();
    r
}

fn status_context(text: &str) {
    if let Some(p) = my_slot() {
        let bytes = text.as_bytes();
        let n = bytes.len().min(SLOT - 64 - 1);
        // SAFETY: the context area [64, 512) of this thread's own slot
        unsafe {
            let dst = p.add(64);
            std::ptr::write_bytes(dst, 0, SLOT - 64);
            std::ptr::copy_nonoverlapping(bytes.as_ptr(), dst, n);
        }
    }
}

/// Parent: the threads of a dead child that were inside a call into the code under test.
fn status_read(root: &std::path::Path, prop: &str, pid: u32) -> Vec<(String, String)> {
    let path = status_path(root, prop, pid);
    let data = std::fs::read(&path).unwrap_or_default();
    let _ = std::fs::remove_file(&path);
    let text = |b: &[u8]| String::from_utf8_lossy(b.split(|c| *c == 0).next().unwrap_or(&[])).to_string();
    data.chunks(SLOT)
        .filter(|c| c.len() == SLOT && c[0] > 0)
        .map(|c| (text(&c[1..64]), text(&c[64..])))
        .collect()
}
