//! Sharding over worker threads (pure workloads) and subprocess helpers (workloads that
//! may abort the process).

use std::{
    sync::{
        atomic::{AtomicUsize, Ordering},
        Mutex,
    },
    time::Duration,
};

use crate::report::Report;

/// Runs `f(shard_index)` for shard_index in 0..shards on `threads` worker threads with
/// the given stack size, merging the partial reports.
pub fn run_shards<F>(shards: usize, threads: usize, stack_bytes: usize, f: F) -> Report
where
    F: Fn(usize) -> Report + Sync,
{
    let next = AtomicUsize::new(0);
    let merged = Mutex::new(Report::new());
    std::thread::scope(|scope| {
        let mut handles = Vec::new();
        for w in 0..threads.min(shards.max(1)) {
            let next = &next;
            let merged = &merged;
            let f = &f;
            let h = std::thread::Builder::new()
                .name(format!("shard-worker-{w}"))
                .stack_size(stack_bytes)
                .spawn_scoped(scope, move || loop {
                    let i = next.fetch_add(1, Ordering::Relaxed);
                    if i >= shards {
                        break;
                    }
                    let part = match crate::panics::catch(|| f(i)) {
                        Ok(r) => r,
                        Err(p) => {
                            // A panic that escaped a monitor is a harness problem, not a verdict.
                            let mut r = Report::new();
                            r.inconclusive(format!("harness shard {i} panicked outside a monitor: {p}"));
                            r
                        }
                    };
                    merged.lock().unwrap_or_else(|e| e.into_inner()).merge(part);
                })
                .expect("spawn shard worker");
            handles.push(h);
        }
        for h in handles {
            let _ = h.join();
        }
    });
    merged.into_inner().unwrap_or_else(|e| e.into_inner())
}

#[derive(Debug)]
pub enum ChildOutcome {
    Exited(i32, String, String),
    Signaled(i32, String, String),
    /// wall-clock watchdog fired: inconclusive, never a violation
    WallTimeout(String, String),
    SpawnFailed(String),
}

/// Runs a subprocess with a wall-clock watchdog; stdout/stderr captured.
pub fn run_child(cmd: &mut std::process::Command, wall: Duration) -> ChildOutcome {
    use std::io::Read;
    use std::os::unix::process::ExitStatusExt;
    use std::process::Stdio;
    cmd.stdout(Stdio::piped()).stderr(Stdio::piped()).stdin(Stdio::null());
    let mut child = match cmd.spawn() {
        Ok(c) => c,
        Err(e) => return ChildOutcome::SpawnFailed(e.to_string()),
    };
    let mut out = child.stdout.take().expect("piped");
    let mut err = child.stderr.take().expect("piped");
    let t_out = std::thread::spawn(move || {
        let mut s = Vec::new();
        let _ = out.read_to_end(&mut s);
        String::from_utf8_lossy(&s).into_owned()
    });
    let t_err = std::thread::spawn(move || {
        let mut s = Vec::new();
        let _ = err.read_to_end(&mut s);
        String::from_utf8_lossy(&s).into_owned()
    });
    let start = std::time::Instant::now();
    let status = loop {
        match child.try_wait() {
            Ok(Some(st)) => break Some(st),
            Ok(None) => {
                if start.elapsed() > wall {
                    let _ = child.kill();
                    let _ = child.wait();
                    break None;
                }
                std::thread::sleep(Duration::from_millis(20));
            }
            Err(_) => break None,
        }
    };
    let so = t_out.join().unwrap_or_default();
    let se = t_err.join().unwrap_or_default();
    match status {
        None => ChildOutcome::WallTimeout(so, se),
        Some(st) => {
            if let Some(code) = st.code() {
                ChildOutcome::Exited(code, so, se)
            } else {
                ChildOutcome::Signaled(st.signal().unwrap_or(-1), so, se)
            }
        }
    }
}

/// Set RLIMIT_CPU (seconds) and RLIMIT_AS (bytes) for the *current* process.
/// Used by subprocess shards right after start.
pub fn limit_self(cpu_seconds: u64, address_space_bytes: u64) {
    // SAFETY: plain setrlimit calls with valid pointers to stack values.
    unsafe {
        if cpu_seconds > 0 {
            let lim = libc::rlimit {
                rlim_cur: cpu_seconds,
                rlim_max: cpu_seconds + 5,
            };
            libc::setrlimit(libc::RLIMIT_CPU, &lim);
        }
        if address_space_bytes > 0 {
            let lim = libc::rlimit {
                rlim_cur: address_space_bytes,
                rlim_max: address_space_bytes,
            };
            libc::setrlimit(libc::RLIMIT_AS, &lim);
        }
    }
}

/// CPU time consumed by this thread so far, in seconds.
#[must_use]
pub fn thread_cpu_seconds() -> f64 {
    // SAFETY: clock_gettime with a valid pointer.
    unsafe {
        let mut ts = libc::timespec {
            tv_sec: 0,
            tv_nsec: 0,
        };
        libc::clock_gettime(libc::CLOCK_THREAD_CPUTIME_ID, &mut ts);
        ts.tv_sec as f64 + ts.tv_nsec as f64 * 1e-9
    }
}
