//! xoshiro256** seeded through SplitMix64. Own implementation so the harness
//! PRNG does not depend on (and cannot be perturbed by) the crates under test.

use rand::RngCore;

#[derive(Clone, Debug, PartialEq, Eq)]
pub struct Xo {
    s: [u64; 4],
}

fn splitmix(x: &mut u64) -> u64 {
    *x = x.wrapping_add(0x9e37_79b9_7f4a_7c15);
    let mut z = *x;
    z = (z ^ (z >> 30)).wrapping_mul(0xbf58_476d_1ce4_e5b9);
    z = (z ^ (z >> 27)).wrapping_mul(0x94d0_49bb_1331_11eb);
    z ^ (z >> 31)
}

impl Xo {
    #[must_use]
    pub fn new(seed: u64) -> Self {
        let mut x = seed;
        let s = [
            splitmix(&mut x),
            splitmix(&mut x),
            splitmix(&mut x),
            splitmix(&mut x),
        ];
        Self { s }
    }

    /// Derive an independent stream from (seed, label, index).
    #[must_use]
    pub fn derive(seed: u64, label: &str, index: u64) -> Self {
        Self::new(crate::mix(crate::mix(seed, crate::fnv_str(label)), index))
    }

    #[inline]
    pub fn next(&mut self) -> u64 {
        let r = self.s[1].wrapping_mul(5).rotate_left(7).wrapping_mul(9);
        let t = self.s[1] << 17;
        self.s[2] ^= self.s[0];
        self.s[3] ^= self.s[1];
        self.s[1] ^= self.s[2];
        self.s[0] ^= self.s[3];
        self.s[2] ^= t;
        self.s[3] = self.s[3].rotate_left(45);
        r
    }

    /// Uniform in 0..n (n > 0); rejection-free multiply-shift (bias < 2^-32 for small n,
    /// irrelevant for workload generation).
    #[inline]
    pub fn below(&mut self, n: u64) -> u64 {
        debug_assert!(n > 0);
        ((u128::from(self.next()) * u128::from(n)) >> 64) as u64
    }

    #[inline]
    pub fn usize_below(&mut self, n: usize) -> usize {
        self.below(n as u64) as usize
    }

    /// inclusive range
    #[inline]
    pub fn range(&mut self, lo: i64, hi: i64) -> i64 {
        debug_assert!(lo <= hi);
        let span = (hi as i128 - lo as i128 + 1) as u128;
        let r = (u128::from(self.next()) * span) >> 64;
        (lo as i128 + r as i128) as i64
    }

    #[inline]
    pub fn chance(&mut self, num: u64, den: u64) -> bool {
        self.below(den) < num
    }

    #[inline]
    pub fn f64(&mut self) -> f64 {
        (self.next() >> 11) as f64 / (1u64 << 53) as f64
    }

    pub fn pick<'a, T>(&mut self, xs: &'a [T]) -> &'a T {
        &xs[self.usize_below(xs.len())]
    }

    pub fn shuffle<T>(&mut self, xs: &mut [T]) {
        for i in (1..xs.len()).rev() {
            let j = self.usize_below(i + 1);
            xs.swap(i, j);
        }
    }

    #[must_use]
    pub fn state(&self) -> [u64; 4] {
        self.s
    }
}

impl RngCore for Xo {
    fn next_u32(&mut self) -> u32 {
        (self.next() >> 32) as u32
    }

    fn next_u64(&mut self) -> u64 {
        self.next()
    }

    fn fill_bytes(&mut self, dst: &mut [u8]) {
        for chunk in dst.chunks_mut(8) {
            let w = self.next().to_le_bytes();
            chunk.copy_from_slice(&w[..chunk.len()]);
        }
    }
}
