//! `TraceRng`: the hook on the random stream. It is the generator handed to the code
//! under test; it counts every call (and the number of 32-bit / 64-bit / byte draws)
//! and can report a fingerprint of its position without consuming anything.

use rand::RngCore;

use crate::prng::Xo;

#[derive(Clone, Debug, PartialEq, Eq)]
pub struct TraceRng {
    inner: Xo,
    pub calls: u64,
    pub u32_calls: u64,
    pub u64_calls: u64,
    pub byte_calls: u64,
    /// hostile prefix: the first `script_left` raw draws return `script_words` in rotation
    script_words: [u64; 2],
    script_left: u32,
    script_pos: u32,
}

/// Position of a generator: number of calls made so far and the next word it would
/// produce. Two generators with equal fingerprints started from one state have consumed
/// the same amount of randomness.
#[derive(Clone, Copy, Debug, PartialEq, Eq, Hash)]
pub struct Fingerprint {
    pub calls: u64,
    pub next_word: u64,
}

impl TraceRng {
    #[must_use]
    pub fn new(seed: u64) -> Self {
        Self::from_xo(Xo::new(seed))
    }

    #[must_use]
    pub fn from_xo(inner: Xo) -> Self {
        Self {
            inner,
            calls: 0,
            u32_calls: 0,
            u64_calls: 0,
            byte_calls: 0,
            script_words: [0, 0],
            script_left: 0,
            script_pos: 0,
        }
    }

    /// A stream that starts with a hostile prefix - all zeros, all ones, alternating extremes,
    /// only the top bit, only the low bit - and then continues pseudo-randomly (so that rejection
    /// loops inside the sampling library still terminate). "For all random streams" includes
    /// these: they put every sampler on its boundary values (r = 0.0, index 0, index n-1, both
    /// cut points equal, ...). Pattern and prefix length are derived from the seed.
    #[must_use]
    pub fn hostile(seed: u64) -> Self {
        let mut t = Self::new(seed);
        let words = match (seed >> 3) % 6 {
            0 => [0, 0],
            1 => [u64::MAX, u64::MAX],
            2 => [0, u64::MAX],
            3 => [u64::MAX, 0],
            4 => [1 << 63, 1 << 31],
            _ => [1, 1 << 32],
        };
        t.script_words = words;
        t.script_left = match (seed >> 7) % 4 {
            0 => 3,
            1 => 40,
            2 => 700,
            _ => 20_000,
        };
        t
    }

    /// All 24 hostile prefixes (6 patterns x 4 prefix lengths) over a pseudo-random tail.
    pub fn hostile_variants(salt: u64) -> impl Iterator<Item = Self> {
        (0..24u64).map(move |k| Self::hostile((salt << 9) | ((k / 6) << 7) | ((k % 6) << 3)))
    }

    /// One stream in eight is hostile, the others pseudo-random.
    #[must_use]
    pub fn stream(seed: u64) -> Self {
        if seed % 8 == 0 {
            Self::hostile(seed)
        } else {
            Self::new(seed)
        }
    }

    fn scripted(&mut self) -> Option<u64> {
        if self.script_left == 0 {
            return None;
        }
        self.script_left -= 1;
        let w = self.script_words[(self.script_pos % 2) as usize];
        self.script_pos += 1;
        Some(w)
    }

    #[must_use]
    pub fn derive(seed: u64, label: &str, index: u64) -> Self {
        Self::from_xo(Xo::derive(seed, label, index))
    }

    #[must_use]
    pub fn fingerprint(&self) -> Fingerprint {
        let mut c = self.inner.clone();
        Fingerprint {
            calls: self.calls,
            // the position inside a scripted prefix is part of the position
            next_word: c.next() ^ u64::from(self.script_left).rotate_left(40),
        }
    }

    /// Next word without the call count (position in the underlying stream only).
    #[must_use]
    pub fn peek(&self) -> u64 {
        let mut c = self.inner.clone();
        c.next()
    }
}

impl RngCore for TraceRng {
    fn next_u32(&mut self) -> u32 {
        self.calls += 1;
        self.u32_calls += 1;
        if let Some(w) = self.scripted() {
            return (w >> 32) as u32 | w as u32;
        }
        self.inner.next_u32()
    }

    fn next_u64(&mut self) -> u64 {
        self.calls += 1;
        self.u64_calls += 1;
        if let Some(w) = self.scripted() {
            return w;
        }
        self.inner.next_u64()
    }

    fn fill_bytes(&mut self, dst: &mut [u8]) {
        self.calls += 1;
        self.byte_calls += 1;
        if self.script_left > 0 {
            for chunk in dst.chunks_mut(8) {
                let w = self.scripted().unwrap_or_else(|| self.inner.next_u64()).to_le_bytes();
                chunk.copy_from_slice(&w[..chunk.len()]);
            }
            return;
        }
        self.inner.fill_bytes(dst);
    }
}
