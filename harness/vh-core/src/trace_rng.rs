//! `TraceRng`: the hook on the random stream. It is the generator handed to the code
//! under test; it counts every call (and the number of 32-bit / 64-bit / byte draws)
//! and can report a fingerprint of its position without consuming anything.

use rand::RngCore;

use crate::prng::Xo;

#[derive(Clone, Debug, PartialEq, Eq)]
pub struct TraceRng {
    inner: Xo,
    pub calls: u64,
    pub u32_calls: u64,
    pub u64_calls: u64,
    pub byte_calls: u64,
}

/// Position of a generator: number of calls made so far and the next word it would
/// produce. Two generators with equal fingerprints started from one state have consumed
/// the same amount of randomness.
#[derive(Clone, Copy, Debug, PartialEq, Eq, Hash)]
pub struct Fingerprint {
    pub calls: u64,
    pub next_word: u64,
}

impl TraceRng {
    #[must_use]
    pub fn new(seed: u64) -> Self {
        Self::from_xo(Xo::new(seed))
    }

    #[must_use]
    pub fn from_xo(inner: Xo) -> Self {
        Self {
            inner,
            calls: 0,
            u32_calls: 0,
            u64_calls: 0,
            byte_calls: 0,
        }
    }

    #[must_use]
    pub fn derive(seed: u64, label: &str, index: u64) -> Self {
        Self::from_xo(Xo::derive(seed, label, index))
    }

    #[must_use]
    pub fn fingerprint(&self) -> Fingerprint {
        let mut c = self.inner.clone();
        Fingerprint {
            calls: self.calls,
            next_word: c.next(),
        }
    }

    /// Next word without the call count (position in the underlying stream only).
    #[must_use]
    pub fn peek(&self) -> u64 {
        let mut c = self.inner.clone();
        c.next()
    }
}

impl RngCore for TraceRng {
    fn next_u32(&mut self) -> u32 {
        self.calls += 1;
        self.u32_calls += 1;
        self.inner.next_u32()
    }

    fn next_u64(&mut self) -> u64 {
        self.calls += 1;
        self.u64_calls += 1;
        self.inner.next_u64()
    }

    fn fill_bytes(&mut self, dst: &mut [u8]) {
        self.calls += 1;
        self.byte_calls += 1;
        self.inner.fill_bytes(dst);
    }
}
