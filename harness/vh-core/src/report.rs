//! Verdict handling: evidence files, replay files, known findings, exit codes.
//!
//! Three-valued verdicts: *violated* (exit 1, `VIOLATION property=<id> replay=<path>`),
//! *held on what was observed* (exit 0), *inconclusive* (recorded and printed as
//! `INCONCLUSIVE ...`, never folded into the other two). A run that observed nothing
//! exits 3 so it cannot be mistaken for a pass.

use std::time::Duration;
use std::{
    collections::{BTreeMap, HashSet},
    path::PathBuf,
    time::Instant,
};

use serde_json::{json, Map, Value};

#[derive(Clone, Copy, Debug, PartialEq, Eq)]
pub enum Tier {
    Quick,
    Thorough,
}

impl Tier {
    #[must_use]
    pub fn name(self) -> &'static str {
        match self {
            Tier::Quick => "quick",
            Tier::Thorough => "thorough",
        }
    }

    /// Pick a bound by tier.
    #[must_use]
    pub fn pick<T>(self, quick: T, thorough: T) -> T {
        match self {
            Tier::Quick => quick,
            Tier::Thorough => thorough,
        }
    }
}

#[derive(Clone, Debug)]
pub struct Args {
    pub prop: String,
    pub tier: Tier,
    pub seed: u64,
    pub threads: usize,
    pub replay: Option<PathBuf>,
    pub root: PathBuf,
    pub extra: Vec<String>,
    pub started: Instant,
}

impl Args {
    /// Usage: `<bin> <PROP> [--tier quick|thorough] [--seed N] [--threads N] [--replay FILE] [extra...]`
    /// Environment: VERIF_TIER, VERIF_SEED, VERIF_ROOT (default /verif), VERIF_THREADS.
    #[must_use]
    pub fn parse() -> Self {
        let mut it = std::env::args().skip(1);
        let prop = it.next().unwrap_or_else(|| {
            eprintln!("usage: <bin> <PROPERTY> [--tier quick|thorough] [--seed N] [--replay FILE]");
            std::process::exit(2);
        });
        let mut tier = match std::env::var("VERIF_TIER").ok().as_deref() {
            Some("thorough") => Tier::Thorough,
            _ => Tier::Quick,
        };
        let mut seed: u64 = std::env::var("VERIF_SEED")
            .ok()
            .and_then(|s| s.trim().parse::<i128>().ok())
            .map(|v| v as u64)
            .unwrap_or(20_260_927);
        let mut threads = std::env::var("VERIF_THREADS")
            .ok()
            .and_then(|s| s.parse().ok())
            .unwrap_or_else(|| {
                std::thread::available_parallelism()
                    .map(std::num::NonZeroUsize::get)
                    .unwrap_or(4)
            });
        let mut replay = None;
        let mut extra = Vec::new();
        while let Some(a) = it.next() {
            match a.as_str() {
                "--tier" => {
                    tier = match it.next().as_deref() {
                        Some("thorough") => Tier::Thorough,
                        _ => Tier::Quick,
                    }
                }
                "--seed" => {
                    if let Some(s) = it.next().and_then(|s| s.parse::<i128>().ok()) {
                        seed = s as u64;
                    }
                }
                "--threads" => {
                    if let Some(t) = it.next().and_then(|s| s.parse().ok()) {
                        threads = t;
                    }
                }
                "--replay" => replay = it.next().map(PathBuf::from),
                _ => extra.push(a),
            }
        }
        let root = std::env::var_os("VERIF_ROOT")
            .map(PathBuf::from)
            .unwrap_or_else(|| PathBuf::from("/verif"));
        let mut args = Self {
            prop,
            tier,
            seed,
            threads: threads.max(1),
            replay,
            root,
            extra,
            started: Instant::now(),
        };
        if let Some(path) = args.replay.clone() {
            // A replay file pins seed and tier; the workload is deterministic in them.
            if let Ok(text) = std::fs::read_to_string(&path) {
                if let Ok(v) = serde_json::from_str::<Value>(&text) {
                    if let Some(s) = v.get("seed").and_then(Value::as_u64) {
                        args.seed = s;
                    }
                    if let Some(t) = v.get("tier").and_then(Value::as_str) {
                        args.tier = if t == "thorough" {
                            Tier::Thorough
                        } else {
                            Tier::Quick
                        };
                    }
                    println!(
                        "REPLAY property={} signature={} seed={} tier={}",
                        args.prop,
                        v.get("signature").and_then(Value::as_str).unwrap_or("?"),
                        args.seed,
                        args.tier.name()
                    );
                }
            }
        }
        // every check runs as a supervised child of itself: a death of the process (stack
        // exhaustion, allocation failure, abort) while a worker is inside a call into the code
        // under test is reported by the parent with what that worker was doing
        {
            // no address-space limit where the check itself starts compilers / sanitizer runtimes
            let limit: u64 = if args.prop == "C09" || args.prop == "C19" { 0 } else { 48 << 30 };
            let wall = Duration::from_secs(if args.tier == Tier::Thorough { 8 * 3600 } else { 2 * 3600 });
            let sig = if args.prop == "C05" { "C05/aborted-or-hung-while-translating".to_string() } else { format!("{}/aborted", args.prop) };
            if let Some(code) = crate::shard::supervise(&args.prop, &args.root, &sig, limit, wall) {
                std::process::exit(code);
            }
        }
        // hang watchdog (CPU time of one evaluation, never wall-clock time)
        let budget = std::env::var("VERIF_HANG_BUDGET_S").ok().and_then(|v| v.parse::<f64>().ok())
            .unwrap_or(if args.tier == Tier::Thorough { 900.0 } else { 150.0 });
        crate::shard::start_hang_watchdog(&args.prop, &args.root, budget);
        args
    }

    #[must_use]
    pub fn has_flag(&self, flag: &str) -> bool {
        self.extra.iter().any(|e| e == flag)
    }
}

#[derive(Clone, Debug)]
struct Violation {
    count: u64,
    witness: Value,
}

/// Per-property observation record. Cheap to create per shard and merge.
#[derive(Clone, Debug, Default)]
pub struct Report {
    pub evaluations: u64,
    distinct: HashSet<u64>,
    /// cases known to be pairwise distinct by construction (exhaustive enumeration), counted
    /// instead of hashed
    distinct_counted: u64,
    samples: Vec<Value>,
    sample_cap: usize,
    counters: BTreeMap<String, u64>,
    tables: BTreeMap<String, Value>,
    violations: BTreeMap<String, Violation>,
    inconclusive: Vec<String>,
}

impl Report {
    #[must_use]
    pub fn new() -> Self {
        Self {
            sample_cap: 6,
            ..Self::default()
        }
    }

    #[inline]
    pub fn eval(&mut self) {
        self.evaluations += 1;
        crate::shard::tick();
    }

    #[inline]
    pub fn evals(&mut self, n: u64) {
        self.evaluations += n;
        crate::shard::tick();
    }

    /// Register a distinct non-trivial case by its structural hash.
    #[inline]
    pub fn distinct(&mut self, hash: u64) {
        // Bound memory: beyond 4M distinct hashes we stop inserting (the count is then a
        // lower bound, which is the conservative direction).
        if self.distinct.len() < 4_000_000 {
            self.distinct.insert(hash);
        }
    }

    /// Register `n` cases that are distinct by construction (enumeration without repeats).
    #[inline]
    pub fn distinct_by_construction(&mut self, n: u64) {
        self.distinct_counted += n;
    }

    #[must_use]
    pub fn distinct_count(&self) -> u64 {
        self.distinct.len() as u64 + self.distinct_counted
    }

    pub fn sample(&mut self, v: impl FnOnce() -> Value) {
        if self.samples.len() < self.sample_cap {
            self.samples.push(v());
        }
    }

    #[must_use]
    pub fn wants_sample(&self) -> bool {
        self.samples.len() < self.sample_cap
    }

    #[inline]
    pub fn count(&mut self, key: &str) {
        self.count_n(key, 1);
    }

    pub fn count_n(&mut self, key: &str, n: u64) {
        if let Some(c) = self.counters.get_mut(key) {
            *c += n;
        } else {
            self.counters.insert(key.to_string(), n);
        }
    }

    #[must_use]
    pub fn counter(&self, key: &str) -> u64 {
        self.counters.get(key).copied().unwrap_or(0)
    }

    #[must_use]
    pub fn counters(&self) -> &BTreeMap<String, u64> {
        &self.counters
    }

    pub fn table(&mut self, key: &str, v: Value) {
        self.tables.insert(key.to_string(), v);
    }

    /// Append to an array-valued table (creates it when missing).
    pub fn table_push(&mut self, key: &str, v: Value) {
        match self.tables.get_mut(key) {
            Some(Value::Array(a)) => {
                // keep evidence files readable: at most 250 rows per table
                if a.len() < 250 {
                    a.push(v);
                } else {
                    self.count_n(&format!("{key}:rows-omitted-from-evidence"), 1);
                }
            }
            _ => {
                self.tables.insert(key.to_string(), Value::Array(vec![v]));
            }
        }
    }

    /// Record a violation. `signature` identifies the *class* of failure exactly (call
    /// site / instruction / aspect) — it is what known findings are keyed on.
    pub fn violation(&mut self, signature: impl Into<String>, witness: impl FnOnce() -> Value) {
        // signatures are single tokens (they appear in `VIOLATION ... signature=<sig>` lines)
        let signature: String = signature.into().replace(char::is_whitespace, "_");
        if let Some(v) = self.violations.get_mut(&signature) {
            v.count += 1;
        } else {
            self.violations.insert(
                signature,
                Violation {
                    count: 1,
                    witness: witness(),
                },
            );
        }
    }

    #[must_use]
    pub fn violation_count(&self) -> usize {
        self.violations.len()
    }

    #[must_use]
    pub fn violation_signatures(&self) -> Vec<String> {
        self.violations.keys().cloned().collect()
    }

    pub fn inconclusive(&mut self, what: impl Into<String>) {
        let what = what.into();
        if !self.inconclusive.contains(&what) {
            self.inconclusive.push(what);
        }
    }

    pub fn merge(&mut self, other: Report) {
        self.evaluations += other.evaluations;
        self.distinct_counted += other.distinct_counted;
        for h in other.distinct {
            self.distinct(h);
        }
        for s in other.samples {
            if self.samples.len() < self.sample_cap {
                self.samples.push(s);
            }
        }
        for (k, n) in other.counters {
            *self.counters.entry(k).or_insert(0) += n;
        }
        for (k, v) in other.tables {
            match (self.tables.get_mut(&k), v) {
                (Some(Value::Array(a)), Value::Array(b)) => {
                    for x in b {
                        if a.len() < 250 {
                            a.push(x);
                        } else {
                            *self.counters.entry(format!("{k}:rows-omitted-from-evidence")).or_insert(0) += 1;
                        }
                    }
                }
                (_, v) => {
                    self.tables.insert(k, v);
                }
            }
        }
        for (sig, v) in other.violations {
            if let Some(mine) = self.violations.get_mut(&sig) {
                mine.count += v.count;
            } else {
                self.violations.insert(sig, v);
            }
        }
        for i in other.inconclusive {
            self.inconclusive(i);
        }
    }

    /// Writes evidence, prints verdict lines, returns the process exit code.
    pub fn finish(
        self,
        args: &Args,
        level: &str,
        rule: &str,
        exhaustive: bool,
        assumptions: &[&str],
    ) -> i32 {
        let known = load_known(&args.root, &args.prop);
        let mut unlisted = 0usize;
        let mut known_hits = Vec::new();
        let mut violation_records = Vec::new();
        std::fs::create_dir_all(args.root.join("replays")).ok();
        std::fs::create_dir_all(args.root.join("evidence")).ok();

        for (n, (sig, v)) in self.violations.iter().enumerate() {
            if let Some(k) = known.iter().find(|k| k.open && k.signature == *sig) {
                println!(
                    "KNOWN-FINDING: property={} {} [{}] (seen {} times this run)",
                    args.prop, k.what, sig, v.count
                );
                known_hits.push(json!({"signature": sig, "what": k.what, "occurrences": v.count}));
                continue;
            }
            unlisted += 1;
            let path = args.root.join("replays").join(format!(
                "{}-{}-{}.json",
                args.prop, args.seed, n
            ));
            let body = json!({
                "property": args.prop,
                "signature": sig,
                "seed": args.seed,
                "tier": args.tier.name(),
                "occurrences": v.count,
                "witness": v.witness,
            });
            std::fs::write(&path, serde_json::to_string_pretty(&body).unwrap_or_default()).ok();
            println!(
                "VIOLATION property={} replay={} signature={} occurrences={}",
                args.prop,
                path.display(),
                sig,
                v.count
            );
            if violation_records.len() < 20 {
                violation_records.push(json!({"signature": sig, "occurrences": v.count, "witness": v.witness}));
            }
        }
        for i in &self.inconclusive {
            println!("INCONCLUSIVE property={} {}", args.prop, i);
        }

        let mut coverage = Map::new();
        coverage.insert("evaluations".into(), json!(self.evaluations));
        coverage.insert("distinct_nontrivial".into(), json!(self.distinct_count()));
        coverage.insert("rule".into(), json!(rule));
        coverage.insert("samples".into(), Value::Array(self.samples.clone()));
        coverage.insert("exhaustive".into(), json!(exhaustive));
        if !self.counters.is_empty() {
            coverage.insert("counters".into(), json!(self.counters));
        }
        // Evidence files stay small enough to be read (and parsed) as a whole: arrays inside
        // the tables are cut to a row limit that is halved until the tables fit in ~1 MB; what
        // was cut is said in place.
        fn shrink(v: &Value, limit: usize) -> Value {
            match v {
                Value::Array(a) if a.len() > limit => {
                    let mut out: Vec<Value> = a.iter().take(limit).map(|x| shrink(x, limit)).collect();
                    out.push(json!(format!("... {} more rows omitted from the evidence file", a.len() - limit)));
                    Value::Array(out)
                }
                Value::Array(a) => Value::Array(a.iter().map(|x| shrink(x, limit)).collect()),
                Value::Object(o) => Value::Object(o.iter().map(|(k, x)| (k.clone(), shrink(x, limit))).collect()),
                other => other.clone(),
            }
        }
        let mut limit = 250usize;
        let tables: Map<String, Value> = loop {
            let t: Map<String, Value> = self.tables.iter().map(|(k, v)| (k.clone(), shrink(v, limit))).collect();
            let size: usize = t.values().map(|v| serde_json::to_string_pretty(v).map_or(0, |s| s.len())).sum();
            if size <= 1_000_000 || limit <= 4 {
                break t;
            }
            limit /= 2;
        };
        if limit < 250 {
            coverage.insert("evidence_row_limit_applied".into(), json!(limit));
        }
        for (k, v) in tables {
            coverage.insert(k, v);
        }
        let (hang_budget, max_gap) = crate::shard::hang_budget_and_max_gap();
        coverage.insert("hang_watchdog".into(), json!({
            "budget_cpu_s_per_evaluation": hang_budget,
            "largest_cpu_gap_between_evaluations_seen_s": max_gap,
            "rule": "a worker thread that burns more CPU time than the budget without completing one monitored evaluation is reported as <ID>/hang",
        }));
        coverage.insert("inconclusive".into(), json!(self.inconclusive));
        coverage.insert("known_findings_seen".into(), Value::Array(known_hits));
        coverage.insert("violation_witnesses".into(), Value::Array(violation_records));

        let wall = args.started.elapsed().as_secs_f64();
        let evidence = json!({
            "property_id": args.prop,
            "tier": args.tier.name(),
            "seed": args.seed,
            "level": level,
            "coverage": Value::Object(coverage),
            "assumptions": assumptions,
            "wall_s": (wall * 1000.0).round() / 1000.0,
            "violations": unlisted,
        });
        let path = args.root.join("evidence").join(format!("{}.json", args.prop));
        if let Err(e) = std::fs::write(
            &path,
            serde_json::to_string_pretty(&evidence).unwrap_or_default(),
        ) {
            eprintln!("cannot write evidence {}: {e}", path.display());
            return 3;
        }

        println!(
            "SUMMARY property={} tier={} seed={} evaluations={} distinct_nontrivial={} violations={} known={} inconclusive={} wall_s={:.1}",
            args.prop,
            args.tier.name(),
            args.seed,
            self.evaluations,
            self.distinct_count(),
            unlisted,
            self.violations.len() - unlisted,
            self.inconclusive.len(),
            wall
        );

        if unlisted > 0 {
            1
        } else if self.samples.is_empty() {
            println!(
                "HARNESS-ERROR property={} the evidence carries no sample case; fix the monitor",
                args.prop
            );
            3
        } else if self.evaluations == 0 || self.distinct_count() < 2 {
            println!(
                "HARNESS-ERROR property={} the monitor observed nothing; this is not a pass",
                args.prop
            );
            3
        } else {
            0
        }
    }
}

#[derive(Clone, Debug)]
pub struct Known {
    pub signature: String,
    pub what: String,
    pub open: bool,
}

/// `known_findings.json`: {"findings":[{"property","signature","status":"open"|"fixed","what",...}]}.
/// Only `open` entries suppress, and only the exact signature. Never written at run time.
#[must_use]
pub fn load_known(root: &std::path::Path, prop: &str) -> Vec<Known> {
    let path = root.join("known_findings.json");
    let Ok(text) = std::fs::read_to_string(path) else {
        return Vec::new();
    };
    let Ok(v) = serde_json::from_str::<Value>(&text) else {
        eprintln!("known_findings.json does not parse; ignoring it (nothing is suppressed)");
        return Vec::new();
    };
    v.get("findings")
        .and_then(Value::as_array)
        .map(|a| {
            a.iter()
                .filter(|f| f.get("property").and_then(Value::as_str) == Some(prop))
                .map(|f| Known {
                    signature: f
                        .get("signature")
                        .and_then(Value::as_str)
                        .unwrap_or("")
                        .to_string(),
                    what: f
                        .get("what")
                        .and_then(Value::as_str)
                        .unwrap_or("")
                        .to_string(),
                    open: f.get("status").and_then(Value::as_str) == Some("open"),
                })
                .collect()
        })
        .unwrap_or_default()
}
