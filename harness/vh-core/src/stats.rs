//! Statistical monitor with an explicit, non-asymptotic error budget.
//!
//! For a category with true probability p observed `count` times in `n` independent
//! trials, Bernstein's inequality gives
//!     P(|count - n p| >= t) <= 2 exp(-t^2 / (2 (n p (1-p) + t/3))).
//! Solving for the right-hand side = delta gives the tolerance below. With
//! delta = 1e-10 per category and a few thousand categories per run, a *correct*
//! implementation raises an alarm with probability < 1e-6 per run no matter how it
//! consumes the random stream.

use serde_json::{json, Value};

pub const DELTA: f64 = 1e-10;

#[must_use]
pub fn tolerance(n: u64, p: f64, delta: f64) -> f64 {
    let l = (2.0 / delta).ln();
    let v = n as f64 * p * (1.0 - p);
    l / 3.0 + (l * l / 9.0 + 2.0 * l * v).sqrt()
}

#[derive(Clone, Debug)]
pub struct FreqCheck {
    pub label: String,
    pub n: u64,
    pub count: u64,
    pub p: f64,
    pub tol: f64,
    pub ok: bool,
}

impl FreqCheck {
    #[must_use]
    pub fn to_json(&self) -> Value {
        json!({
            "category": self.label,
            "n": self.n,
            "count": self.count,
            "observed": if self.n > 0 { self.count as f64 / self.n as f64 } else { 0.0 },
            "expected_p": self.p,
            "tolerance_count": self.tol,
            "ok": self.ok,
        })
    }
}

/// Checks one category. p == 0 and p == 1 are exact.
#[must_use]
pub fn check(label: impl Into<String>, n: u64, count: u64, p: f64) -> FreqCheck {
    let label = label.into();
    if p <= 0.0 {
        return FreqCheck {
            label,
            n,
            count,
            p: 0.0,
            tol: 0.0,
            ok: count == 0,
        };
    }
    if p >= 1.0 {
        return FreqCheck {
            label,
            n,
            count,
            p: 1.0,
            tol: 0.0,
            ok: count == n,
        };
    }
    let tol = tolerance(n, p, DELTA);
    let dev = (count as f64 - n as f64 * p).abs();
    FreqCheck {
        label,
        n,
        count,
        p,
        tol,
        ok: dev <= tol,
    }
}

/// Smallest n such that the tolerance at probability p is below `frac` * n * p
/// (i.e. the monitor resolves a relative error of `frac`).
#[must_use]
pub fn resolution(n: u64, p: f64) -> f64 {
    tolerance(n, p, DELTA) / n as f64
}

/// Sample-mean check for a bounded variable in [0, range]: Hoeffding.
#[must_use]
pub fn mean_tolerance(n: u64, range: f64, delta: f64) -> f64 {
    range * ((2.0 / delta).ln() / (2.0 * n as f64)).sqrt()
}

#[must_use]
pub fn binom(n: u64, k: u64) -> f64 {
    if k > n {
        return 0.0;
    }
    let k = k.min(n - k);
    let mut r = 1.0f64;
    for i in 0..k {
        r = r * (n - i) as f64 / (i + 1) as f64;
    }
    r
}

#[cfg(test)]
mod tests {
    use super::*;

    #[test]
    fn tolerance_is_sane() {
        let t = tolerance(50_000, 0.5, DELTA);
        assert!(t > 700.0 && t < 900.0, "{t}");
        assert!(check("x", 50_000, 25_000, 0.5).ok);
        assert!(!check("x", 50_000, 27_000, 0.5).ok);
        assert!(check("z", 10, 0, 0.0).ok);
        assert!(!check("z", 10, 1, 0.0).ok);
        assert_eq!(binom(5, 2), 10.0);
    }
}
