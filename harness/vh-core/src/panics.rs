//! Panic capture: a panic inside code under test is an observation, not a crash of
//! the harness. The hook is silent (set VERIF_PANIC_VERBOSE=1 to see messages) and
//! records message + location in a thread-local that `catch` returns.

use std::{
    cell::RefCell,
    panic::{self, AssertUnwindSafe},
    sync::Once,
};

#[derive(Clone, Debug)]
pub struct PanicInfo {
    pub message: String,
    pub location: String,
}

impl std::fmt::Display for PanicInfo {
    fn fmt(&self, f: &mut std::fmt::Formatter<'_>) -> std::fmt::Result {
        write!(f, "panic at {}: {}", self.location, self.message)
    }
}

thread_local! {
    static LAST: RefCell<Option<PanicInfo>> = const { RefCell::new(None) };
    static CATCHING: RefCell<u32> = const { RefCell::new(0) };
}

static INSTALL: Once = Once::new();

pub fn install_hook() {
    INSTALL.call_once(|| {
        let verbose = std::env::var_os("VERIF_PANIC_VERBOSE").is_some();
        let default = panic::take_hook();
        panic::set_hook(Box::new(move |info| {
            let message = if let Some(s) = info.payload().downcast_ref::<&str>() {
                (*s).to_string()
            } else if let Some(s) = info.payload().downcast_ref::<String>() {
                s.clone()
            } else {
                "<non-string panic payload>".to_string()
            };
            let location = info
                .location()
                .map(|l| format!("{}:{}", l.file(), l.line()))
                .unwrap_or_else(|| "<unknown>".into());
            let catching = CATCHING.with(|c| *c.borrow() > 0);
            LAST.with(|l| {
                *l.borrow_mut() = Some(PanicInfo {
                    message: message.clone(),
                    location: location.clone(),
                });
            });
            if verbose || !catching {
                default(info);
            }
        }));
    });
}

/// Runs `f`, turning a panic into `Err(PanicInfo)`.
pub fn catch<R>(f: impl FnOnce() -> R) -> Result<R, PanicInfo> {
    install_hook();
    CATCHING.with(|c| *c.borrow_mut() += 1);
    LAST.with(|l| *l.borrow_mut() = None);
    // `catch` is the wrapper around calls into the code under test: mark the thread (status page
    // read by the supervising parent if this process dies)
    crate::shard::call_enter();
    let r = panic::catch_unwind(AssertUnwindSafe(f));
    crate::shard::call_leave();
    CATCHING.with(|c| *c.borrow_mut() -= 1);
    match r {
        Ok(v) => Ok(v),
        Err(_) => Err(LAST.with(|l| l.borrow_mut().take()).unwrap_or(PanicInfo {
            message: "<unknown>".into(),
            location: "<unknown>".into(),
        })),
    }
}
