//! C01 — Push programs evaluate to the state the instruction semantics prescribe.
//!
//! Deciding oracle: differential against the reference interpreter in `pushvm` on
//! (1) an instruction × boundary-state matrix (single `perform`),
//! (2) random nested programs and Plushy genomes, each run with step limits 0..=T so
//!     that *every intermediate state of the real interpreter loop* is compared.

use std::collections::BTreeMap;

use push::{
    genome::plushy::Plushy,
    push_vm::program::PushProgram,
};
use vh_core::{fnv_str, json, mix, shard::run_shards, Args, Report, Value, Xo};

use crate::{
    pushvm::{
        self, build_real, diff, gen_cap, gen_float, gen_genes, gen_inputs, gen_int,
        gen_program, gen_stacks, observe, parse_genes, perform_prog, probe_inputs, render_prog,
        to_real, to_real_gene, InVal, MState, RunEnd, Step, Ty, FLOAT_POOL, INT_POOL, MI, MP,
    },
    realrun::{real_perform, real_run, RealOut, RunOut},
};

/// Does the real outcome match one model step outcome? Err((aspect, detail)).
fn matches_step(step: &Step, before: &MState, out: &RealOut) -> Result<&'static str, (String, String)> {
    match step {
        Step::Ambiguous(options) => {
            let mut last = None;
            for o in options {
                match matches_step(o, before, out) {
                    Ok(_) => return Ok("ambiguous-accepted"),
                    Err(e) => last = Some(e),
                }
            }
            Err(last.unwrap_or_else(|| ("outcome".into(), "no option".into())))
        }
        Step::Next(n) => match out {
            RealOut::Ok(st) => match diff(n, &observe(st)) {
                None => match probe_inputs(st, &n.inputs) {
                    None => Ok("ok"),
                    Some(d) => Err(("inputs".into(), d)),
                },
                Some(a) => Err((a.into(), format!("result state differs in {a}"))),
            },
            other => Err((
                "outcome".into(),
                format!("semantics prescribe success, observed {}", other.describe()),
            )),
        },
        Step::Skip(_) => match out {
            RealOut::Recoverable(st, _) => match diff(before, &observe(st)) {
                None => Ok("skip"),
                Some(a) => Err((
                    format!("error-state-{a}"),
                    format!("state carried by the recoverable error differs in {a}"),
                )),
            },
            // An implementation may report "nothing to do" as Ok(unchanged): for program
            // evaluation that is the same as a skipped instruction.
            RealOut::Ok(st) => match diff(before, &observe(st)) {
                None => Ok("skip-as-noop"),
                Some(a) => Err((
                    a.into(),
                    format!("instruction must be skipped (state unchanged) but {a} changed"),
                )),
            },
            other => Err((
                "outcome".into(),
                format!("semantics prescribe a skipped instruction, observed {}", other.describe()),
            )),
        },
        Step::Fatal(_) => match out {
            RealOut::Fatal(st, _) => match diff(before, &observe(st)) {
                None => Ok("fatal"),
                Some(a) => Err((
                    format!("error-state-{a}"),
                    format!("state carried by the fatal error differs in {a}"),
                )),
            },
            other => Err((
                "outcome".into(),
                format!("semantics prescribe a fatal overflow, observed {}", other.describe()),
            )),
        },
    }
}

fn single_case(p: &MP, s: &MState, rep: &mut Report, origin: &str) {
    let name = match p {
        MP::I(i) => i.name(),
        MP::Block(_) => "Block".to_string(),
    };
    let real0 = match build_real(s) {
        Ok(r) => r,
        Err(pushvm::BuildError::Panic(p)) => {
            rep.eval();
            rep.violation("C01/initial-state/builder-panicked", || json!({"origin": origin, "state": s.to_json(), "panic": p, "meaning": "a legal initial state (stack contents within the configured limits) cannot even be assembled"}));
            return;
        }
        Err(e) => {
            rep.inconclusive(format!("generator produced an unbuildable state: {e:?}"));
            return;
        }
    };
    let step = perform_prog(p, s);
    let out = real_perform(&to_real(p), real0);
    rep.eval();
    rep.count(&format!("{name}:{}", step.kind()));
    let fills: Vec<usize> = Ty::ALL.iter().map(|t| fill_class(s.size(*t), s.cap(*t))).collect();
    rep.distinct(mix(fnv_str(&name), mix(fnv_str(step.kind()), fnv_str(&format!("{fills:?}")))));
    match matches_step(&step, s, &out) {
        Ok(_) => {
            if rep.wants_sample() && !matches!(step, Step::Skip(_)) && fnv_str(&p.render()) % 97 == 0 {
                rep.sample(|| json!({"kind": "single instruction", "origin": origin, "instruction": p.render(),
                    "state_before": s.to_json(), "prescribed": step.kind(), "observed": out.describe()}));
            }
        }
        Err((aspect, detail)) => {
            let aspect = if matches!(out, RealOut::Panic(_)) { "panic".to_string() } else { aspect };
            rep.violation(format!("C01/{name}/{aspect}"), || {
                json!({"origin": origin, "instruction": p.render(), "state_before": s.to_json(),
                       "prescribed": format!("{step:?}"), "observed_outcome": out.describe(),
                       "observed_state": out.obs().map(|o| o.to_json()), "detail": detail})
            });
        }
    }
}

fn fill_class(size: usize, cap: usize) -> usize {
    if size == 0 {
        0
    } else if size == cap {
        5
    } else if size + 1 == cap {
        4
    } else {
        size.min(3)
    }
}

/// Every instruction shape once (literal payloads are filled per case).
pub fn all_shapes() -> Vec<MI> {
    pushvm::all_shapes()
}

fn refresh_literal(i: &MI, g: &mut Xo, inputs: &BTreeMap<String, InVal>) -> MI {
    match i {
        MI::PushInt(_) => MI::PushInt(gen_int(g)),
        MI::PushFloat(_) => MI::PushFloat(gen_float(g)),
        MI::PushBool(_) => MI::PushBool(g.chance(1, 2)),
        MI::PushExec(_) => MI::PushExec(Box::new(pushvm::gen_mp(g, inputs, 2, &mut 5))),
        MI::PrintString(_) => MI::PrintString(
            g.pick(&["", "a", "x y\n", "ü.", "0"]).to_string(),
        ),
        MI::Input(_) => {
            let names: Vec<&String> = inputs.keys().collect();
            MI::Input((*g.pick(&names)).clone())
        }
        other => other.clone(),
    }
}

fn small_exec_items(g: &mut Xo, n: usize, inputs: &BTreeMap<String, InVal>) -> Vec<MP> {
    (0..n)
        .map(|_| pushvm::gen_mp(g, inputs, 1, &mut 4))
        .collect()
}

/// States of the instruction x state matrix for one instruction shape: every combination
/// of (capacity, fill) over the stacks the instruction reads or writes, `draws` random
/// fillings each.
pub fn matrix_cases(shape: &MI, seed: u64, draws: usize, label: &str) -> Vec<(MI, MState)> {
    let mut g = Xo::derive(seed, label, fnv_str(&shape.name()));
    let (operands, dest) = shape.io();
    let mut involved: Vec<Ty> = operands.iter().map(|(t, _)| *t).collect();
    if let Some(d) = dest {
        if !involved.contains(&d) {
            involved.push(d);
        }
    }
    if matches!(shape, MI::Input(_)) {
        involved = vec![Ty::Int, Ty::Float, Ty::Bool];
    }
    if let MI::Flush(t) | MI::IsEmpty(t) | MI::StackDepth(t) = shape {
        if !involved.contains(t) {
            involved.push(*t);
        }
    }
    let caps_pool = [0usize, 1, 2, 3, 4, 8];
    // enumerate (cap, fill) per involved stack
    let mut combos: Vec<Vec<(Ty, usize, usize)>> = vec![vec![]];
    for t in &involved {
        let mut next = Vec::new();
        for c in &combos {
            for cap in caps_pool {
                let mut fills = vec![0usize, 1, 2, 3, cap.saturating_sub(1), cap];
                fills.retain(|f| *f <= cap);
                fills.sort_unstable();
                fills.dedup();
                for f in fills {
                    let mut c2 = c.clone();
                    c2.push((*t, cap, f));
                    next.push(c2);
                }
            }
        }
        combos = next;
    }
    let mut out = Vec::with_capacity(combos.len() * draws);
    for combo in &combos {
        for _ in 0..draws {
            let inputs = {
                let mut m = gen_inputs(&mut g);
                if m.is_empty() {
                    m.insert("x".into(), InVal::I(gen_int(&mut g)));
                }
                m
            };
            let mut caps = [8usize; 4];
            let mut fill = [
                g.usize_below(3),
                g.usize_below(4),
                g.usize_below(4),
                g.usize_below(4),
            ];
            for (t, cap, f) in combo {
                caps[t.idx()] = *cap;
                fill[t.idx()] = *f;
            }
            let s = MState {
                exec: small_exec_items(&mut g, fill[0], &inputs),
                int: (0..fill[1]).map(|_| gen_int(&mut g)).collect(),
                float: (0..fill[2]).map(|_| gen_float(&mut g)).collect(),
                boolean: (0..fill[3]).map(|_| g.chance(1, 2)).collect(),
                caps,
                stdout: g.pick(&["", "", "pre", "1\n"]).to_string(),
                step_limit: g.usize_below(100),
                inputs: inputs.clone(),
            };
            let i = refresh_literal(shape, &mut g, &inputs);
            out.push((i, s));
        }
    }
    out
}

/// Instruction × state matrix for one instruction shape.
fn matrix_for(shape: &MI, seed: u64, draws: usize, rep: &mut Report) {
    for (i, s) in matrix_cases(shape, seed, draws, "C01-matrix") {
        single_case(&MP::I(i), &s, rep, "matrix");
    }
    let mut g = Xo::derive(seed, "C01-sweep", fnv_str(&shape.name()));
    let (operands, _) = shape.io();
    // exhaustive operand sweep over the boundary pools at a roomy configuration
    let int_ops = operands.iter().find(|(t, _)| *t == Ty::Int).map_or(0, |(_, n)| *n);
    let float_ops = operands.iter().find(|(t, _)| *t == Ty::Float).map_or(0, |(_, n)| *n);
    let base = |g: &mut Xo| MState {
        exec: vec![],
        int: vec![gen_int(g)],
        float: vec![gen_float(g)],
        boolean: vec![g.chance(1, 2)],
        caps: [8, 8, 8, 8],
        stdout: String::new(),
        step_limit: 10,
        inputs: BTreeMap::new(),
    };
    if int_ops == 1 {
        for a in INT_POOL {
            let mut s = base(&mut g);
            s.int.push(a);
            single_case(&MP::I(shape.clone()), &s, rep, "operand-sweep");
        }
    } else if int_ops == 2 {
        for a in INT_POOL {
            for b in INT_POOL {
                let mut s = base(&mut g);
                s.int.push(b);
                s.int.push(a); // a = top
                single_case(&MP::I(shape.clone()), &s, rep, "operand-sweep");
            }
        }
    } else if int_ops == 3 {
        for a in INT_POOL {
            for b in INT_POOL {
                for c in [i64::MIN, -1, 0, 3, i64::MAX] {
                    let mut s = base(&mut g);
                    s.int.push(c);
                    s.int.push(b);
                    s.int.push(a);
                    single_case(&MP::I(shape.clone()), &s, rep, "operand-sweep");
                }
            }
        }
    }
    if float_ops == 1 {
        for a in FLOAT_POOL {
            let mut s = base(&mut g);
            s.float.push(a);
            single_case(&MP::I(shape.clone()), &s, rep, "operand-sweep");
        }
    } else if float_ops == 2 {
        for a in FLOAT_POOL {
            for b in FLOAT_POOL {
                let mut s = base(&mut g);
                s.float.push(b);
                s.float.push(a);
                single_case(&MP::I(shape.clone()), &s, rep, "operand-sweep");
            }
        }
    }
    if matches!(shape, MI::Pow) {
        // exponents around the 32-bit boundary and small bases
        for base_v in [-3i64, -2, -1, 0, 1, 2, 3, 10] {
            for e in [0i64, 1, 2, 31, 32, 62, 63, 64, 65, 4_294_967_295, 4_294_967_296, 4_294_967_297, i64::MAX] {
                let mut s = base(&mut g);
                s.int.push(e);
                s.int.push(base_v);
                single_case(&MP::I(shape.clone()), &s, rep, "operand-sweep");
            }
        }
    }
}

/// Random initial state around a program.
pub fn gen_state(g: &mut Xo, program: Vec<MP>, inputs: BTreeMap<String, InVal>) -> MState {
    let mut caps = [gen_cap(g), gen_cap(g), gen_cap(g), gen_cap(g)];
    if g.chance(2, 3) {
        // most programs get room to run
        let c = *g.pick(&[16usize, 100, 1000]);
        caps = [c, c, c, c];
        if g.chance(1, 3) {
            caps[1 + g.usize_below(3)] = g.usize_below(4);
        }
    }
    // the program must fit on the exec stack to build the state at all
    if program.len() > caps[0] {
        caps[0] = program.len() + g.usize_below(3);
    }
    let (int, float, boolean) = gen_stacks(g, &caps);
    let step_limit = match g.below(5) {
        0 => g.usize_below(6),
        1 => g.usize_below(40),
        _ => 200,
    };
    MState {
        exec: program.into_iter().rev().collect(), // first program element on top
        int,
        float,
        boolean,
        caps,
        stdout: String::new(),
        step_limit,
        inputs,
    }
}

fn program_signature(trace: &[pushvm::TraceStep], at: usize) -> String {
    trace
        .get(at)
        .map(|t| t.what.clone())
        .unwrap_or_else(|| "end-of-program".into())
}

/// Differential on a whole program: prefix runs with step limits 0..=T.
fn program_case(m0: &MState, origin: &str, max_prefix: usize, rep: &mut Report) {
    let (states, trace, end) = pushvm::run(m0, 2_000);
    let t = states.len() - 1;
    for ts in &trace {
        rep.count(&format!("{}:{}", ts.what, ts.kind));
    }
    rep.distinct(fnv_str(&format!("{}|{:?}|{}", render_prog(&m0.exec), m0.caps, m0.step_limit)));
    rep.count(&format!("program-end:{}", match &end { RunEnd::Done => "done", RunEnd::Fatal{..} => "fatal", RunEnd::Ambiguous{..} => "ambiguous" }));

    let mut limits: Vec<usize> = (0..=t.min(max_prefix)).collect();
    if t > max_prefix {
        limits.push(t);
    }
    // beyond the prescribed end: the extra budget must change nothing (or reveal the fatal)
    limits.push(t + 1);
    limits.push(m0.step_limit);
    limits.sort_unstable();
    limits.dedup();
    limits.retain(|l| *l <= m0.step_limit);

    for l in limits {
        let mut init = m0.clone();
        init.step_limit = l;
        let real0 = match build_real(&init) {
            Ok(r) => r,
            Err(pushvm::BuildError::Panic(p)) => {
                rep.eval();
                rep.violation("C01/initial-state/builder-panicked", || json!({"origin": origin, "state": init.to_json(), "panic": p, "meaning": "a legal initial state (stack contents within the configured limits) cannot even be assembled"}));
                return;
            }
            Err(e) => {
                rep.inconclusive(format!("generator produced an unbuildable program state: {e:?}"));
                return;
            }
        };
        let out = real_run(real0);
        rep.eval();
        // what the semantics prescribe for limit l
        let fatal_at = match &end {
            RunEnd::Fatal { at, .. } => Some(*at),
            _ => None,
        };
        let ambiguous_at = match &end {
            RunEnd::Ambiguous { at, .. } => Some(*at),
            _ => None,
        };
        if let Some(at) = ambiguous_at {
            if l > at + 1 {
                continue; // not predicted past an ambiguous step
            }
            if l == at + 1 {
                // the real interpreter must have taken one of the allowed outcomes
                if let RunEnd::Ambiguous { options, before, .. } = &end {
                    let mut b = (**before).clone();
                    b.step_limit = l;
                    let as_real = match &out {
                        RunOut::Ok(s) => RealOut::Ok(s.clone()),
                        RunOut::Fatal(s, e) => RealOut::Fatal(s.clone(), e.clone()),
                        RunOut::Panic(p) => RealOut::Panic(p.clone()),
                    };
                    // a skipped instruction shows up as Ok(unchanged) at run level
                    let opts: Vec<Step> = options
                        .iter()
                        .map(|o| match o {
                            Step::Next(n) => {
                                let mut n = (**n).clone();
                                n.step_limit = l;
                                Step::Next(Box::new(n))
                            }
                            o => o.clone(),
                        })
                        .collect();
                    if let Err((aspect, detail)) = matches_step(&Step::Ambiguous(opts), &b, &as_real) {
                        let who = program_signature(&trace, at);
                        rep.violation(format!("C01/{who}/{aspect}"), || {
                            json!({"origin": origin, "program_state": m0.to_json(), "step_limit": l, "step_index": at,
                                   "detail": detail, "observed": format!("{}", out.kind())})
                        });
                    }
                }
                continue;
            }
        }
        let culprit = |k: usize| program_signature(&trace, k.saturating_sub(1).min(trace.len().saturating_sub(1)));
        match fatal_at {
            Some(at) if l > at => {
                // must be a fatal error carrying the state before the failing instruction
                let RunEnd::Fatal { carried, stack, .. } = &end else { unreachable!() };
                let mut c = (**carried).clone();
                c.step_limit = l;
                match &out {
                    RunOut::Fatal(st, err) => {
                        if let Some(a) = diff(&c, &observe(st)) {
                            let who = program_signature(&trace, at);
                            rep.violation(format!("C01/{who}/fatal-state-{a}"), || {
                                json!({"origin": origin, "program_state": m0.to_json(), "step_limit": l, "failing_step": at,
                                       "expected_carried": c.to_json(), "observed_carried": observe(st).to_json(), "error": err})
                            });
                        }
                    }
                    other => {
                        let who = program_signature(&trace, at);
                        rep.violation(format!("C01/{who}/outcome"), || {
                            json!({"origin": origin, "program_state": m0.to_json(), "step_limit": l, "failing_step": at,
                                   "prescribed": format!("fatal overflow of the {} stack", stack.name()),
                                   "observed": other.kind(), "observed_state": match other { RunOut::Ok(s) => observe(s).to_json(), _ => Value::Null }})
                        });
                    }
                }
            }
            _ => {
                let k = l.min(t);
                let mut want = states[k].clone();
                want.step_limit = l;
                match &out {
                    RunOut::Ok(st) => {
                        let o = observe(st);
                        let d = diff(&want, &o).map(String::from).or_else(|| probe_inputs(st, &want.inputs).map(|_| "inputs".to_string()));
                        if let Some(a) = d {
                            let who = culprit(k);
                            rep.violation(format!("C01/{who}/{a}"), || {
                                json!({"origin": origin, "program_state": m0.to_json(), "step_limit": l,
                                       "steps_prescribed": k, "last_step_executed": who,
                                       "trace": trace.iter().take(k).map(|t| format!("{}:{}", t.what, t.kind)).collect::<Vec<_>>(),
                                       "expected_state": want.to_json(), "observed_state": o.to_json()})
                            });
                            // later prefixes would repeat the same divergence
                            return;
                        }
                    }
                    RunOut::Fatal(st, err) => {
                        let who = culprit(k);
                        rep.violation(format!("C01/{who}/outcome"), || {
                            json!({"origin": origin, "program_state": m0.to_json(), "step_limit": l,
                                   "prescribed": "Ok", "observed": format!("fatal: {err}"), "observed_carried": observe(st).to_json(),
                                   "expected_state": want.to_json()})
                        });
                        return;
                    }
                    RunOut::Panic(p) => {
                        let who = culprit(k);
                        rep.violation(format!("C01/{who}/panic"), || {
                            json!({"origin": origin, "program_state": m0.to_json(), "step_limit": l, "panic": p})
                        });
                        return;
                    }
                }
            }
        }
    }
    if rep.wants_sample() && t >= 6 {
        rep.sample(|| json!({"kind": "program with prefix runs", "origin": origin, "program": render_prog(&m0.exec.iter().rev().cloned().collect::<Vec<_>>()),
            "max_sizes": m0.caps.iter().map(|c| if *c == usize::MAX { json!("usize::MAX") } else { json!(c) }).collect::<Vec<_>>(),
            "steps_prescribed": t, "end": format!("{:?}", match &end { RunEnd::Done => "done".to_string(), RunEnd::Fatal{at, stack, ..} => format!("fatal at step {at} on {}", stack.name()), RunEnd::Ambiguous{at, ..} => format!("ambiguous at step {at}") }),
            "trace": trace.iter().map(|t| format!("{}:{}", t.what, t.kind)).collect::<Vec<_>>(),
            "final_state": states[t].to_json()}));
    }
}

fn programs_shard(seed: u64, shard: usize, count: usize, max_nodes: usize, max_prefix: usize, rep: &mut Report) {
    for n in 0..count {
        let mut g = Xo::derive(seed, "C01-programs", (shard * 1_000_003 + n) as u64);
        let inputs = gen_inputs(&mut g);
        let (program, origin) = if g.chance(1, 3) {
            // through the crate's own Plushy translation
            let genes = gen_genes(&mut g, &inputs, max_nodes);
            let model_prog = parse_genes(&genes);
            let real_prog: Vec<PushProgram> =
                Plushy::new(genes.iter().map(to_real_gene)).into();
            let agree = real_prog.len() == model_prog.len()
                && real_prog.iter().zip(&model_prog).all(|(a, b)| *a == to_real(b));
            if !agree {
                rep.violation("C01/Plushy-translation/program", || {
                    json!({"genes": genes.iter().map(pushvm::Gene::render).collect::<Vec<_>>(),
                           "expected_program": render_prog(&model_prog), "observed_program": format!("{real_prog:?}")})
                });
                continue;
            }
            (model_prog, "plushy")
        } else {
            (gen_program(&mut g, &inputs, max_nodes, 4), "nested")
        };
        let m0 = gen_state(&mut g, program, inputs);
        program_case(&m0, origin, max_prefix, rep);
    }
}

/// `PrintChar<CHAR>` is public but only three ASCII instances are wired into `PushInstruction`;
/// any other character has to be performed directly. After other output, and followed by other
/// output, the buffer must read back as exactly the concatenation.
fn print_char_instances(rep: &mut Report) {
    use push::instruction::{printing::PrintChar, Instruction};
    macro_rules! one {
        ($c:literal) => {{
            rep.eval();
            rep.count("PrintChar<const>:performed");
            rep.distinct(fnv_str(&format!("printchar{}", $c)));
            let built = push::push_vm::push_state::PushState::builder().with_max_stack_size(4).with_no_program().with_instruction_step_limit(10).build();
            let r = vh_core::catch(|| {
                let st = push::instruction::PushInstruction::PrintString(push::instruction::printing::PrintString("<".to_string())).perform(built).map_err(|e| format!("{:?}", e.error()))?;
                let st = PrintChar::<$c>::new().perform(st).map_err(|e| format!("{:?}", e.error()))?;
                let st = PrintChar::<$c>.perform(st).map_err(|e| format!("{:?}", e.error()))?;
                let mut st = push::instruction::PushInstruction::PrintString(push::instruction::printing::PrintString(">".to_string())).perform(st).map_err(|e| format!("{:?}", e.error()))?;
                st.stdout_string().map_err(|e| format!("output is not valid UTF-8: {e}"))
            });
            let want = format!("<{}{}>", $c, $c);
            match r {
                Ok(Ok(s)) if s == want => {}
                other => rep.violation("C01/PrintChar/output", || json!({"character": format!("{:?}", $c), "expected_output": want, "observed": format!("{other:?}")})),
            }
        }};
    }
    one!('a');
    one!(' ');
    one!('\n');
    one!('\u{7f}');
    one!('\u{80}');
    one!('é');
    one!('ß');
    one!('\u{7ff}');
    one!('\u{800}');
    one!('€');
    one!('\u{ffff}');
    one!('\u{10000}');
    one!('🦀');
    one!('\u{10ffff}');
}

/// Reading the printed output is an observation: reading it twice gives the same text, and a
/// state whose output was read and that then prints more holds exactly the old text followed
/// by the new one (performed directly and by running a program on that state).
fn output_read_is_an_observation(rep: &mut Report) {
    use push::instruction::{printing::PrintString, Instruction, PushInstruction};
    use push::push_vm::{push_state::PushState, State};
    for (first, second) in [("ab", "c"), ("", "x"), ("héllo wörld, 🦀", "!"), ("0123456789012345678901234567890123456789", "tail"), ("x", "")] {
        rep.eval();
        rep.count("output-read-then-continue");
        rep.distinct(fnv_str(&format!("outread{first}{second}")));
        let r = vh_core::catch(|| -> Result<Vec<String>, String> {
            let built = PushState::builder()
                .with_max_stack_size(8)
                .with_program([PushProgram::Instruction(PushInstruction::PrintString(PrintString(second.to_string()))), PushProgram::Instruction(PushInstruction::PrintString(PrintString("#".to_string())))])
                .map_err(|e| format!("{e:?}"))?
                .with_instruction_step_limit(10)
                .build();
            let mut st = PushInstruction::PrintString(PrintString(first.to_string())).perform(built).map_err(|e| format!("{:?}", e.error()))?;
            let mut seen = Vec::new();
            seen.push(st.stdout_string().map_err(|e| e.to_string())?);
            seen.push(st.stdout_string().map_err(|e| e.to_string())?);
            let mut st = PushInstruction::PrintString(PrintString(second.to_string())).perform(st).map_err(|e| format!("{:?}", e.error()))?;
            seen.push(st.stdout_string().map_err(|e| e.to_string())?);
            let mut done = st.run_to_completion().map_err(|_| "the run aborted".to_string())?;
            seen.push(done.stdout_string().map_err(|e| e.to_string())?);
            seen.push(done.stdout_string().map_err(|e| e.to_string())?);
            Ok(seen)
        });
        let all = format!("{first}{second}{second}#");
        let want = vec![first.to_string(), first.to_string(), format!("{first}{second}"), all.clone(), all];
        match r {
            Ok(Ok(seen)) if seen == want => {}
            other => rep.violation("C01/output/reading-changes-it", || json!({"printed_first": first, "printed_after_reading": second, "expected_reads": want, "observed": format!("{other:?}")})),
        }
    }
}

pub fn run(args: &Args) -> i32 {
    let shapes = all_shapes();
    let draws = args.tier.pick(24, 200);
    let mut rep = run_shards(shapes.len(), args.threads, 64 << 20, |i| {
        let mut rep = Report::new();
        matrix_for(&shapes[i], args.seed, draws, &mut rep);
        rep
    });
    print_char_instances(&mut rep);
    output_read_is_an_observation(&mut rep);
    let matrix_evals = rep.evaluations;
    let shards = 64;
    let per = args.tier.pick(4_000, 60_000);
    let max_nodes = args.tier.pick(40, 120);
    let max_prefix = args.tier.pick(48, 160);
    let progs = run_shards(shards, args.threads, 256 << 20, |s| {
        let mut rep = Report::new();
        programs_shard(args.seed, s, per, max_nodes, max_prefix, &mut rep);
        rep
    });
    let prog_runs = progs.evaluations;
    rep.merge(progs);
    // coverage requirement: every instruction shape must have been executed with each
    // outcome class the semantics allow for it at least once
    let mut missing = Vec::new();
    for s in &shapes {
        let n = s.name();
        let hit = rep.counters().keys().any(|k| k.starts_with(&format!("{n}:")));
        if !hit {
            missing.push(n);
        }
    }
    if !missing.is_empty() {
        rep.inconclusive(format!("instructions never executed: {missing:?}"));
    }
    rep.table("workload", json!({
        "instruction_shapes": shapes.len(),
        "matrix_single_instruction_cases": matrix_evals,
        "programs": shards * per,
        "program_runs_including_prefix_runs": prog_runs,
        "max_program_nodes": max_nodes,
        "max_prefix_limit_enumerated": max_prefix,
    }));
    rep.finish(
        args,
        "exploration",
        "single-instruction cases: instruction shape x (capacity, fill) per involved stack x boundary operand tuples; programs: random nested programs / Plushy genomes with random limits, each run at step limits 0..=T. distinct_nontrivial counts distinct (instruction, prescribed outcome, per-stack fill class) triples plus distinct (program, capacities, limit) cases by structural hash",
        false,
        &[
            "the reference interpreter (pushvm.rs) is the reading of the documented semantics; it is set-valued where the statement is silent (operands missing AND destination full; i64::MIN % -1; exponents >= 2^32)",
            "float results are compared bit-for-bit with all NaNs identified; float literals inside exec are compared with the element type's own equality",
            "every input variable a program mentions is bound (precondition of the property)",
        ],
    )
}
