//! One binary per property: a change to the library that stops another monitor's harness code from
//! compiling (a narrowed bound, a renamed item) must not take this monitor down with it.
#![allow(dead_code)]

#[path = "../c19.rs"]
mod c19;

fn main() {
    let args = vh_core::Args::parse();
    std::process::exit(c19::run(&args));
}
