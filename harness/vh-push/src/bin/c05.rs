//! One binary per property: a change to the library that stops another monitor's harness code from
//! compiling (a narrowed bound, a renamed item) must not take this monitor down with it.
#![allow(dead_code)]

#[path = "../pushvm.rs"]
mod pushvm;
#[path = "../c05.rs"]
mod c05;

fn main() {
    let args = vh_core::Args::parse();
    std::process::exit(c05::run(&args));
}
