//! One binary per property: a change to the library that stops another monitor's harness code from
//! compiling (a narrowed bound, a renamed item) must not take this monitor down with it.
#![allow(dead_code)]

#[path = "../pushvm.rs"]
mod pushvm;
#[path = "../realrun.rs"]
mod realrun;
#[path = "../c01.rs"]
mod c01;

fn main() {
    let args = vh_core::Args::parse();
    std::process::exit(c01::run(&args));
}
