//! Running the real interpreter under observation.

use push::{
    error::{into_state::IntoState, Error},
    instruction::{instruction_error::PushInstructionError, Instruction},
    push_vm::{program::PushProgram, push_state::PushState, State},
};
use vh_core::catch;

use crate::pushvm::{observe, Obs};

/// What one `perform` did.
#[derive(Debug)]
pub enum RealOut {
    Ok(PushState),
    Recoverable(PushState, String),
    Fatal(PushState, String),
    Panic(String),
}

impl RealOut {
    #[must_use]
    pub fn kind(&self) -> &'static str {
        match self {
            RealOut::Ok(_) => "ok",
            RealOut::Recoverable(..) => "recoverable",
            RealOut::Fatal(..) => "fatal",
            RealOut::Panic(_) => "panic",
        }
    }

    #[must_use]
    pub fn describe(&self) -> String {
        match self {
            RealOut::Ok(_) => "Ok".into(),
            RealOut::Recoverable(_, e) => format!("Err(Recoverable: {e})"),
            RealOut::Fatal(_, e) => format!("Err(Fatal: {e})"),
            RealOut::Panic(p) => format!("PANIC {p}"),
        }
    }

    #[must_use]
    pub fn state(&self) -> Option<&PushState> {
        match self {
            RealOut::Ok(s) | RealOut::Recoverable(s, _) | RealOut::Fatal(s, _) => Some(s),
            RealOut::Panic(_) => None,
        }
    }

    #[must_use]
    pub fn obs(&self) -> Option<Obs> {
        self.state().map(observe)
    }
}

fn split(e: Error<PushState, PushInstructionError>) -> RealOut {
    let text = format!("{:?}", e.error());
    let rec = e.is_recoverable();
    let st = e.into_state();
    if rec {
        RealOut::Recoverable(st, text)
    } else {
        RealOut::Fatal(st, text)
    }
}

/// `Instruction::perform` of a program element (instruction or block) on a state.
pub fn real_perform(p: &PushProgram, st: PushState) -> RealOut {
    match catch(|| p.perform(st)) {
        Ok(Ok(s)) => RealOut::Ok(s),
        Ok(Err(e)) => split(e),
        Err(p) => RealOut::Panic(p.to_string()),
    }
}

/// What `run_to_completion` did.
#[derive(Debug)]
pub enum RunOut {
    Ok(PushState),
    /// carried state, Debug rendering of the whole error
    Fatal(PushState, String),
    Panic(String),
}

impl RunOut {
    #[must_use]
    pub fn kind(&self) -> &'static str {
        match self {
            RunOut::Ok(_) => "ok",
            RunOut::Fatal(..) => "fatal",
            RunOut::Panic(_) => "panic",
        }
    }
}

pub fn real_run(st: PushState) -> RunOut {
    match catch(|| st.run_to_completion()) {
        Ok(Ok(s)) => RunOut::Ok(s),
        Ok(Err(fe)) => {
            let text = format!("{fe:?}");
            // keep only the error part of the Debug text (the state is observed separately)
            let err = text
                .rfind("error: ")
                .map(|i| text[i..].trim_end_matches([' ', '}', ',']).to_string())
                .unwrap_or_else(|| "error: <unparsed>".into());
            let st = fe.into_state();
            RunOut::Fatal(st, err)
        }
        Err(p) => RunOut::Panic(p.to_string()),
    }
}
