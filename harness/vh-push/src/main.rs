//! Monitors for the Push VM properties: C01–C05 and the run-time half of C19.

mod c01;
mod c02;
mod c03;
mod c04;
mod c05;
mod c19;
mod pushvm;
mod realrun;

use vh_core::Args;

fn main() {
    let args = Args::parse();
    let code = match args.prop.as_str() {
        "C01" => c01::run(&args),
        "C02" => c02::run(&args),
        "C03" => c03::run(&args),
        "C03-child" => c03::child(&args),
        "C04" => c04::run(&args),
        "C05" => c05::run(&args),
        "C19" => c19::run(&args),
        other => {
            eprintln!("vh-push: unknown property {other}");
            2
        }
    };
    std::process::exit(code);
}
