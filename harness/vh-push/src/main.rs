//! Monitors for the Push VM properties: C01–C05 and the run-time half of C19.

mod c04;

use vh_core::Args;

fn main() {
    let args = Args::parse();
    let code = match args.prop.as_str() {
        "C04" => c04::run(&args),
        other => {
            eprintln!("vh-push: unknown property {other}");
            2
        }
    };
    std::process::exit(code);
}
