//! C05 — genome-to-program translation is total and structure preserving.
//!
//! Oracles: (1) an independent *iterative* reference parser (`pushvm::parse_genes`);
//! (2) direct checks of the statement on the real output: depth-first flattening equals
//! the genome's instructions in order; every instruction opening k blocks is immediately
//! followed by exactly k blocks; no block anywhere else; the conversion returns.
//! Workload: every gene string up to a length bound over {Close, literal, When, DupBlock,
//! IfElse} (literals carry their position, so order is unambiguous); long random genomes
//! with skewed mixes; nesting to depth 2000 on an ordinary thread and 20000 on a 1 GiB one.

use push::{genome::plushy::Plushy, push_vm::program::PushProgram};
use vh_core::{catch, fnv_str, json, shard::run_shards, Args, Report, Xo};

use crate::pushvm::{from_real, parse_genes, render_prog, to_real, to_real_gene, Gene, MI, MP};

fn convert(genes: &[Gene]) -> Result<Vec<PushProgram>, String> {
    let real: Vec<_> = genes.iter().map(to_real_gene).collect();
    // the genome reaches the translation through every way of building a Plushy (chosen by the
    // genome's length): from a vector, from iterators without a usable size hint, from an
    // iterator whose honest upper size bound is astronomically large, through FromIterator
    catch(|| {
        let n = real.len();
        let plushy: Plushy = match n % 5 {
            0 => Plushy::new(real),
            1 => Plushy::new(real.into_iter().filter(|_| true)),
            2 => {
                let mut it = real.into_iter();
                Plushy::new(std::iter::from_fn(move || it.next()).take(usize::MAX))
            }
            3 => real.into_iter().collect(),
            _ => {
                let tail = real[n / 2..].to_vec();
                let mut head = real;
                head.truncate(n / 2);
                Plushy::new(head.into_iter().chain(tail).map_while(Some).take(usize::MAX - 1))
            }
        };
        if plushy.get_genes().len() != n {
            panic!("a Plushy built from {n} genes holds {}", plushy.get_genes().len());
        }
        Vec::<PushProgram>::from(plushy)
    })
    .map_err(|p| p.to_string())
}

/// Depth-first flattening of the real program, iteratively.
fn flatten(prog: &[PushProgram]) -> Vec<MI> {
    let mut out = Vec::new();
    let mut stack: Vec<std::slice::Iter<PushProgram>> = vec![prog.iter()];
    while let Some(top) = stack.last_mut() {
        match top.next() {
            None => {
                stack.pop();
            }
            Some(PushProgram::Instruction(i)) => out.push(crate::pushvm::from_real_instr(i)),
            Some(PushProgram::Block(b)) => stack.push(b.iter()),
        }
    }
    out
}

/// "each instruction that opens k blocks is immediately followed by exactly k blocks",
/// and blocks occur nowhere else — in every sequence of the tree.
fn arity_ok(prog: &[PushProgram]) -> Result<(), String> {
    let mut work: Vec<&[PushProgram]> = vec![prog];
    while let Some(seq) = work.pop() {
        let mut owed = 0usize;
        for (idx, el) in seq.iter().enumerate() {
            match el {
                PushProgram::Block(b) => {
                    if owed == 0 {
                        return Err(format!("a block at position {idx} does not follow an opening instruction"));
                    }
                    owed -= 1;
                    work.push(b);
                }
                PushProgram::Instruction(i) => {
                    if owed > 0 {
                        return Err(format!("instruction at position {idx} appears where {owed} more block(s) were owed"));
                    }
                    owed = crate::pushvm::from_real_instr(i).opens();
                }
            }
        }
        if owed > 0 {
            return Err(format!("sequence ends while {owed} block(s) are still owed"));
        }
    }
    Ok(())
}

fn depth_of(prog: &[MP]) -> usize {
    let mut max = 0;
    let mut stack: Vec<(&[MP], usize)> = vec![(prog, 0)];
    while let Some((seq, d)) = stack.pop() {
        max = max.max(d);
        for el in seq {
            if let MP::Block(b) = el {
                stack.push((b, d + 1));
            }
        }
    }
    max
}

fn check(genes: &[Gene], origin: &str, rep: &mut Report) {
    rep.eval();
    // the translation may take the process down (runaway growth, stack exhaustion): mark the call
    // so that the supervising parent can name the genome (long genomes only, the others are cheap
    // to find again)
    let mark = genes.len() >= 24;
    if mark {
        vh_core::shard::risky_begin(|| format!("{origin} genome of {} genes: {}", genes.len(), genes.iter().take(60).map(Gene::render).collect::<Vec<_>>().join(" ")));
    }
    let converted = convert(genes);
    if mark {
        vh_core::shard::risky_end();
    }
    let real = match converted {
        Ok(r) => r,
        Err(p) => {
            rep.violation("C05/panic", || {
                json!({"origin": origin, "genes": genes.iter().take(200).map(Gene::render).collect::<Vec<_>>(), "genome_length": genes.len(), "panic": p})
            });
            return;
        }
    };
    let want = parse_genes(genes);
    let same = real.len() == want.len() && real.iter().zip(&want).all(|(a, b)| *a == to_real(b));
    let show = |rep: &mut Report, sig: &str, detail: String| {
        rep.violation(sig.to_string(), || {
            json!({"origin": origin, "genome_length": genes.len(),
                   "genes": genes.iter().take(200).map(Gene::render).collect::<Vec<_>>(),
                   "expected_program": render_prog(&want).chars().take(4000).collect::<String>(),
                   "observed_program": render_prog(&real.iter().map(from_real).collect::<Vec<_>>()).chars().take(4000).collect::<String>(),
                   "detail": detail})
        });
    };
    let instrs: Vec<MI> = genes
        .iter()
        .filter_map(|g| match g {
            Gene::I(i) => Some(i.clone()),
            Gene::Close => None,
        })
        .collect();
    let flat = flatten(&real);
    // compare renderings: float literals may be NaN, which is not equal to itself
    if flat.iter().map(MI::render).ne(instrs.iter().map(MI::render)) {
        show(rep, "C05/flatten-order", "depth-first reading of the program is not the genome's instruction sequence".into());
    } else if let Err(why) = arity_ok(&real) {
        show(rep, "C05/block-arity", why);
    } else if !same {
        show(rep, "C05/block-structure", "blocks are closed at other places than the close markers prescribe".into());
    }
    let opens = instrs.iter().filter(|i| i.opens() > 0).count();
    let closes = genes.len() - instrs.len();
    rep.count(match (opens > 0, closes > 0) {
        (true, true) => "genomes:opens+closes",
        (true, false) => "genomes:opens-only",
        (false, true) => "genomes:closes-only",
        (false, false) => "genomes:flat",
    });
    if rep.wants_sample() && opens >= 2 && closes >= 1 && genes.len() >= 6 {
        rep.sample(|| json!({"kind": "gene string", "origin": origin, "genes": genes.iter().map(Gene::render).collect::<Vec<_>>(),
            "program": render_prog(&want), "nesting_depth": depth_of(&want)}));
    }
}

const SYMBOLS: usize = 5;

fn gene_for(symbol: usize, position: usize) -> Gene {
    match symbol {
        0 => Gene::Close,
        1 => Gene::I(MI::PushInt(position as i64)),
        2 => Gene::I(MI::When),
        3 => Gene::I(MI::DupBlock),
        _ => Gene::I(MI::IfElse),
    }
}

/// All strings of exactly `len` symbols whose first `prefix.len()` symbols are `prefix`.
fn enumerate(prefix: &[usize], len: usize, rep: &mut Report) {
    let free = len - prefix.len();
    let total = SYMBOLS.pow(free as u32);
    let mut genes: Vec<Gene> = Vec::with_capacity(len);
    for code in 0..total {
        genes.clear();
        for (p, s) in prefix.iter().enumerate() {
            genes.push(gene_for(*s, p));
        }
        let mut c = code;
        for p in prefix.len()..len {
            genes.push(gene_for(c % SYMBOLS, p));
            c /= SYMBOLS;
        }
        check(&genes, "exhaustive", rep);
        if genes.iter().any(|g| matches!(g, Gene::I(i) if i.opens() > 0)) {
            rep.distinct_by_construction(1);
        }
    }
}

fn random_genome(g: &mut Xo, max_len: usize) -> Vec<Gene> {
    let len = g.usize_below(max_len + 1);
    // skewed mixes: weights for (close, literal, one-open, two-open)
    let mix: [u64; 4] = *g.pick(&[
        [1, 4, 1, 1],
        [0, 0, 3, 1],  // all opens
        [1, 0, 0, 0],  // all closes
        [3, 1, 3, 1],  // alternating-ish
        [5, 1, 1, 1],  // close heavy
        [1, 1, 6, 6],  // open heavy
        [1, 10, 1, 0],
        [1, 1, 0, 5],
    ]);
    let total: u64 = mix.iter().sum();
    let trailing_opens = g.chance(1, 4);
    (0..len)
        .map(|p| {
            if trailing_opens && p + 8 >= len {
                return Gene::I(MI::IfElse);
            }
            let r = g.below(total);
            if r < mix[0] {
                Gene::Close
            } else if r < mix[0] + mix[1] {
                match g.below(4) {
                    0 => Gene::I(MI::PushInt(p as i64)),
                    1 => Gene::I(MI::PrintString(format!("g{p}"))),
                    2 => Gene::I(MI::Input(format!("v{p}"))),
                    _ => Gene::I(crate::pushvm::gen_instr(g, &Default::default(), 1)),
                }
            } else if r < mix[0] + mix[1] + mix[2] {
                Gene::I(g.pick(&[MI::When, MI::Unless, MI::DupBlock]).clone())
            } else {
                Gene::I(MI::IfElse)
            }
        })
        .collect()
}

/// Deliberately deep genomes: `depth` opening genes in a row, some literals, then a
/// varying number of closes.
fn deep_genome(g: &mut Xo, depth: usize) -> Vec<Gene> {
    let mut v = Vec::new();
    for p in 0..depth {
        v.push(Gene::I(match g.below(4) {
            0 => MI::When,
            1 => MI::Unless,
            2 => MI::DupBlock,
            _ => MI::IfElse,
        }));
        if g.chance(1, 8) {
            v.push(Gene::I(MI::PushInt(p as i64)));
        }
    }
    let closes = g.usize_below(2 * depth + 2);
    for p in 0..closes {
        v.push(Gene::Close);
        if g.chance(1, 10) {
            v.push(Gene::I(MI::PushInt(-(p as i64))));
        }
    }
    v
}

pub fn run(args: &Args) -> i32 {
    // "never fails" includes not taking the process down: run as a supervised child under an
    // address-space limit; an abnormal death while a genome is being translated is a violation
    if let Some(code) = vh_core::shard::supervise("C05", &args.root, "C05/aborted-or-hung-while-translating", 12 << 30, std::time::Duration::from_secs(args.tier.pick(1_800, 7_200))) {
        return code;
    }
    let max_len = args.tier.pick(9usize, 11usize);
    // shards: (length, two-symbol prefix) for lengths >= 2; shorter lengths in shard 0
    let mut shards: Vec<(usize, Vec<usize>)> = vec![(0, vec![]), (1, vec![])];
    for len in 2..=max_len {
        for a in 0..SYMBOLS {
            for b in 0..SYMBOLS {
                shards.push((len, vec![a, b]));
            }
        }
    }
    let mut rep = run_shards(shards.len(), args.threads, 64 << 20, |i| {
        let mut rep = Report::new();
        let (len, prefix) = &shards[i];
        enumerate(prefix, *len, &mut rep);
        rep
    });
    let exhaustive = rep.evaluations;

    let n_random = args.tier.pick(30_000usize, 300_000usize);
    let rnd = run_shards(64, args.threads, 64 << 20, |s| {
        let mut rep = Report::new();
        for n in 0..n_random / 64 {
            let mut g = Xo::derive(args.seed, "C05-random", (s * 1_000_003 + n) as u64);
            let max = *g.pick(&[12usize, 60, 400, 5_000]);
            let genes = random_genome(&mut g, max);
            rep.distinct(fnv_str(&genes.iter().map(Gene::render).collect::<Vec<_>>().join(" ")));
            check(&genes, "random", &mut rep);
        }
        rep
    });
    rep.merge(rnd);

    // nesting: depth <= 2000 on ordinary (8 MiB) threads, 20000 on a 1 GiB thread
    let deep_small = run_shards(16, args.threads, 8 << 20, |s| {
        let mut rep = Report::new();
        let mut g = Xo::derive(args.seed, "C05-deep", s as u64);
        for depth in [50usize, 300, 1_000, 2_000] {
            let genes = deep_genome(&mut g, depth);
            rep.distinct(fnv_str(&format!("deep{depth}-{s}")));
            rep.count(&format!("deep:{depth}:ordinary-thread"));
            check(&genes, "deep-ordinary-stack", &mut rep);
        }
        rep
    });
    rep.merge(deep_small);
    let deep_big = run_shards(args.tier.pick(2, 8), 2, 1 << 30, |s| {
        let mut rep = Report::new();
        let mut g = Xo::derive(args.seed, "C05-deeper", s as u64);
        for depth in [5_000usize, 20_000] {
            let genes = deep_genome(&mut g, depth);
            rep.distinct(fnv_str(&format!("deeper{depth}-{s}")));
            rep.count(&format!("deep:{depth}:1GiB-thread"));
            check(&genes, "deep-large-stack", &mut rep);
        }
        rep
    });
    rep.merge(deep_big);

    // long genomes with shallow nesting (a flat one, and one where every open is closed soon):
    // length is a dimension of its own - a translation whose cost grows with the square of the
    // length does not finish one genome within the hang budget
    let long = run_shards(4, args.threads, 64 << 20, |s| {
        let mut rep = Report::new();
        let mut g = Xo::derive(args.seed, "C05-long", s as u64);
        let len = [100_000usize, 400_000, 400_000, 1_000_000][s];
        let genes: Vec<Gene> = (0..len)
            .map(|p| match (s, p % 5) {
                (0 | 1, _) => Gene::I(MI::PushInt(p as i64)),
                (_, 0) => Gene::I(if g.chance(1, 3) { MI::IfElse } else { MI::When }),
                (_, 3 | 4) => Gene::Close,
                _ => Gene::I(MI::PushInt(p as i64)),
            })
            .collect();
        vh_core::shard::set_context(format!("C05 long genome of {len} genes, nesting depth at most 2"));
        rep.distinct(fnv_str(&format!("long{len}-{s}")));
        rep.count("long-shallow-genomes");
        check(&genes, "long-shallow", &mut rep);
        rep
    });
    rep.merge(long);

    rep.table("scope", json!({
        "exhaustive_alphabet": ["Close", "Int.Push(position)", "Exec.When", "Exec.DupBlock", "Exec.IfElse"],
        "exhaustive_max_length": max_len,
        "exhaustive_genomes": exhaustive,
        "random_genomes": n_random,
        "max_random_length": 5000,
        "max_nesting_depth": 20000,
    }));
    rep.finish(
        args,
        "exploration",
        "all gene strings over a 5-symbol alphabet up to the stated length (distinct by construction; non-trivial = contains at least one block-opening gene), random genomes up to length 5000 with skewed symbol mixes and deliberately deep genomes (distinct by hash)",
        true,
        &[
            "literal genes carry their position so that instruction order is unambiguous",
            "nesting beyond 20000 is limited by the host's thread stack, not judged (DESIGN.md §7)",
        ],
    )
}
