//! C19 — the generated state builder builds the configured state and rejects misuse.
//!
//! Two observed executions, both driven from here:
//!  1. run time: random *legal* call sequences produced from a reference type-state
//!     automaton are emitted as straight-line Rust (the builder's type changes with every
//!     call, so sequences cannot be chosen at run time), compiled together with hand-written
//!     fixture structs (`c19/run`), executed, and each built state is compared with the
//!     automaton's record; statically typed checks (input declaration orders, program order
//!     by running, overflow boundary, accessors) live in `c19/run/src/support.rs`;
//!  2. compile time: every call sequence up to a length bound over a reduced method
//!     alphabet is emitted as one function per line (`c19/cf`); one `cargo check
//!     --message-format=json` yields rustc's accept / reject verdict per function, which is
//!     compared with what the *statement* requires (must compile / must fail / unjudged).

use std::{collections::BTreeMap, fmt::Write as _, path::Path, time::Duration};

use vh_core::{
    fnv_str, json,
    shard::{run_child, ChildOutcome},
    Args, Report, Value, Xo,
};

#[derive(Clone, Copy, Debug, PartialEq)]
enum Kind {
    Int,
    Float,
    Bool,
    Str,
    U8,
    U16,
    I128,
    Char,
    Prog,
}

/// (Rust literal, how the support code shows the value)
fn lit(k: Kind, n: usize) -> (String, String) {
    match k {
        Kind::Int => (format!("{n}i64"), format!("{n}")),
        Kind::Float => (format!("OrderedFloat({n}.5f64)"), format!("{n}.5")),
        Kind::Bool => (format!("{}", n % 2 == 0), format!("{}", n % 2 == 0)),
        Kind::Str => (format!("\"s{n}\".to_string()"), format!("s{n}")),
        Kind::U8 => (format!("{}u8", n % 200), format!("{}", n % 200)),
        Kind::U16 => (format!("{n}u16"), format!("{n}")),
        Kind::I128 => (format!("{n}i128"), format!("{n}")),
        Kind::Char => {
            let c = (b'a' + (n % 26) as u8) as char;
            (format!("'{c}'"), format!("{c}"))
        }
        Kind::Prog => (
            format!("PushProgram::from(IntInstruction::push({n}))"),
            format!("push({n})"),
        ),
    }
}

fn ty_name(k: Kind) -> &'static str {
    match k {
        Kind::Int => "i64",
        Kind::Float => "OrderedFloat<f64>",
        Kind::Bool => "bool",
        Kind::Str => "String",
        Kind::U8 => "u8",
        Kind::U16 => "u16",
        Kind::I128 => "i128",
        Kind::Char => "char",
        Kind::Prog => "PushProgram",
    }
}

struct StackD {
    method: &'static str,
    kind: Kind,
    /// how an input declared through this stack's `with_<m>_input` shows up
    input_show: fn(&str) -> String,
}

struct StructD {
    ty: &'static str,
    exec_kind: Kind,
    stacks: Vec<StackD>,
    has_inputs: bool,
    has_steps: bool,
    obs_fn: &'static str,
}

fn structs() -> Vec<StructD> {
    vec![
        StructD {
            ty: "PushState",
            exec_kind: Kind::Prog,
            stacks: vec![
                StackD { method: "int", kind: Kind::Int, input_show: |s| format!("int:{s}") },
                StackD { method: "float", kind: Kind::Float, input_show: |s| format!("float:{s}") },
                StackD { method: "bool", kind: Kind::Bool, input_show: |s| format!("bool:{s}") },
            ],
            has_inputs: true,
            has_steps: true,
            obs_fn: "obs_push_state",
        },
        StructD {
            ty: "Twin",
            exec_kind: Kind::Int,
            stacks: vec![
                StackD { method: "left", kind: Kind::Int, input_show: |s| format!("Left({s})") },
                StackD { method: "b", kind: Kind::Int, input_show: |s| format!("Right({s})") },
            ],
            has_inputs: true,
            has_steps: true,
            obs_fn: "obs_twin",
        },
        StructD {
            ty: "Bare",
            exec_kind: Kind::U8,
            stacks: vec![StackD { method: "words", kind: Kind::Str, input_show: |s| s.to_string() }],
            has_inputs: false,
            has_steps: false,
            obs_fn: "obs_bare",
        },
        StructD {
            ty: "Solo",
            exec_kind: Kind::U16,
            stacks: vec![],
            has_inputs: false,
            has_steps: true,
            obs_fn: "obs_solo",
        },
        StructD {
            ty: "Wide",
            exec_kind: Kind::Char,
            stacks: vec![
                StackD { method: "big_numbers", kind: Kind::I128, input_show: |s| format!("Big({s})") },
                StackD { method: "flag", kind: Kind::Bool, input_show: |s| format!("Flag({s})") },
                StackD { method: "text", kind: Kind::Str, input_show: |s| format!("Text({s:?})") },
            ],
            has_inputs: true,
            has_steps: true,
            obs_fn: "obs_wide",
        },
        StructD {
            ty: "Odd",
            exec_kind: Kind::U16,
            stacks: vec![
                StackD { method: "num", kind: Kind::Int, input_show: |s| format!("Num({s})") },
                StackD { method: "words", kind: Kind::Str, input_show: |s| format!("Word({s:?})") },
            ],
            has_inputs: true,
            has_steps: true,
            obs_fn: "obs_odd",
        },
    ]
}

#[derive(Clone, Debug, PartialEq)]
enum Call {
    MaxAll(usize),
    MaxOne(usize, usize),
    Values(usize, Vec<usize>),
    Program(Vec<usize>),
    NoProgram,
    Input(usize, String, usize),
    Steps(usize),
    Build,
}

/// Reference type-state automaton + record of what the built state must contain.
#[derive(Clone, Debug)]
struct Auto {
    exec: u8,        // 0 nothing, 1 size set, 2 size and data
    steps: u8,       // 0 or 2
    stacks: Vec<u8>, // per stack 0 / 1 / 2
    // record
    exec_cap: Option<usize>,
    exec_items: Vec<usize>, // top first
    caps: Vec<Option<usize>>,
    items: Vec<Vec<usize>>, // top first
    step_limit: usize,
    inputs: BTreeMap<String, (usize, usize)>,
}

#[derive(Debug, PartialEq)]
enum Illegal {
    GlobalSizeAfterData,
    StackSizeAfterValues,
    ValuesBeforeSize,
    ProgramBeforeSize,
    ProgramDecidedTwice,
    IncompleteBuild,
}

impl Auto {
    fn new(sd: &StructD) -> Self {
        Self {
            exec: 0,
            steps: 0,
            stacks: vec![0; sd.stacks.len()],
            exec_cap: None,
            exec_items: vec![],
            caps: vec![None; sd.stacks.len()],
            items: vec![vec![]; sd.stacks.len()],
            step_limit: 0,
            inputs: BTreeMap::new(),
        }
    }

    fn legal(&self, sd: &StructD, c: &Call) -> Result<(), Illegal> {
        match c {
            Call::MaxAll(_) => {
                if self.exec == 2 || self.stacks.iter().any(|s| *s == 2) {
                    Err(Illegal::GlobalSizeAfterData)
                } else {
                    Ok(())
                }
            }
            Call::MaxOne(i, _) => {
                if self.stacks[*i] == 2 {
                    Err(Illegal::StackSizeAfterValues)
                } else {
                    Ok(())
                }
            }
            Call::Values(i, _) => {
                if self.stacks[*i] == 0 {
                    Err(Illegal::ValuesBeforeSize)
                } else {
                    Ok(())
                }
            }
            Call::Program(_) | Call::NoProgram => match self.exec {
                0 => Err(Illegal::ProgramBeforeSize),
                1 => Ok(()),
                _ => Err(Illegal::ProgramDecidedTwice),
            },
            Call::Input(..) | Call::Steps(_) => Ok(()),
            Call::Build => {
                if self.exec == 2 && (!sd.has_steps || self.steps == 2) {
                    Ok(())
                } else {
                    Err(Illegal::IncompleteBuild)
                }
            }
        }
    }

    /// Apply a legal call. Returns Err(()) when the call must report Overflow.
    fn apply(&mut self, c: &Call) -> Result<(), ()> {
        match c {
            Call::MaxAll(n) => {
                self.exec = 1;
                self.exec_cap = Some(*n);
                for s in &mut self.stacks {
                    *s = 1;
                }
                for cap in &mut self.caps {
                    *cap = Some(*n);
                }
            }
            Call::MaxOne(i, n) => {
                self.stacks[*i] = 1;
                self.caps[*i] = Some(*n);
            }
            Call::Values(i, vals) => {
                let cap = self.caps[*i].unwrap_or(usize::MAX);
                if self.items[*i].len() + vals.len() > cap {
                    return Err(());
                }
                // first supplied value on top; a later call stacks on top of an earlier one
                let mut new_items = vals.clone();
                new_items.extend(self.items[*i].iter().copied());
                self.items[*i] = new_items;
                self.stacks[*i] = 2;
            }
            Call::Program(vals) => {
                let cap = self.exec_cap.unwrap_or(usize::MAX);
                if vals.len() > cap {
                    return Err(());
                }
                self.exec_items = vals.clone();
                self.exec = 2;
            }
            Call::NoProgram => self.exec = 2,
            Call::Input(i, name, n) => {
                self.inputs.insert(name.clone(), (*i, *n));
            }
            Call::Steps(n) => {
                self.steps = 2;
                self.step_limit = *n;
            }
            Call::Build => {}
        }
        Ok(())
    }

    fn expected_obs(&self, sd: &StructD) -> Value {
        let cap = |c: Option<usize>| match c {
            Some(n) => json!(n),
            None => json!("MAX"),
        };
        let mut stacks = serde_json::Map::new();
        for (i, s) in sd.stacks.iter().enumerate() {
            let items: Vec<String> = self.items[i].iter().map(|n| lit(s.kind, *n).1).collect();
            stacks.insert(
                s.method.to_string(),
                json!({"cap": cap(self.caps[i]), "top_first": items, "size": self.items[i].len()}),
            );
        }
        let exec_items: Vec<String> = self.exec_items.iter().map(|n| lit(sd.exec_kind, *n).1).collect();
        let mut inputs = serde_json::Map::new();
        for (name, (i, n)) in &self.inputs {
            let shown = lit(sd.stacks[*i].kind, *n).1;
            inputs.insert(name.clone(), json!((sd.stacks[*i].input_show)(&shown)));
        }
        json!({
            "exec": {"cap": cap(self.exec_cap), "top_first": exec_items, "size": self.exec_items.len()},
            "stacks": stacks,
            "steps": if sd.has_steps { json!(self.step_limit) } else { Value::Null },
            "inputs": inputs,
        })
    }
}

fn emit_call(sd: &StructD, c: &Call, chain: bool, id: usize, k: usize) -> String {
    let vec_lit = |kind: Kind, vals: &[usize]| {
        format!(
            "{{ let v: Vec<{}> = vec![{}]; v }}",
            ty_name(kind),
            vals.iter().map(|n| lit(kind, *n).0).collect::<Vec<_>>().join(", ")
        )
    };
    match c {
        Call::MaxAll(n) => {
            if chain {
                format!(".with_max_stack_size({n})")
            } else {
                format!("    let b = b.with_max_stack_size({n});\n")
            }
        }
        Call::MaxOne(i, n) => {
            let m = sd.stacks[*i].method;
            if chain {
                format!(".with_{m}_max_size({n})")
            } else {
                format!("    let b = b.with_{m}_max_size({n});\n")
            }
        }
        Call::Values(i, vals) => {
            let m = sd.stacks[*i].method;
            let v = vec_lit(sd.stacks[*i].kind, vals);
            if chain {
                format!(".with_{m}_values({v}).unwrap()")
            } else {
                format!("    let b = match b.with_{m}_values({v}) {{ Ok(b) => b, Err(e) => return seq_err({id}, {k}, &e) }};\n")
            }
        }
        Call::Program(vals) => {
            let v = vec_lit(sd.exec_kind, vals);
            if chain {
                format!(".with_program({v}).unwrap()")
            } else {
                format!("    let b = match b.with_program({v}) {{ Ok(b) => b, Err(e) => return seq_err({id}, {k}, &e) }};\n")
            }
        }
        Call::NoProgram => {
            if chain {
                ".with_no_program()".into()
            } else {
                "    let b = b.with_no_program();\n".into()
            }
        }
        Call::Input(i, name, n) => {
            let m = sd.stacks[*i].method;
            let l = lit(sd.stacks[*i].kind, *n).0;
            if chain {
                format!(".with_{m}_input(\"{name}\", {l})")
            } else {
                format!("    let b = b.with_{m}_input(\"{name}\", {l});\n")
            }
        }
        Call::Steps(n) => {
            if chain {
                format!(".with_instruction_step_limit({n})")
            } else {
                format!("    let b = b.with_instruction_step_limit({n});\n")
            }
        }
        Call::Build => {
            if chain {
                ".build()".into()
            } else {
                String::new()
            }
        }
    }
}

fn render_call(sd: &StructD, c: &Call) -> String {
    emit_call(sd, c, true, 0, 0)
}

/// Random legal complete sequence from the automaton.
fn random_legal(sd: &StructD, g: &mut Xo) -> Vec<Call> {
    let mut a = Auto::new(sd);
    let mut seq = Vec::new();
    let mut serial = 0usize;
    let names = ["x", "y", "speed", "n0", "x"]; // a repeated name: last declaration wins
    loop {
        let mut options: Vec<Call> = Vec::new();
        let cap = g.usize_below(6);
        let vals = |g: &mut Xo, serial: &mut usize| -> Vec<usize> {
            let n = g.usize_below(4);
            (0..n)
                .map(|_| {
                    *serial += 1;
                    *serial
                })
                .collect()
        };
        options.push(Call::MaxAll(cap));
        for i in 0..sd.stacks.len() {
            options.push(Call::MaxOne(i, g.usize_below(6)));
            options.push(Call::Values(i, vals(g, &mut serial)));
            if sd.has_inputs {
                serial += 1;
                options.push(Call::Input(i, (*g.pick(&names)).to_string(), serial));
            }
        }
        options.push(Call::Program(vals(g, &mut serial)));
        options.push(Call::NoProgram);
        if sd.has_steps {
            options.push(Call::Steps(g.usize_below(1000)));
        }
        let can_build = a.legal(sd, &Call::Build).is_ok();
        if can_build && (seq.len() >= 14 || g.chance(1 + seq.len() as u64, 12)) {
            seq.push(Call::Build);
            return seq;
        }
        let legal: Vec<Call> = options.into_iter().filter(|c| a.legal(sd, c).is_ok()).collect();
        let mut c = g.pick(&legal).clone();
        // most value lists are trimmed to fit, so that many sequences reach build()
        if g.chance(3, 4) {
            match &mut c {
                Call::Values(i, vals) => {
                    let room = a.caps[*i].unwrap_or(usize::MAX).saturating_sub(a.items[*i].len());
                    vals.truncate(room);
                }
                Call::Program(vals) => vals.truncate(a.exec_cap.unwrap_or(usize::MAX)),
                _ => {}
            }
        }
        // keep the automaton going even through an overflow (the emitted code returns there)
        let overflow = a.apply(&c).is_err();
        seq.push(c);
        if overflow {
            return seq;
        }
    }
}

struct RunSeq {
    struct_idx: usize,
    calls: Vec<Call>,
    /// Ok(expected observation) or Err(index of the call that must report Overflow)
    expected: Result<Value, usize>,
}

fn expectation(sd: &StructD, calls: &[Call]) -> Result<Value, usize> {
    let mut a = Auto::new(sd);
    for (k, c) in calls.iter().enumerate() {
        if a.apply(c).is_err() {
            return Err(k);
        }
    }
    Ok(a.expected_obs(sd))
}

const GEN_HEADER: &str = "// @generated by vh-push C19 — do not edit\n#![allow(unused, clippy::all)]\nuse ordered_float::OrderedFloat;\nuse push::{instruction::IntInstruction, push_vm::{program::PushProgram, push_state::PushState}};\nuse crate::fixtures::*;\n";

fn write_run_crate(dir: &Path, sds: &[StructD], seqs: &[RunSeq]) -> std::io::Result<()> {
    let mut src = String::from(GEN_HEADER);
    src.push_str("use crate::support::*;\n\n");
    for (id, s) in seqs.iter().enumerate() {
        let sd = &sds[s.struct_idx];
        let _ = writeln!(src, "fn seq_{id}() {{\n    let b = {}::builder();", sd.ty);
        let mut names: Vec<String> = Vec::new();
        for (k, c) in s.calls.iter().enumerate() {
            if let Call::Input(_, n, _) = c {
                if !names.contains(n) {
                    names.push(n.clone());
                }
            }
            src.push_str(&emit_call(sd, c, false, id, k));
        }
        if matches!(s.calls.last(), Some(Call::Build)) {
            let names_lit = names.iter().map(|n| format!("\"{n}\"")).collect::<Vec<_>>().join(", ");
            let _ = writeln!(src, "    let st = b.build();\n    seq_ok({id}, {}(&st, &[{names_lit}]));", sd.obs_fn);
        } else {
            // the last call must overflow; reaching here means it did not
            let _ = writeln!(src, "    let _ = b;\n    println!(\"SEQ {{}}\", serde_json::json!({{\"id\": {id}, \"ok\": true, \"obs\": \"no-overflow\"}}));");
        }
        src.push_str("}\n\n");
    }
    src.push_str("pub fn all() {\n");
    for id in 0..seqs.len() {
        let _ = writeln!(src, "    seq_{id}();");
    }
    src.push_str("}\n");
    std::fs::write(dir.join("src/generated.rs"), src)?;
    std::fs::write(
        dir.join("src/main.rs"),
        "// @generated entry point\nmod fixtures;\nmod generated;\nmod support;\nfn main() {\n    support::static_checks();\n    generated::all();\n    println!(\"DONE\");\n}\n",
    )
}

#[derive(Debug, PartialEq, Clone, Copy)]
enum Required {
    MustCompile,
    MustFail,
    Unjudged,
}

/// (requirement, reason, index of the first call the type-state must reject)
fn classify(sd: &StructD, calls: &[Call]) -> (Required, String, Option<usize>) {
    let mut a = Auto::new(sd);
    for (k, c) in calls.iter().enumerate() {
        match a.legal(sd, c) {
            Ok(()) => {
                // overflow at run time is irrelevant for the type check
                let _ = a.apply(c);
            }
            Err(Illegal::GlobalSizeAfterData) => return (Required::MustFail, "global size change after data was loaded".into(), Some(k)),
            Err(Illegal::StackSizeAfterValues) => return (Required::MustFail, "stack size change after values were loaded".into(), Some(k)),
            Err(Illegal::IncompleteBuild) => return (Required::MustFail, "build() without sizes / program decision / step limit".into(), Some(k)),
            Err(other) => return (Required::Unjudged, format!("{other:?}"), Some(k)),
        }
    }
    (Required::MustCompile, "legal and complete".into(), None)
}

fn cf_alphabet(sd: &StructD) -> Vec<Call> {
    let mut v = vec![Call::MaxAll(3)];
    for i in 0..sd.stacks.len().min(2) {
        v.push(Call::MaxOne(i, 2));
        v.push(Call::Values(i, vec![1]));
    }
    v.push(Call::Program(vec![1]));
    v.push(Call::NoProgram);
    if sd.has_steps {
        v.push(Call::Steps(5));
    }
    if sd.has_inputs {
        v.push(Call::Input(0, "x".into(), 1));
    }
    v
}

struct CfSeq {
    struct_idx: usize,
    calls: Vec<Call>,
    required: Required,
    reason: String,
    /// index of the first call that must be rejected (None for legal sequences)
    first_illegal: Option<usize>,
    /// 1-based column ranges [start, end) of each call in the emitted one-line function
    columns: Vec<(usize, usize)>,
}

fn enumerate_cf(sds: &[StructD], max_len: usize) -> Vec<CfSeq> {
    let mut out = Vec::new();
    for (si, sd) in sds.iter().enumerate() {
        let alpha = cf_alphabet(sd);
        let mut frontier: Vec<Vec<Call>> = vec![vec![]];
        for _len in 0..=max_len {
            for prefix in &frontier {
                let mut calls = prefix.clone();
                calls.push(Call::Build);
                let (required, reason, first_illegal) = classify(sd, &calls);
                out.push(CfSeq { struct_idx: si, calls, required, reason, first_illegal, columns: Vec::new() });
            }
            let mut next = Vec::new();
            for prefix in &frontier {
                for c in &alpha {
                    let mut p = prefix.clone();
                    p.push(c.clone());
                    next.push(p);
                }
            }
            frontier = next;
        }
    }
    out
}

fn write_cf_crate(dir: &Path, sds: &[StructD], seqs: &mut [CfSeq]) -> std::io::Result<usize> {
    let mut src = String::from(GEN_HEADER);
    let header_lines = src.lines().count();
    for (id, s) in seqs.iter_mut().enumerate() {
        let sd = &sds[s.struct_idx];
        let mut line = format!("pub fn f{id}() {{ let _ = {}::builder()", sd.ty);
        s.columns.clear();
        for c in &s.calls {
            let start = line.chars().count() + 1;
            line.push_str(&emit_call(sd, c, true, 0, 0));
            s.columns.push((start, line.chars().count() + 1));
        }
        line.push_str("; }");
        let _ = writeln!(src, "{line}");
    }
    std::fs::create_dir_all(dir.join("src"))?;
    std::fs::write(dir.join("src/generated.rs"), src)?;
    std::fs::write(
        dir.join("src/lib.rs"),
        "// @generated\n#[path = \"../../run/src/fixtures.rs\"]\npub mod fixtures;\npub mod generated;\n",
    )?;
    Ok(header_lines)
}

fn cargo(dir: &Path, target: &Path, args: &[&str], wall: Duration) -> ChildOutcome {
    let mut cmd = std::process::Command::new("cargo");
    cmd.current_dir(dir)
        .args(args)
        .env("CARGO_TARGET_DIR", target)
        .env("CARGO_NET_OFFLINE", "true");
    run_child(&mut cmd, wall)
}

pub fn run(args: &Args) -> i32 {
    let mut rep = Report::new();
    let sds = structs();
    let base = args.root.join("harness/c19");
    let target = args.root.join("harness/target/c19");
    for sub in ["run", "cf"] {
        let _ = std::fs::copy(args.root.join("harness/Cargo.lock"), base.join(sub).join("Cargo.lock"));
    }

    // ---------------------------------------------------------------- run-time part
    let n_seq = args.tier.pick(400usize, 3_000usize);
    let mut g = Xo::derive(args.seed, "C19-seq", 0);
    let mut seqs = Vec::new();
    for n in 0..n_seq {
        let si = n % sds.len();
        let calls = random_legal(&sds[si], &mut g);
        let expected = expectation(&sds[si], &calls);
        seqs.push(RunSeq { struct_idx: si, calls, expected });
    }
    if let Err(e) = write_run_crate(&base.join("run"), &sds, &seqs) {
        rep.inconclusive(format!("cannot write generated run crate: {e}"));
    }
    let out = cargo(&base.join("run"), &target, &["run", "--offline", "--quiet", "--message-format=short"], Duration::from_secs(1500));
    match out {
        ChildOutcome::Exited(0, stdout, _) => {
            let mut seen = vec![false; seqs.len()];
            let mut done = false;
            for line in stdout.lines() {
                if let Some(rest) = line.strip_prefix("SEQ ") {
                    let Ok(v) = serde_json::from_str::<Value>(rest) else { continue };
                    let id = v["id"].as_u64().unwrap_or(u64::MAX) as usize;
                    let Some(s) = seqs.get(id) else { continue };
                    seen[id] = true;
                    let sd = &sds[s.struct_idx];
                    rep.eval();
                    rep.distinct(fnv_str(&format!("{}{:?}", sd.ty, s.calls)));
                    rep.count(&format!("sequences:{}", sd.ty));
                    let shown: Vec<String> = s.calls.iter().map(|c| render_call(sd, c)).collect();
                    match &s.expected {
                        Ok(want) => {
                            if v["ok"] != json!(true) {
                                rep.violation(format!("C19/{}/unexpected-error", sd.ty), || {
                                    json!({"struct": sd.ty, "calls": shown, "expected": want, "observed": v})
                                });
                            } else if v["obs"] != *want {
                                let aspect = ["exec", "stacks", "steps", "inputs"]
                                    .iter()
                                    .find(|k| v["obs"][**k] != want[**k])
                                    .copied()
                                    .unwrap_or("state");
                                rep.violation(format!("C19/{}/built-state-{aspect}", sd.ty), || {
                                    json!({"struct": sd.ty, "calls": shown, "expected": want, "observed": v["obs"]})
                                });
                            } else if rep.wants_sample() && s.calls.len() >= 7 {
                                rep.sample(|| json!({"kind": "legal builder call sequence", "struct": sd.ty, "calls": shown, "built_state": v["obs"]}));
                            }
                            rep.count("sequences:built");
                        }
                        Err(at) => {
                            rep.count("sequences:overflow-expected");
                            if v["ok"] != json!(false) || v["at"] != json!(at) || v["error"] != json!("Overflow") {
                                rep.violation(format!("C19/{}/overflow-not-reported", sd.ty), || {
                                    json!({"struct": sd.ty, "calls": shown, "expected": format!("Err(Overflow) at call {at}"), "observed": v})
                                });
                            }
                        }
                    }
                } else if let Some(rest) = line.strip_prefix("STATIC ") {
                    let Ok(v) = serde_json::from_str::<Value>(rest) else { continue };
                    rep.eval();
                    let name = v["check"].as_str().unwrap_or("?").to_string();
                    rep.distinct(fnv_str(&name));
                    rep.table_push("static_checks", v.clone());
                    if v["ok"] != json!(true) {
                        rep.violation(format!("C19/static/{name}"), || v.clone());
                    }
                } else if line == "DONE" {
                    done = true;
                }
            }
            if !done || seen.iter().any(|s| !*s) {
                rep.inconclusive("generated run crate did not report every sequence");
            }
        }
        ChildOutcome::Exited(code, so, se) => {
            // all generated sequences are legal: a compile error here means the builder
            // rejected a sequence the statement allows (or the crate is otherwise broken)
            let errs: Vec<&str> = se.lines().filter(|l| l.contains("error")).take(12).collect();
            let in_generated = se.contains("generated.rs");
            if in_generated {
                rep.eval();
                rep.violation("C19/legal-sequence-rejected", || {
                    json!({"exit": code, "first_errors": errs, "meaning": "a call sequence that the type-state automaton allows did not compile"})
                });
            } else if se.contains("panicked") || so.contains("STATIC") {
                rep.eval();
                let tail: String = se.chars().rev().take(1500).collect::<String>().chars().rev().collect();
                rep.violation("C19/run-crate-crashed", || json!({"exit": code, "stderr_tail": tail}));
            } else {
                rep.eval();
                rep.violation("C19/fixtures-do-not-compile", || {
                    json!({"exit": code, "first_errors": errs, "meaning": "applying #[push_state(..)] to the fixture structs or using their builders no longer compiles"})
                });
            }
        }
        ChildOutcome::Signaled(sig, _, se) => {
            let tail: String = se.chars().rev().take(800).collect::<String>().chars().rev().collect();
            rep.eval();
            rep.violation("C19/run-crate-crashed", || json!({"signal": sig, "stderr_tail": tail}));
        }
        ChildOutcome::WallTimeout(..) => rep.inconclusive("run crate: wall-clock watchdog fired"),
        ChildOutcome::SpawnFailed(e) => rep.inconclusive(format!("cannot run cargo: {e}")),
    }

    // ---------------------------------------------------------------- compile-time part
    let max_len = args.tier.pick(3usize, 4usize);
    let mut cf = enumerate_cf(&sds, max_len);
    match write_cf_crate(&base.join("cf"), &sds, &mut cf) {
        Err(e) => rep.inconclusive(format!("cannot write generated compile-fail crate: {e}")),
        Ok(header_lines) => {
            let out = cargo(&base.join("cf"), &target, &["check", "--offline", "--quiet", "--message-format=json"], Duration::from_secs(2400));
            let (stdout, code) = match &out {
                ChildOutcome::Exited(c, so, _) => (so.clone(), Some(*c)),
                _ => (String::new(), None),
            };
            if code.is_none() {
                rep.inconclusive(format!("compile-fail crate: cargo check did not finish ({:?})", out).chars().take(300).collect::<String>());
            } else {
                // function index -> (error code, column of the earliest primary error span)
                let mut rejected: BTreeMap<usize, (String, usize)> = BTreeMap::new();
                let mut foreign_errors = Vec::new();
                for line in stdout.lines() {
                    let Ok(v) = serde_json::from_str::<Value>(line) else { continue };
                    if v["reason"] != json!("compiler-message") || v["message"]["level"] != json!("error") {
                        continue;
                    }
                    let code = v["message"]["code"]["code"].as_str().unwrap_or("").to_string();
                    let mut placed = false;
                    if let Some(spans) = v["message"]["spans"].as_array() {
                        for sp in spans {
                            let file = sp["file_name"].as_str().unwrap_or("");
                            if file.ends_with("generated.rs") && sp["is_primary"] == json!(true) {
                                let line_no = sp["line_start"].as_u64().unwrap_or(0) as usize;
                                if line_no > header_lines {
                                    let col = sp["column_start"].as_u64().unwrap_or(0) as usize;
                                    let e = rejected.entry(line_no - header_lines - 1).or_insert((code.clone(), col));
                                    if col < e.1 {
                                        *e = (code.clone(), col);
                                    }
                                    placed = true;
                                }
                            }
                        }
                    }
                    if !placed && !v["message"]["message"].as_str().unwrap_or("").starts_with("aborting due to") && !v["message"]["message"].as_str().unwrap_or("").starts_with("could not compile") {
                        foreign_errors.push(v["message"]["message"].as_str().unwrap_or("").chars().take(200).collect::<String>());
                    }
                }
                if !foreign_errors.is_empty() {
                    // errors outside the generated functions: the verdict table cannot be trusted
                    rep.eval();
                    rep.violation("C19/fixtures-do-not-compile", || json!({"errors_outside_generated_functions": foreign_errors.iter().take(10).collect::<Vec<_>>()}));
                } else {
                    let mut table: BTreeMap<String, u64> = BTreeMap::new();
                    let mut codes: BTreeMap<String, u64> = BTreeMap::new();
                    for (id, s) in cf.iter().enumerate() {
                        let sd = &sds[s.struct_idx];
                        let was_rejected = rejected.contains_key(&id);
                        if let Some((c, _)) = rejected.get(&id) {
                            *codes.entry(c.clone()).or_insert(0) += 1;
                        }
                        // which call did rustc reject first?
                        let rejected_call: Option<usize> = rejected.get(&id).and_then(|(_, col)| s.columns.iter().position(|(a, b)| col >= a && col < b));
                        rep.eval();
                        rep.distinct_by_construction(1);
                        let shown: String = s.calls.iter().map(|c| render_call(sd, c)).collect();
                        let key = format!(
                            "{}:{}:{}",
                            sd.ty,
                            match s.required {
                                Required::MustCompile => "must-compile",
                                Required::MustFail => "must-fail",
                                Required::Unjudged => "unjudged",
                            },
                            if was_rejected { "rejected" } else { "accepted" }
                        );
                        *table.entry(key).or_insert(0) += 1;
                        match (s.required, was_rejected) {
                            (Required::MustCompile, true) => rep.violation(format!("C19/{}/legal-sequence-rejected", sd.ty), || {
                                json!({"struct": sd.ty, "sequence": format!("{}::builder(){shown}", sd.ty), "rustc_error": rejected.get(&id).map(|e| e.0.clone())})
                            }),
                            (Required::MustFail, false) => rep.violation(format!("C19/{}/misuse-accepted", sd.ty), || {
                                json!({"struct": sd.ty, "sequence": format!("{}::builder(){shown}", sd.ty), "why_it_must_not_compile": s.reason})
                            }),
                            // the function is rejected, but only at a *later* call: the call that
                            // the statement says must not type-check was accepted
                            (Required::MustFail, true) if rejected_call.is_some() && s.first_illegal.is_some() && rejected_call > s.first_illegal => {
                                rep.violation(format!("C19/{}/misuse-accepted", sd.ty), || {
                                    json!({"struct": sd.ty, "sequence": format!("{}::builder(){shown}", sd.ty), "why_it_must_not_compile": s.reason,
                                           "call_that_must_be_rejected": s.first_illegal.map(|k| render_call(sd, &s.calls[k])),
                                           "call_rustc_rejected_instead": rejected_call.map(|k| render_call(sd, &s.calls[k]))})
                                });
                            }
                            (Required::MustFail, true) if rejected_call.is_some() && rejected_call < s.first_illegal => {
                                rep.violation(format!("C19/{}/legal-call-rejected", sd.ty), || {
                                    json!({"struct": sd.ty, "sequence": format!("{}::builder(){shown}", sd.ty),
                                           "call_rustc_rejected": rejected_call.map(|k| render_call(sd, &s.calls[k])), "first_call_that_may_be_rejected": s.first_illegal.map(|k| render_call(sd, &s.calls[k]))})
                                });
                            }
                            _ => {
                                if rep.wants_sample() && s.required == Required::MustFail && s.calls.len() >= 3 {
                                    rep.sample(|| json!({"kind": "compile-time verdict", "sequence": format!("{}::builder(){shown}", sd.ty), "required": "must fail", "why": s.reason, "rustc": rejected.get(&id).map(|e| e.0.clone()), "rejected_at_call": rejected_call.map(|k| render_call(sd, &s.calls[k]))}));
                                }
                            }
                        }
                    }
                    rep.table("compile_verdicts", json!({"max_calls_before_build": max_len, "by_struct_requirement_verdict": table, "rustc_error_codes": codes}));
                }
            }
        }
    }

    rep.finish(
        args,
        "exploration",
        "run time: random legal call sequences from the type-state automaton over PushState and four fixture structs (distinct by hash of the call list) plus fixed checks (all declaration orders of up to 5 inputs, program order by running, overflow boundary grid, accessors); compile time: every call sequence up to the stated length over a reduced method alphabet, each a distinct function (distinct by construction)",
        false,
        &[
            "the compile-time clause is decided by observing rustc's verdict per generated function; only verdicts the statement names are judged (build without sizes/program/step limit; size change after data), the rest is recorded",
            "fixture structs with two or more stacks use #[push_state(!has_stack, builder)] because the generated HasStack impls do not pass coherence outside the push crate (E0119); generated accessors are exercised on PushState and a one-stack fixture",
        ],
    )
}
