//! Reference semantics of the Push VM, written from the documentation (action tables in the
//! doc comments) and the property statements — *not* from the match arms of the code under
//! test — plus the glue that builds real `PushState`s from model states and observes them.
//!
//! The model is deliberately plain: stacks are `Vec`s (bottom first), floats are `f64`
//! compared by bit pattern with all NaNs identified, programs are a small AST (`MP`).
//! Where the statement is silent the model is set-valued (`Step::Ambiguous`).

use std::collections::BTreeMap;

use ordered_float::OrderedFloat;
use push::{
    instruction::{
        printing as pr,
        variable_name::VariableName,
        BoolInstruction, ExecInstruction, FloatInstruction, IntInstruction, PushInstruction,
    },
    push_vm::{program::PushProgram, push_state::PushState, HasStack},
};
use vh_core::{json, Value, Xo};

#[derive(Clone, Copy, Debug, PartialEq, Eq, Hash, PartialOrd, Ord)]
pub enum Ty {
    Exec,
    Int,
    Float,
    Bool,
}

impl Ty {
    pub const ALL: [Ty; 4] = [Ty::Exec, Ty::Int, Ty::Float, Ty::Bool];
    pub const DATA: [Ty; 3] = [Ty::Int, Ty::Float, Ty::Bool];

    #[must_use]
    pub fn idx(self) -> usize {
        match self {
            Ty::Exec => 0,
            Ty::Int => 1,
            Ty::Float => 2,
            Ty::Bool => 3,
        }
    }

    #[must_use]
    pub fn name(self) -> &'static str {
        match self {
            Ty::Exec => "Exec",
            Ty::Int => "Int",
            Ty::Float => "Float",
            Ty::Bool => "Bool",
        }
    }
}

/// Input value bound to a name.
#[derive(Clone, Copy, Debug, PartialEq)]
pub enum InVal {
    I(i64),
    F(f64),
    B(bool),
}

#[derive(Clone, Debug, PartialEq)]
pub enum MI {
    // instructions every stack has
    Pop(Ty),
    Dup(Ty),
    Swap(Ty),
    IsEmpty(Ty),
    StackDepth(Ty),
    Flush(Ty),
    PushInt(i64),
    PushFloat(f64),
    PushBool(bool),
    PushExec(Box<MP>),
    Print(Ty),   // Int / Float / Bool
    PrintLn(Ty), // Int / Float / Bool
    // integer
    Negate,
    Abs,
    Min,
    Max,
    Clamp,
    Inc,
    Dec,
    Add,
    Sub,
    Mul,
    Div,
    Mod,
    Pow,
    Square,
    IsZero,
    IsPositive,
    IsNegative,
    IsEven,
    IsOdd,
    Eq,
    Ne,
    Lt,
    Le,
    Gt,
    Ge,
    IntFromBool,
    IntFromFloat,
    // float
    FAdd,
    FSub,
    FMul,
    FDiv,
    FEq,
    FNe,
    FGt,
    FLt,
    FGe,
    FLe,
    FloatFromInt,
    // bool
    Not,
    Or,
    And,
    Xor,
    Implies,
    BoolFromInt,
    // exec
    Noop,
    DupBlock,
    When,
    Unless,
    IfElse,
    // output
    PrintSpace,
    PrintNewline,
    PrintPeriod,
    PrintString(String),
    // input variable
    Input(String),
}

#[derive(Clone, Debug, PartialEq)]
pub enum MP {
    I(MI),
    Block(Vec<MP>),
}

impl MI {
    /// Stable name used in violation signatures and coverage tables.
    #[must_use]
    pub fn name(&self) -> String {
        match self {
            MI::Pop(t) => format!("{}.Pop", t.name()),
            MI::Dup(t) => format!("{}.Dup", t.name()),
            MI::Swap(t) => format!("{}.Swap", t.name()),
            MI::IsEmpty(t) => format!("{}.IsEmpty", t.name()),
            MI::StackDepth(t) => format!("{}.StackDepth", t.name()),
            MI::Flush(t) => format!("{}.Flush", t.name()),
            MI::PushInt(_) => "Int.Push".into(),
            MI::PushFloat(_) => "Float.Push".into(),
            MI::PushBool(_) => "Bool.Push".into(),
            MI::PushExec(_) => "Exec.Push".into(),
            MI::Print(t) => format!("{}.Print", t.name()),
            MI::PrintLn(t) => format!("{}.PrintLn", t.name()),
            MI::Negate => "Int.Negate".into(),
            MI::Abs => "Int.Abs".into(),
            MI::Min => "Int.Min".into(),
            MI::Max => "Int.Max".into(),
            MI::Clamp => "Int.Clamp".into(),
            MI::Inc => "Int.Inc".into(),
            MI::Dec => "Int.Dec".into(),
            MI::Add => "Int.Add".into(),
            MI::Sub => "Int.Subtract".into(),
            MI::Mul => "Int.Multiply".into(),
            MI::Div => "Int.ProtectedDivide".into(),
            MI::Mod => "Int.Mod".into(),
            MI::Pow => "Int.Power".into(),
            MI::Square => "Int.Square".into(),
            MI::IsZero => "Int.IsZero".into(),
            MI::IsPositive => "Int.IsPositive".into(),
            MI::IsNegative => "Int.IsNegative".into(),
            MI::IsEven => "Int.IsEven".into(),
            MI::IsOdd => "Int.IsOdd".into(),
            MI::Eq => "Int.Equal".into(),
            MI::Ne => "Int.NotEqual".into(),
            MI::Lt => "Int.LessThan".into(),
            MI::Le => "Int.LessThanEqual".into(),
            MI::Gt => "Int.GreaterThan".into(),
            MI::Ge => "Int.GreaterThanEqual".into(),
            MI::IntFromBool => "Int.FromBoolean".into(),
            MI::IntFromFloat => "Int.FromFloatApprox".into(),
            MI::FAdd => "Float.Add".into(),
            MI::FSub => "Float.Subtract".into(),
            MI::FMul => "Float.Multiply".into(),
            MI::FDiv => "Float.ProtectedDivide".into(),
            MI::FEq => "Float.Equal".into(),
            MI::FNe => "Float.NotEqual".into(),
            MI::FGt => "Float.GreaterThan".into(),
            MI::FLt => "Float.LessThan".into(),
            MI::FGe => "Float.GreaterThanOrEqual".into(),
            MI::FLe => "Float.LessThanOrEqual".into(),
            MI::FloatFromInt => "Float.FromIntApprox".into(),
            MI::Not => "Bool.Not".into(),
            MI::Or => "Bool.Or".into(),
            MI::And => "Bool.And".into(),
            MI::Xor => "Bool.Xor".into(),
            MI::Implies => "Bool.Implies".into(),
            MI::BoolFromInt => "Bool.FromInt".into(),
            MI::Noop => "Exec.Noop".into(),
            MI::DupBlock => "Exec.DupBlock".into(),
            MI::When => "Exec.When".into(),
            MI::Unless => "Exec.Unless".into(),
            MI::IfElse => "Exec.IfElse".into(),
            MI::PrintSpace => "PrintSpace".into(),
            MI::PrintNewline => "PrintNewline".into(),
            MI::PrintPeriod => "PrintPeriod".into(),
            MI::PrintString(_) => "PrintString".into(),
            MI::Input(_) => "InputVar".into(),
        }
    }

    /// Number of blocks a Plushy gene holding this instruction opens.
    #[must_use]
    pub fn opens(&self) -> usize {
        match self {
            MI::DupBlock | MI::When | MI::Unless => 1,
            MI::IfElse => 2,
            _ => 0,
        }
    }

    #[must_use]
    pub fn render(&self) -> String {
        match self {
            MI::PushInt(v) => format!("Int.Push({v})"),
            MI::PushFloat(v) => format!("Float.Push({v:?})"),
            MI::PushBool(v) => format!("Bool.Push({v})"),
            MI::PushExec(p) => format!("Exec.Push({})", p.render()),
            MI::PrintString(s) => format!("PrintString({s:?})"),
            MI::Input(n) => format!("Input({n})"),
            other => other.name(),
        }
    }

    /// (operand stacks with count, destination stack that must have room) — the small
    /// "which stacks does this instruction read / write" table used by fault enumeration.
    /// Exec operands are counted after the instruction itself was taken off the exec stack.
    #[must_use]
    pub fn io(&self) -> (Vec<(Ty, usize)>, Option<Ty>) {
        use MI::*;
        match self {
            Pop(t) => (vec![(*t, 1)], None),
            Dup(t) => (vec![(*t, 1)], Some(*t)),
            Swap(t) => (vec![(*t, 2)], None),
            IsEmpty(_) => (vec![], Some(Ty::Bool)),
            StackDepth(_) => (vec![], Some(Ty::Int)),
            Flush(_) => (vec![], None),
            PushInt(_) => (vec![], Some(Ty::Int)),
            PushFloat(_) => (vec![], Some(Ty::Float)),
            PushBool(_) => (vec![], Some(Ty::Bool)),
            PushExec(_) => (vec![], Some(Ty::Exec)),
            Print(t) | PrintLn(t) => (vec![(*t, 1)], None),
            Negate | Abs | Inc | Dec | Square => (vec![(Ty::Int, 1)], None),
            Min | Max | Add | Sub | Mul | Div | Mod | Pow => (vec![(Ty::Int, 2)], None),
            Clamp => (vec![(Ty::Int, 3)], None),
            IsZero | IsPositive | IsNegative | IsEven | IsOdd => {
                (vec![(Ty::Int, 1)], Some(Ty::Bool))
            }
            Eq | Ne | Lt | Le | Gt | Ge => (vec![(Ty::Int, 2)], Some(Ty::Bool)),
            IntFromBool => (vec![(Ty::Bool, 1)], Some(Ty::Int)),
            IntFromFloat => (vec![(Ty::Float, 1)], Some(Ty::Int)),
            FAdd | FSub | FMul | FDiv => (vec![(Ty::Float, 2)], None),
            FEq | FNe | FGt | FLt | FGe | FLe => (vec![(Ty::Float, 2)], Some(Ty::Bool)),
            FloatFromInt => (vec![(Ty::Int, 1)], Some(Ty::Float)),
            Not => (vec![(Ty::Bool, 1)], None),
            Or | And | Xor | Implies => (vec![(Ty::Bool, 2)], None),
            BoolFromInt => (vec![(Ty::Int, 1)], Some(Ty::Bool)),
            Noop => (vec![], None),
            DupBlock => (vec![(Ty::Exec, 1)], Some(Ty::Exec)),
            When | Unless => (vec![(Ty::Bool, 1), (Ty::Exec, 1)], None),
            IfElse => (vec![(Ty::Bool, 1), (Ty::Exec, 2)], None),
            PrintSpace | PrintNewline | PrintPeriod | PrintString(_) => (vec![], None),
            Input(_) => (vec![], None), // destination depends on the bound value
        }
    }
}

impl MP {
    #[must_use]
    pub fn render(&self) -> String {
        match self {
            MP::I(i) => i.render(),
            MP::Block(b) => format!(
                "[{}]",
                b.iter().map(MP::render).collect::<Vec<_>>().join(" ")
            ),
        }
    }

    #[must_use]
    pub fn nodes(&self) -> usize {
        match self {
            MP::I(MI::PushExec(p)) => 1 + p.nodes(),
            MP::I(_) => 1,
            MP::Block(b) => 1 + b.iter().map(MP::nodes).sum::<usize>(),
        }
    }
}

#[must_use]
pub fn render_prog(p: &[MP]) -> String {
    p.iter().map(MP::render).collect::<Vec<_>>().join(" ")
}

// ------------------------------------------------------------------------------------
// model state

#[derive(Clone, Debug, PartialEq)]
pub struct MState {
    pub exec: Vec<MP>, // bottom first, top = last
    pub int: Vec<i64>,
    pub float: Vec<f64>,
    pub boolean: Vec<bool>,
    pub caps: [usize; 4], // indexed by Ty::idx
    pub stdout: String,
    pub step_limit: usize,
    pub inputs: BTreeMap<String, InVal>,
}

#[must_use]
pub fn fbits(f: f64) -> u64 {
    if f.is_nan() {
        0x7ff8_0000_0000_0000
    } else {
        f.to_bits()
    }
}

impl MState {
    #[must_use]
    pub fn size(&self, t: Ty) -> usize {
        match t {
            Ty::Exec => self.exec.len(),
            Ty::Int => self.int.len(),
            Ty::Float => self.float.len(),
            Ty::Bool => self.boolean.len(),
        }
    }

    #[must_use]
    pub fn cap(&self, t: Ty) -> usize {
        self.caps[t.idx()]
    }

    #[must_use]
    pub fn full(&self, t: Ty) -> bool {
        self.size(t) >= self.cap(t)
    }

    #[must_use]
    pub fn to_json(&self) -> Value {
        let cap = |c: usize| {
            if c == usize::MAX {
                json!("usize::MAX")
            } else {
                json!(c)
            }
        };
        json!({
            "exec_top_first": self.exec.iter().rev().map(MP::render).collect::<Vec<_>>(),
            "int_bottom_first": self.int,
            "float_bottom_first": self.float.iter().map(|f| format!("{f:?}")).collect::<Vec<_>>(),
            "bool_bottom_first": self.boolean,
            "max_sizes": {"exec": cap(self.caps[0]), "int": cap(self.caps[1]), "float": cap(self.caps[2]), "bool": cap(self.caps[3])},
            "stdout": self.stdout,
            "step_limit": self.step_limit,
            "inputs": self.inputs.iter().map(|(k, v)| (k.clone(), json!(format!("{v:?}")))).collect::<BTreeMap<_, _>>(),
        })
    }
}

/// Outcome of performing one instruction on a model state (the instruction itself is
/// *not* on the exec stack of `s`).
#[derive(Clone, Debug, PartialEq)]
pub enum Step {
    /// instruction carried out
    Next(Box<MState>),
    /// recoverable: missing operands / arithmetic fault; state unchanged
    Skip(&'static str),
    /// destination stack full: evaluation aborts, state unchanged
    Fatal(Ty),
    /// statement silent (e.g. operands missing *and* destination full): every listed
    /// outcome is acceptable
    Ambiguous(Vec<Step>),
}

impl Step {
    #[must_use]
    pub fn kind(&self) -> &'static str {
        match self {
            Step::Next(_) => "ok",
            Step::Skip(w) => w,
            Step::Fatal(_) => "fatal-overflow",
            Step::Ambiguous(_) => "ambiguous",
        }
    }
}

/// Total order the float element type documents: all NaNs equal, NaN greatest, -0 == +0.
#[must_use]
pub fn fcmp(a: f64, b: f64) -> std::cmp::Ordering {
    use std::cmp::Ordering::*;
    match (a.is_nan(), b.is_nan()) {
        (true, true) => Equal,
        (true, false) => Greater,
        (false, true) => Less,
        (false, false) => a.partial_cmp(&b).unwrap_or(Equal),
    }
}

/// `f as i64` written out: truncation toward zero, saturation, NaN -> 0.
#[must_use]
pub fn f2i(f: f64) -> i64 {
    if f.is_nan() {
        0
    } else if f >= 9_223_372_036_854_775_808.0 {
        i64::MAX
    } else if f <= -9_223_372_036_854_775_808.0 {
        i64::MIN
    } else {
        // in range: truncate; go through i128 to stay independent of `as i64` saturation
        let t = f.trunc();
        (t as i128) as i64
    }
}

fn skip_underflow() -> Step {
    Step::Skip("skip-underflow")
}

fn skip_arith() -> Step {
    Step::Skip("skip-arith")
}

/// Perform `i` on `s` according to the documented semantics.
#[must_use]
pub fn perform(i: &MI, s: &MState) -> Step {
    use MI::*;
    let (operands, dest) = i.io();
    let missing = operands.iter().any(|(t, n)| s.size(*t) < *n);
    // How full the destination is *after* operands of the same type are consumed.
    let dest_full = |t: Ty, consumed_same: usize| s.size(t) - consumed_same.min(s.size(t)) >= s.cap(t);

    // Conditionals have their own action tables (they are never fatal).
    match i {
        When => return cond_when(s),
        Unless => return cond_unless(s),
        IfElse => return cond_ifelse(s),
        _ => {}
    }

    // Generic fault classification for everything else.
    if let Some(d) = dest {
        let consumed_same = operands
            .iter()
            .filter(|(t, _)| *t == d)
            .map(|(_, n)| *n)
            .sum::<usize>();
        // Dup-like instructions read but do not consume; everything that writes to its own
        // operand stack here (Dup, DupBlock) keeps its operand.
        let consumed_same = match i {
            Dup(_) | DupBlock => 0,
            _ => consumed_same,
        };
        let full = dest_full(d, consumed_same);
        match (missing, full) {
            (true, true) => {
                return Step::Ambiguous(vec![skip_underflow(), Step::Fatal(d)]);
            }
            (true, false) => return skip_underflow(),
            (false, true) => return Step::Fatal(d),
            (false, false) => {}
        }
    } else if missing {
        return skip_underflow();
    }

    let mut n = s.clone();
    let top_i = |k: usize| s.int[s.int.len() - 1 - k];
    let top_f = |k: usize| s.float[s.float.len() - 1 - k];
    let top_b = |k: usize| s.boolean[s.boolean.len() - 1 - k];

    macro_rules! int_result {
        ($consume:expr, $val:expr) => {{
            match $val {
                Some(v) => {
                    n.int.truncate(n.int.len() - $consume);
                    n.int.push(v);
                }
                None => return skip_arith(),
            }
        }};
    }
    macro_rules! int_pred {
        ($consume:expr, $val:expr) => {{
            let v: bool = $val;
            n.int.truncate(n.int.len() - $consume);
            n.boolean.push(v);
        }};
    }
    macro_rules! float_result {
        ($val:expr) => {{
            let v: f64 = $val;
            n.float.truncate(n.float.len() - 2);
            n.float.push(v);
        }};
    }
    macro_rules! float_pred {
        ($val:expr) => {{
            let v: bool = $val;
            n.float.truncate(n.float.len() - 2);
            n.boolean.push(v);
        }};
    }
    macro_rules! bool_result {
        ($consume:expr, $val:expr) => {{
            let v: bool = $val;
            n.boolean.truncate(n.boolean.len() - $consume);
            n.boolean.push(v);
        }};
    }

    match i {
        Pop(t) => match t {
            Ty::Exec => {
                n.exec.pop();
            }
            Ty::Int => {
                n.int.pop();
            }
            Ty::Float => {
                n.float.pop();
            }
            Ty::Bool => {
                n.boolean.pop();
            }
        },
        Dup(t) => match t {
            Ty::Exec => {
                let x = s.exec[s.exec.len() - 1].clone();
                n.exec.push(x);
            }
            Ty::Int => n.int.push(top_i(0)),
            Ty::Float => n.float.push(top_f(0)),
            Ty::Bool => n.boolean.push(top_b(0)),
        },
        Swap(t) => match t {
            Ty::Exec => {
                let l = n.exec.len();
                n.exec.swap(l - 1, l - 2);
            }
            Ty::Int => {
                let l = n.int.len();
                n.int.swap(l - 1, l - 2);
            }
            Ty::Float => {
                let l = n.float.len();
                n.float.swap(l - 1, l - 2);
            }
            Ty::Bool => {
                let l = n.boolean.len();
                n.boolean.swap(l - 1, l - 2);
            }
        },
        IsEmpty(t) => n.boolean.push(s.size(*t) == 0),
        StackDepth(t) => n.int.push(i64::try_from(s.size(*t)).unwrap_or(i64::MAX)),
        Flush(t) => match t {
            Ty::Exec => n.exec.clear(),
            Ty::Int => n.int.clear(),
            Ty::Float => n.float.clear(),
            Ty::Bool => n.boolean.clear(),
        },
        PushInt(v) => n.int.push(*v),
        PushFloat(v) => n.float.push(*v),
        PushBool(v) => n.boolean.push(*v),
        PushExec(p) => n.exec.push((**p).clone()),
        Print(t) | PrintLn(t) => {
            let text = match t {
                Ty::Int => format!("{}", n.int.pop().unwrap_or_default()),
                Ty::Float => format!("{}", n.float.pop().unwrap_or_default()),
                Ty::Bool => format!("{}", n.boolean.pop().unwrap_or_default()),
                Ty::Exec => String::new(),
            };
            n.stdout.push_str(&text);
            if matches!(i, PrintLn(_)) {
                n.stdout.push('\n');
            }
        }
        Negate => int_result!(1, Some(if top_i(0) == i64::MIN { i64::MAX } else { -top_i(0) })),
        Abs => int_result!(
            1,
            Some(if top_i(0) == i64::MIN {
                i64::MAX
            } else if top_i(0) < 0 {
                -top_i(0)
            } else {
                top_i(0)
            })
        ),
        Min => int_result!(2, Some(if top_i(0) <= top_i(1) { top_i(0) } else { top_i(1) })),
        Max => int_result!(2, Some(if top_i(0) >= top_i(1) { top_i(0) } else { top_i(1) })),
        Clamp => {
            let (v, a, b) = (top_i(0), top_i(1), top_i(2));
            let (lo, hi) = if a <= b { (a, b) } else { (b, a) };
            let r = if v < lo {
                lo
            } else if v > hi {
                hi
            } else {
                v
            };
            int_result!(3, Some(r));
        }
        Inc => int_result!(1, narrow(i128::from(top_i(0)) + 1)),
        Dec => int_result!(1, narrow(i128::from(top_i(0)) - 1)),
        Square => int_result!(1, narrow(i128::from(top_i(0)) * i128::from(top_i(0)))),
        Add => int_result!(2, narrow(i128::from(top_i(0)) + i128::from(top_i(1)))),
        Sub => int_result!(2, narrow(i128::from(top_i(0)) - i128::from(top_i(1)))),
        Mul => int_result!(2, narrow(i128::from(top_i(0)) * i128::from(top_i(1)))),
        Div => {
            let (x, y) = (top_i(0), top_i(1));
            if y == 0 {
                int_result!(2, Some(1));
            } else {
                // truncating division; i64::MIN / -1 does not fit -> integer overflow -> skip
                int_result!(2, narrow(i128::from(x) / i128::from(y)));
            }
        }
        Mod => {
            let (x, y) = (top_i(0), top_i(1));
            if y == 0 {
                int_result!(2, Some(0));
            } else if x == i64::MIN && y == -1 {
                // mathematically 0, but the division it is defined by overflows: statement
                // silent, accept both
                let mut alt = s.clone();
                alt.int.truncate(alt.int.len() - 2);
                alt.int.push(0);
                return Step::Ambiguous(vec![skip_arith(), Step::Next(Box::new(alt))]);
            } else {
                int_result!(2, narrow(i128::from(x) % i128::from(y)));
            }
        }
        Pow => {
            let (x, y) = (top_i(0), top_i(1));
            if y < 0 {
                return skip_arith();
            }
            let exact = pow_exact(x, y);
            if y > i64::from(u32::MAX) {
                // exponent beyond 32 bits: only 0, 1, -1 have representable powers; the
                // statement does not say whether such an exponent counts as overflow
                let mut outs = vec![skip_arith()];
                if let Some(v) = exact {
                    let mut alt = s.clone();
                    alt.int.truncate(alt.int.len() - 2);
                    alt.int.push(v);
                    outs.push(Step::Next(Box::new(alt)));
                }
                return Step::Ambiguous(outs);
            }
            int_result!(2, exact);
        }
        IsZero => int_pred!(1, top_i(0) == 0),
        IsPositive => int_pred!(1, top_i(0) > 0),
        IsNegative => int_pred!(1, top_i(0) < 0),
        IsEven => int_pred!(1, top_i(0).rem_euclid(2) == 0),
        IsOdd => int_pred!(1, top_i(0).rem_euclid(2) == 1),
        Eq => int_pred!(2, top_i(0) == top_i(1)),
        Ne => int_pred!(2, top_i(0) != top_i(1)),
        Lt => int_pred!(2, top_i(0) < top_i(1)),
        Le => int_pred!(2, top_i(0) <= top_i(1)),
        Gt => int_pred!(2, top_i(0) > top_i(1)),
        Ge => int_pred!(2, top_i(0) >= top_i(1)),
        IntFromBool => {
            let b = n.boolean.pop().unwrap_or_default();
            n.int.push(i64::from(b));
        }
        IntFromFloat => {
            let f = n.float.pop().unwrap_or_default();
            n.int.push(f2i(f));
        }
        FAdd => float_result!(top_f(0) + top_f(1)),
        FSub => float_result!(top_f(0) - top_f(1)),
        FMul => float_result!(top_f(0) * top_f(1)),
        FDiv => float_result!(if top_f(1) == 0.0 { 1.0 } else { top_f(0) / top_f(1) }),
        FEq => float_pred!(fcmp(top_f(0), top_f(1)).is_eq()),
        FNe => float_pred!(fcmp(top_f(0), top_f(1)).is_ne()),
        FGt => float_pred!(fcmp(top_f(0), top_f(1)).is_gt()),
        FLt => float_pred!(fcmp(top_f(0), top_f(1)).is_lt()),
        FGe => float_pred!(fcmp(top_f(0), top_f(1)).is_ge()),
        FLe => float_pred!(fcmp(top_f(0), top_f(1)).is_le()),
        FloatFromInt => {
            let v = n.int.pop().unwrap_or_default();
            n.float.push(v as f64);
        }
        Not => bool_result!(1, !top_b(0)),
        Or => bool_result!(2, top_b(0) || top_b(1)),
        And => bool_result!(2, top_b(0) && top_b(1)),
        Xor => bool_result!(2, top_b(0) != top_b(1)),
        Implies => bool_result!(2, !top_b(0) || top_b(1)),
        BoolFromInt => {
            let v = n.int.pop().unwrap_or_default();
            n.boolean.push(v != 0);
        }
        Noop => {}
        DupBlock => {
            let x = s.exec[s.exec.len() - 1].clone();
            n.exec.push(x);
        }
        PrintSpace => n.stdout.push(' '),
        PrintNewline => n.stdout.push('\n'),
        PrintPeriod => n.stdout.push('.'),
        PrintString(t) => n.stdout.push_str(t),
        Input(name) => {
            let Some(v) = s.inputs.get(name) else {
                // precondition of the properties: every mentioned input is bound
                return Step::Skip("unbound-input");
            };
            let t = match v {
                InVal::I(_) => Ty::Int,
                InVal::F(_) => Ty::Float,
                InVal::B(_) => Ty::Bool,
            };
            if s.full(t) {
                return Step::Fatal(t);
            }
            match v {
                InVal::I(x) => n.int.push(*x),
                InVal::F(x) => n.float.push(*x),
                InVal::B(x) => n.boolean.push(*x),
            }
        }
        When | Unless | IfElse => unreachable!(),
    }
    Step::Next(Box::new(n))
}

fn narrow(v: i128) -> Option<i64> {
    i64::try_from(v).ok()
}

/// x^y for y >= 0 when representable in i64, by repeated multiplication in i128 with an
/// early exit (independent of `checked_pow`).
fn pow_exact(x: i64, y: i64) -> Option<i64> {
    match x {
        0 => return Some(if y == 0 { 1 } else { 0 }),
        1 => return Some(1),
        -1 => return Some(if y % 2 == 0 { 1 } else { -1 }),
        _ => {}
    }
    if y > 64 {
        return None; // |x| >= 2
    }
    let mut acc: i128 = 1;
    for _ in 0..y {
        acc *= i128::from(x);
        if acc > i128::from(i64::MAX) || acc < i128::from(i64::MIN) {
            return None;
        }
    }
    narrow(acc)
}

// Documented action tables ----------------------------------------------------------

fn cond_when(s: &MState) -> Step {
    let b = s.boolean.last().copied();
    let has_block = !s.exec.is_empty();
    let mut n = s.clone();
    match (b, has_block) {
        (Some(true), true) => {
            n.boolean.pop();
        }
        (Some(false), true) => {
            n.boolean.pop();
            n.exec.pop();
        }
        (None, true) => {
            n.exec.pop();
        }
        (Some(_), false) => {}
        (None, false) => return skip_underflow(),
    }
    Step::Next(Box::new(n))
}

fn cond_unless(s: &MState) -> Step {
    let b = s.boolean.last().copied();
    let has_block = !s.exec.is_empty();
    let mut n = s.clone();
    match (b, has_block) {
        (Some(false), true) => {
            n.boolean.pop();
        }
        (Some(true), true) => {
            n.boolean.pop();
            n.exec.pop();
        }
        (None, true) | (Some(_), false) => {}
        (None, false) => return skip_underflow(),
    }
    Step::Next(Box::new(n))
}

fn cond_ifelse(s: &MState) -> Step {
    let b = s.boolean.last().copied();
    let blocks = s.exec.len();
    let mut n = s.clone();
    match (b, blocks) {
        (_, 0) => return skip_underflow(),
        (Some(true), 1) => {
            // behaves as When
            n.boolean.pop();
        }
        (Some(false), 1) => {
            n.boolean.pop();
            n.exec.pop();
        }
        (Some(true), _) => {
            // then (top) stays, else (second) consumed
            n.boolean.pop();
            let l = n.exec.len();
            n.exec.remove(l - 2);
        }
        (Some(false), _) => {
            n.boolean.pop();
            n.exec.pop();
        }
        (None, _) => {
            // then block consumed, else (if present) unchanged
            n.exec.pop();
        }
    }
    Step::Next(Box::new(n))
}

/// Unfold a block: first element becomes the top of exec. Fatal when it does not fit.
#[must_use]
pub fn perform_block(b: &[MP], s: &MState) -> Step {
    if s.exec.len().checked_add(b.len()).is_none_or(|t| t > s.cap(Ty::Exec)) {
        return Step::Fatal(Ty::Exec);
    }
    let mut n = s.clone();
    n.exec.extend(b.iter().rev().cloned());
    Step::Next(Box::new(n))
}

#[must_use]
pub fn perform_prog(p: &MP, s: &MState) -> Step {
    match p {
        MP::I(i) => perform(i, s),
        MP::Block(b) => perform_block(b, s),
    }
}

/// One trace entry of the reference run.
#[derive(Clone, Debug)]
pub struct TraceStep {
    /// what was executed at this step
    pub what: String,
    pub kind: &'static str,
}

#[derive(Clone, Debug)]
pub enum RunEnd {
    /// exec ran empty or the step limit was reached
    Done,
    /// the instruction at step index `at` overflowed `stack`; `carried` is the state handed back
    Fatal { at: usize, stack: Ty, carried: Box<MState> },
    /// an ambiguous step was reached at `at`; later states are not predicted
    Ambiguous { at: usize, options: Vec<Step>, before: Box<MState> },
}

/// Reference run: returns states[k] = state after k steps (states[0] = initial), the
/// trace, and how it ended. `max_steps` caps the model run (harness budget).
#[must_use]
pub fn run(initial: &MState, max_steps: usize) -> (Vec<MState>, Vec<TraceStep>, RunEnd) {
    let mut states = vec![initial.clone()];
    let mut trace = Vec::new();
    let mut cur = initial.clone();
    let mut k = 0usize;
    while k < cur.step_limit && k < max_steps {
        let Some(p) = cur.exec.pop() else { break };
        let what = match &p {
            MP::I(i) => i.name(),
            MP::Block(_) => "Block".to_string(),
        };
        let st = perform_prog(&p, &cur);
        let kind = st.kind();
        trace.push(TraceStep { what, kind });
        match st {
            Step::Next(n) => cur = *n,
            Step::Skip(_) => {}
            Step::Fatal(stack) => {
                return (
                    states,
                    trace,
                    RunEnd::Fatal {
                        at: k,
                        stack,
                        carried: Box::new(cur),
                    },
                );
            }
            Step::Ambiguous(options) => {
                return (
                    states,
                    trace,
                    RunEnd::Ambiguous {
                        at: k,
                        options,
                        before: Box::new(cur),
                    },
                );
            }
        }
        k += 1;
        states.push(cur.clone());
    }
    (states, trace, RunEnd::Done)
}

// ------------------------------------------------------------------------------------
// translation to the real types

fn exec_push(p: PushProgram) -> ExecInstruction {
    let mut e = ExecInstruction::Push(Default::default());
    if let ExecInstruction::Push(b) = &mut e {
        b.0 = p;
    }
    e
}

#[must_use]
pub fn to_real_instr(i: &MI) -> PushInstruction {
    use MI::*;
    match i {
        Pop(Ty::Exec) => ExecInstruction::Pop(Default::default()).into(),
        Dup(Ty::Exec) => ExecInstruction::Dup(Default::default()).into(),
        Swap(Ty::Exec) => ExecInstruction::Swap(Default::default()).into(),
        IsEmpty(Ty::Exec) => ExecInstruction::IsEmpty(Default::default()).into(),
        StackDepth(Ty::Exec) => ExecInstruction::StackDepth(Default::default()).into(),
        Flush(Ty::Exec) => ExecInstruction::Flush(Default::default()).into(),
        Pop(Ty::Int) => IntInstruction::pop().into(),
        Dup(Ty::Int) => IntInstruction::dup().into(),
        Swap(Ty::Int) => IntInstruction::swap().into(),
        IsEmpty(Ty::Int) => IntInstruction::is_empty().into(),
        StackDepth(Ty::Int) => IntInstruction::stack_depth().into(),
        Flush(Ty::Int) => IntInstruction::flush().into(),
        Pop(Ty::Float) => FloatInstruction::pop().into(),
        Dup(Ty::Float) => FloatInstruction::dup().into(),
        Swap(Ty::Float) => FloatInstruction::swap().into(),
        IsEmpty(Ty::Float) => FloatInstruction::is_empty().into(),
        StackDepth(Ty::Float) => FloatInstruction::stack_depth().into(),
        Flush(Ty::Float) => FloatInstruction::flush().into(),
        Pop(Ty::Bool) => BoolInstruction::Pop(Default::default()).into(),
        Dup(Ty::Bool) => BoolInstruction::Dup(Default::default()).into(),
        Swap(Ty::Bool) => BoolInstruction::Swap(Default::default()).into(),
        IsEmpty(Ty::Bool) => BoolInstruction::IsEmpty(Default::default()).into(),
        StackDepth(Ty::Bool) => BoolInstruction::StackDepth(Default::default()).into(),
        Flush(Ty::Bool) => BoolInstruction::Flush(Default::default()).into(),
        // literals are built through every public constructor the crate offers (chosen by the
        // value, so both forms occur throughout the workloads and must behave alike)
        PushInt(v) if v.rem_euclid(3) == 1 => PushInstruction::push_int(*v),
        PushInt(v) => IntInstruction::push(*v).into(),
        PushFloat(v) if v.to_bits() % 3 == 1 => PushInstruction::push_float(OrderedFloat(*v)),
        PushFloat(v) if v.to_bits() % 3 == 2 => FloatInstruction::push_ordered_float(OrderedFloat(*v)).into(),
        PushFloat(v) => FloatInstruction::push(*v).into(),
        PushBool(v) if *v => PushInstruction::push_bool(*v),
        PushBool(v) => BoolInstruction::push(*v).into(),
        PushExec(p) => exec_push(to_real(p)).into(),
        Print(Ty::Int) => IntInstruction::Print(pr::Print::new()).into(),
        PrintLn(Ty::Int) => IntInstruction::PrintLn(pr::PrintLn::new()).into(),
        Print(Ty::Float) => FloatInstruction::Print(pr::Print::new()).into(),
        PrintLn(Ty::Float) => FloatInstruction::PrintLn(pr::PrintLn::new()).into(),
        Print(Ty::Bool) => BoolInstruction::Print(pr::Print::new()).into(),
        PrintLn(Ty::Bool) => BoolInstruction::Println(pr::PrintLn::new()).into(),
        Print(Ty::Exec) | PrintLn(Ty::Exec) => ExecInstruction::noop().into(),
        Negate => IntInstruction::negate().into(),
        Abs => IntInstruction::abs().into(),
        Min => IntInstruction::Min.into(),
        Max => IntInstruction::Max.into(),
        Clamp => IntInstruction::clamp().into(),
        Inc => IntInstruction::Inc.into(),
        Dec => IntInstruction::Dec.into(),
        Add => IntInstruction::Add.into(),
        Sub => IntInstruction::Subtract.into(),
        Mul => IntInstruction::Multiply.into(),
        Div => IntInstruction::ProtectedDivide.into(),
        Mod => IntInstruction::Mod.into(),
        Pow => IntInstruction::Power.into(),
        Square => IntInstruction::Square.into(),
        IsZero => IntInstruction::IsZero.into(),
        IsPositive => IntInstruction::IsPositive.into(),
        IsNegative => IntInstruction::IsNegative.into(),
        IsEven => IntInstruction::IsEven.into(),
        IsOdd => IntInstruction::IsOdd.into(),
        Eq => IntInstruction::Equal.into(),
        Ne => IntInstruction::NotEqual.into(),
        Lt => IntInstruction::LessThan.into(),
        Le => IntInstruction::LessThanEqual.into(),
        Gt => IntInstruction::GreaterThan.into(),
        Ge => IntInstruction::GreaterThanEqual.into(),
        IntFromBool => IntInstruction::FromBoolean.into(),
        IntFromFloat => IntInstruction::FromFloatApprox.into(),
        FAdd => FloatInstruction::Add.into(),
        FSub => FloatInstruction::Subtract.into(),
        FMul => FloatInstruction::Multiply.into(),
        FDiv => FloatInstruction::ProtectedDivide.into(),
        FEq => FloatInstruction::Equal.into(),
        FNe => FloatInstruction::NotEqual.into(),
        FGt => FloatInstruction::GreaterThan.into(),
        FLt => FloatInstruction::LessThan.into(),
        FGe => FloatInstruction::GreaterThanOrEqual.into(),
        FLe => FloatInstruction::LessThanOrEqual.into(),
        FloatFromInt => FloatInstruction::FromIntApprox.into(),
        Not => BoolInstruction::Not.into(),
        Or => BoolInstruction::Or.into(),
        And => BoolInstruction::And.into(),
        Xor => BoolInstruction::Xor.into(),
        Implies => BoolInstruction::Implies.into(),
        BoolFromInt => BoolInstruction::FromInt.into(),
        Noop => ExecInstruction::noop().into(),
        DupBlock => ExecInstruction::dup_block().into(),
        When => ExecInstruction::when().into(),
        Unless => ExecInstruction::unless().into(),
        IfElse => ExecInstruction::if_else().into(),
        MI::PrintSpace => PushInstruction::PrintSpace(pr::PrintSpace::new()),
        MI::PrintNewline => PushInstruction::PrintNewline(pr::PrintNewline::new()),
        MI::PrintPeriod => PushInstruction::PrintPeriod(pr::PrintPeriod::new()),
        MI::PrintString(s) => PushInstruction::PrintString(pr::PrintString(s.clone())),
        Input(name) => PushInstruction::InputVar(VariableName::from(name.as_str())),
    }
}

#[must_use]
pub fn to_real(p: &MP) -> PushProgram {
    match p {
        MP::I(i) => PushProgram::Instruction(to_real_instr(i)),
        MP::Block(b) => PushProgram::Block(b.iter().map(to_real).collect()),
    }
}

#[derive(Debug)]
pub enum BuildError {
    Overflow(String),
    /// the builder panicked on a state every part of which is legal
    Panic(String),
}

/// Build the real `PushState` equal to the model state, through the public builder.
/// Pre-filled stdout is produced by performing a `PrintString` on the built state.
pub fn build_real(m: &MState) -> Result<PushState, BuildError> {
    // building is a call into the code under test like any other: marked for the supervising
    // parent (a death while building is attributed), and a panic is an observation
    match vh_core::catch(|| build_real_inner(m)) {
        Ok(r) => r,
        Err(p) => Err(BuildError::Panic(p.to_string())),
    }
}

fn build_real_inner(m: &MState) -> Result<PushState, BuildError> {
    use push::instruction::Instruction;
    let prog: Vec<PushProgram> = m.exec.iter().rev().map(to_real).collect(); // first = top
    let mut b = PushState::builder()
        .with_max_stack_size(m.caps[0])
        .with_int_max_size(m.caps[1])
        .with_float_max_size(m.caps[2])
        .with_bool_max_size(m.caps[3])
        .with_program(prog)
        .map_err(|e| BuildError::Overflow(format!("program: {e}")))?
        .with_int_values(m.int.iter().rev().copied().collect::<Vec<_>>())
        .map_err(|e| BuildError::Overflow(format!("int: {e}")))?
        .with_float_values(m.float.iter().rev().map(|f| OrderedFloat(*f)).collect::<Vec<_>>())
        .map_err(|e| BuildError::Overflow(format!("float: {e}")))?
        .with_bool_values(m.boolean.iter().rev().copied().collect::<Vec<_>>())
        .map_err(|e| BuildError::Overflow(format!("bool: {e}")))?
        .with_instruction_step_limit(m.step_limit);
    for (name, v) in &m.inputs {
        b = match v {
            InVal::I(x) => b.with_int_input(name, *x),
            InVal::F(x) => b.with_float_input(name, OrderedFloat(*x)),
            InVal::B(x) => b.with_bool_input(name, *x),
        };
    }
    let mut st = b.build();
    if !m.stdout.is_empty() {
        st = match PushInstruction::PrintString(pr::PrintString(m.stdout.clone())).perform(st) {
            Ok(s) => s,
            Err(_) => return Err(BuildError::Overflow("stdout prefill".into())),
        };
    }
    Ok(st)
}

/// Everything observable about a real state (except the input bindings, see `probe_inputs`).
#[derive(Clone, Debug, PartialEq)]
pub struct Obs {
    pub exec: Vec<PushProgram>, // bottom first
    pub int: Vec<i64>,
    pub float: Vec<u64>, // normalised bits
    pub boolean: Vec<bool>,
    pub caps: [usize; 4],
    pub stdout: String,
    pub step_limit: usize,
}

fn drain<T: Clone>(st: &PushState) -> Vec<T>
where
    PushState: HasStack<T>,
{
    let mut c: push::push_vm::stack::Stack<T> = st.stack::<T>().clone();
    let mut out = Vec::with_capacity(c.size());
    while let Ok(x) = c.pop() {
        out.push(x);
    }
    out.reverse();
    out
}

#[must_use]
pub fn observe(st: &PushState) -> Obs {
    let exec: Vec<PushProgram> = drain::<PushProgram>(st);
    let int: Vec<i64> = drain::<i64>(st);
    let float: Vec<u64> = drain::<OrderedFloat<f64>>(st)
        .into_iter()
        .map(|f| fbits(f.0))
        .collect();
    let boolean: Vec<bool> = drain::<bool>(st);
    let caps = [
        st.stack::<PushProgram>().max_stack_size(),
        st.stack::<i64>().max_stack_size(),
        st.stack::<OrderedFloat<f64>>().max_stack_size(),
        st.stack::<bool>().max_stack_size(),
    ];
    let mut c = st.clone();
    let stdout = c
        .stdout_string()
        .unwrap_or_else(|e| format!("<invalid utf8: {e}>"));
    Obs {
        exec,
        int,
        float,
        boolean,
        caps,
        stdout,
        step_limit: st.max_instruction_steps(),
    }
}

impl Obs {
    #[must_use]
    pub fn to_json(&self) -> Value {
        let cap = |c: usize| {
            if c == usize::MAX {
                json!("usize::MAX")
            } else {
                json!(c)
            }
        };
        json!({
            "exec_top_first": self.exec.iter().rev().map(|p| format!("{p:?}")).collect::<Vec<_>>(),
            "int_bottom_first": self.int,
            "float_bottom_first": self.float.iter().map(|b| format!("{:?}", f64::from_bits(*b))).collect::<Vec<_>>(),
            "bool_bottom_first": self.boolean,
            "max_sizes": {"exec": cap(self.caps[0]), "int": cap(self.caps[1]), "float": cap(self.caps[2]), "bool": cap(self.caps[3])},
            "stdout": self.stdout,
            "step_limit": self.step_limit,
        })
    }

    #[must_use]
    pub fn sizes(&self) -> [usize; 4] {
        [
            self.exec.len(),
            self.int.len(),
            self.float.len(),
            self.boolean.len(),
        ]
    }
}

/// First aspect in which a model state and an observed state differ.
#[must_use]
pub fn diff(m: &MState, o: &Obs) -> Option<&'static str> {
    if m.int != o.int {
        return Some("int-stack");
    }
    if m.float.iter().map(|f| fbits(*f)).collect::<Vec<_>>() != o.float {
        return Some("float-stack");
    }
    if m.boolean != o.boolean {
        return Some("bool-stack");
    }
    if m.exec.len() != o.exec.len() || m.exec.iter().zip(&o.exec).any(|(a, b)| to_real(a) != *b) {
        return Some("exec-stack");
    }
    if m.stdout != o.stdout {
        return Some("stdout");
    }
    if m.caps != o.caps {
        return Some("max-sizes");
    }
    if m.step_limit != o.step_limit {
        return Some("step-limit");
    }
    None
}

/// Probe the input bindings of a real state: for each expected name, perform the input
/// variable on a clone whose stacks were emptied and unbounded, and read what was pushed.
#[must_use]
pub fn probe_inputs(st: &PushState, names: &BTreeMap<String, InVal>) -> Option<String> {
    use push::instruction::Instruction;
    for (name, want) in names {
        let mut c = st.clone();
        // lifting a limit ("no limit") is itself a call into the code under test
        if let Err(p) = vh_core::catch(|| {
            c.stack_mut::<i64>().set_max_stack_size(usize::MAX);
            c.stack_mut::<OrderedFloat<f64>>().set_max_stack_size(usize::MAX);
            c.stack_mut::<bool>().set_max_stack_size(usize::MAX);
        }) {
            return Some(format!("setting a stack's maximum size to usize::MAX panicked: {p}"));
        }
        let before = observe(&c);
        let instr = PushInstruction::InputVar(VariableName::from(name.as_str()));
        let after = match vh_core::catch(|| instr.perform(c)) {
            Ok(Ok(s)) => observe(&s),
            Ok(Err(e)) => return Some(format!("input {name}: perform failed: {:?}", e.error())),
            Err(p) => return Some(format!("input {name}: {p}")),
        };
        let ok = match want {
            InVal::I(x) => {
                after.int.len() == before.int.len() + 1
                    && after.int.last() == Some(x)
                    && after.float == before.float
                    && after.boolean == before.boolean
            }
            InVal::F(x) => {
                after.float.len() == before.float.len() + 1
                    && after.float.last() == Some(&fbits(*x))
                    && after.int == before.int
                    && after.boolean == before.boolean
            }
            InVal::B(x) => {
                after.boolean.len() == before.boolean.len() + 1
                    && after.boolean.last() == Some(x)
                    && after.int == before.int
                    && after.float == before.float
            }
        };
        if !ok || after.exec != before.exec || after.stdout != before.stdout {
            return Some(format!("input {name}: expected {want:?} to be pushed"));
        }
    }
    None
}

// ------------------------------------------------------------------------------------
// generators

pub const INT_POOL: [i64; 22] = [
    i64::MIN,
    i64::MIN + 1,
    -4_294_967_296,
    -2_147_483_648,
    -7,
    -3,
    -2,
    -1,
    0,
    1,
    2,
    3,
    4,
    5,
    7,
    62,
    63,
    64,
    2_147_483_648,
    4_294_967_296,
    i64::MAX - 1,
    i64::MAX,
];

pub const FLOAT_POOL: [f64; 20] = [
    0.0,
    -0.0,
    1.0,
    -1.0,
    0.1,
    2.5,
    -2.5,
    3.0,
    f64::INFINITY,
    f64::NEG_INFINITY,
    f64::NAN,
    f64::MIN_POSITIVE / 4.0, // subnormal
    f64::MAX,
    -f64::MAX,
    9_223_372_036_854_775_808.0,
    -9_223_372_036_854_775_808.0,
    9_223_372_036_854_774_784.0,
    1e300,
    0.5,
    -7.75,
];

pub fn gen_int(g: &mut Xo) -> i64 {
    match g.below(10) {
        0..=3 => *g.pick(&INT_POOL),
        4..=7 => g.range(-6, 6),
        8 => g.range(-1000, 1000),
        _ => g.next() as i64,
    }
}

pub fn gen_float(g: &mut Xo) -> f64 {
    match g.below(10) {
        0..=4 => *g.pick(&FLOAT_POOL),
        5..=7 => (g.range(-8, 8) as f64) / 2.0,
        8 => g.f64() * 2000.0 - 1000.0,
        _ => f64::from_bits(g.next()),
    }
}

pub const INPUT_NAMES: [&str; 5] = ["x", "y", "flag", "ratio", "n"];

/// All instruction shapes (literals / nested programs filled by the caller's generator).
pub fn gen_instr(g: &mut Xo, inputs: &BTreeMap<String, InVal>, depth: usize) -> MI {
    use MI::*;
    let t_all = *g.pick(&Ty::ALL);
    let t_data = *g.pick(&Ty::DATA);
    match g.below(100) {
        0..=3 => Pop(t_all),
        4..=8 => Dup(t_all),
        9..=12 => Swap(t_all),
        13..=15 => IsEmpty(t_all),
        16..=18 => StackDepth(t_all),
        19 => Flush(t_all),
        20..=29 => PushInt(gen_int(g)),
        30..=35 => PushFloat(gen_float(g)),
        36..=40 => PushBool(g.chance(1, 2)),
        41..=42 => PushExec(Box::new(gen_mp(g, inputs, depth.saturating_sub(1), &mut 6))),
        43..=44 => Print(t_data),
        45 => PrintLn(t_data),
        46..=66 => g
            .pick(&[
                Negate, Abs, Min, Max, Clamp, Inc, Dec, Add, Sub, Mul, Div, Mod, Pow, Square,
                IsZero, IsPositive, IsNegative, IsEven, IsOdd, Eq, Ne, Lt, Le, Gt, Ge,
                IntFromBool, IntFromFloat,
            ])
            .clone(),
        67..=76 => g
            .pick(&[FAdd, FSub, FMul, FDiv, FEq, FNe, FGt, FLt, FGe, FLe, FloatFromInt])
            .clone(),
        77..=83 => g.pick(&[Not, Or, And, Xor, Implies, BoolFromInt]).clone(),
        84 => Noop,
        85..=87 => DupBlock,
        88..=90 => When,
        91..=92 => Unless,
        93..=95 => IfElse,
        96 => g
            .pick(&[
                PrintSpace,
                PrintNewline,
                PrintPeriod,
                PrintString("ab c".into()),
                PrintString(String::new()),
                PrintString("é\n".into()),
            ])
            .clone(),
        _ => {
            if inputs.is_empty() {
                PushInt(gen_int(g))
            } else {
                let names: Vec<&String> = inputs.keys().collect();
                Input((*g.pick(&names)).clone())
            }
        }
    }
}

pub fn gen_mp(g: &mut Xo, inputs: &BTreeMap<String, InVal>, depth: usize, budget: &mut usize) -> MP {
    if depth > 0 && *budget > 2 && g.chance(1, 4) {
        let n = g.usize_below(5);
        let mut v = Vec::new();
        for _ in 0..n {
            if *budget == 0 {
                break;
            }
            *budget -= 1;
            v.push(gen_mp(g, inputs, depth - 1, budget));
        }
        MP::Block(v)
    } else {
        *budget = budget.saturating_sub(1);
        MP::I(gen_instr(g, inputs, depth))
    }
}

pub fn gen_program(g: &mut Xo, inputs: &BTreeMap<String, InVal>, max_nodes: usize, depth: usize) -> Vec<MP> {
    let mut budget = 1 + g.usize_below(max_nodes);
    let mut v = Vec::new();
    while budget > 0 {
        v.push(gen_mp(g, inputs, depth, &mut budget));
    }
    v
}

/// Names that only differ where a careless representation stops looking: long names that
/// agree on their first 15 / 16 / 23 / 32 / 64 bytes, one name a prefix of another, case and
/// whitespace variants, composed vs decomposed Unicode, the empty name.
pub const HOSTILE_NAMES: [&str; 22] = [
    // neighbours (2k, 2k+1) are the pair most easily confused with each other
    "previous_generation_best",
    "previous_generation_mean",
    "previous_generation_bes",
    "previous_generation_be",
    "sixteen_bytes_16A",
    "sixteen_bytes_16B",
    "fifteen_bytes_1a",
    "fifteen_bytes_1b",
    "input_000000000000000000000000000000000000000000000000000000000000000001",
    "input_000000000000000000000000000000000000000000000000000000000000000002",
    "thirty_two_bytes_of_common_prefix_then_x",
    "thirty_two_bytes_of_common_prefix_then_y",
    "X",
    "x ",
    "\u{e4}",
    "a\u{308}",
    "",
    " ",
    "rate",
    "Rate",
    "FLAG",
    "flag",
];

pub fn gen_inputs(g: &mut Xo) -> BTreeMap<String, InVal> {
    let mut m = BTreeMap::new();
    let names: Vec<&str> = if g.chance(1, 3) {
        // up to five hostile names, in pairs that collide under truncation
        let mut v: Vec<&str> = Vec::new();
        let k = 1 + g.usize_below(5);
        while v.len() < k {
            let c = *g.pick(&HOSTILE_NAMES);
            if !v.contains(&c) {
                v.push(c);
            }
            // its neighbour in the table is the one it is most easily confused with
            if v.len() < k && g.chance(2, 3) {
                let i = HOSTILE_NAMES.iter().position(|x| *x == c).unwrap_or(0);
                let nb = HOSTILE_NAMES[i ^ 1];
                if !v.contains(&nb) {
                    v.push(nb);
                }
            }
        }
        v
    } else {
        let n = g.usize_below(INPUT_NAMES.len() + 1);
        INPUT_NAMES.iter().take(n).copied().collect()
    };
    for name in names.iter() {
        let v = match g.below(3) {
            0 => InVal::I(gen_int(g)),
            1 => InVal::F(gen_float(g)),
            _ => InVal::B(g.chance(1, 2)),
        };
        m.insert((*name).to_string(), v);
    }
    m
}

pub fn gen_cap(g: &mut Xo) -> usize {
    match g.below(12) {
        0 => 0,
        1 => 1,
        2 => 2,
        3 => 3,
        4 => g.usize_below(9),
        5 | 6 => 16,
        7 | 8 => 100,
        9 => 1000,
        10 => usize::MAX,
        _ => 4 + g.usize_below(8),
    }
}

/// Random initial data stacks that respect the capacities.
pub fn gen_stacks(g: &mut Xo, caps: &[usize; 4]) -> (Vec<i64>, Vec<f64>, Vec<bool>) {
    let fill = |g: &mut Xo, cap: usize| -> usize {
        let want = match g.below(6) {
            0 => 0,
            1 => 1,
            2 => 2,
            3 => 3,
            4 => cap.min(64), // full (bounded)
            _ => g.usize_below(6),
        };
        want.min(cap).min(64)
    };
    let ni = fill(g, caps[1]);
    let nf = fill(g, caps[2]);
    let nb = fill(g, caps[3]);
    (
        (0..ni).map(|_| gen_int(g)).collect(),
        (0..nf).map(|_| gen_float(g)).collect(),
        (0..nb).map(|_| g.chance(1, 2)).collect(),
    )
}

// ------------------------------------------------------------------------------------
// Plushy genes and the iterative reference parser (shared by C01 and C05)

#[derive(Clone, Debug, PartialEq)]
pub enum Gene {
    Close,
    I(MI),
}

impl Gene {
    #[must_use]
    pub fn render(&self) -> String {
        match self {
            Gene::Close => "Close".into(),
            Gene::I(i) => i.render(),
        }
    }
}

/// Reference translation of a gene sequence into a program: explicit stack of open
/// blocks, no recursion. Each frame remembers how many further blocks its opening
/// instruction still owes after this one.
#[must_use]
pub fn parse_genes(genes: &[Gene]) -> Vec<MP> {
    struct Frame {
        items: Vec<MP>,
        owed_after: usize,
    }
    let mut stack = vec![Frame {
        items: Vec::new(),
        owed_after: 0,
    }];
    let close_top = |stack: &mut Vec<Frame>| {
        let f = stack.pop().expect("non-empty");
        let parent = stack.last_mut().expect("parent");
        parent.items.push(MP::Block(f.items));
        if f.owed_after > 0 {
            stack.push(Frame {
                items: Vec::new(),
                owed_after: f.owed_after - 1,
            });
        }
    };
    for g in genes {
        match g {
            Gene::Close => {
                if stack.len() > 1 {
                    close_top(&mut stack);
                }
            }
            Gene::I(i) => {
                let k = i.opens();
                stack.last_mut().expect("frame").items.push(MP::I(i.clone()));
                if k > 0 {
                    stack.push(Frame {
                        items: Vec::new(),
                        owed_after: k - 1,
                    });
                }
            }
        }
    }
    while stack.len() > 1 {
        close_top(&mut stack);
    }
    stack.pop().expect("top").items
}

#[must_use]
pub fn to_real_gene(g: &Gene) -> push::genome::plushy::PushGene {
    match g {
        Gene::Close => push::genome::plushy::PushGene::Close,
        Gene::I(i) => push::genome::plushy::PushGene::Instruction(to_real_instr(i)),
    }
}

pub fn gen_genes(g: &mut Xo, inputs: &BTreeMap<String, InVal>, max_len: usize) -> Vec<Gene> {
    let n = g.usize_below(max_len + 1);
    (0..n)
        .map(|_| {
            if g.chance(1, 6) {
                Gene::Close
            } else {
                Gene::I(gen_instr(g, inputs, 1))
            }
        })
        .collect()
}

// ------------------------------------------------------------------------------------
// reverse translation (syntax only): real program element -> model AST

#[must_use]
pub fn from_real_instr(i: &PushInstruction) -> MI {
    use push::instruction::{
        BoolInstruction as B, ExecInstruction as E, FloatInstruction as F, IntInstruction as I,
    };
    match i {
        PushInstruction::InputVar(v) => MI::Input(v.to_string()),
        PushInstruction::PrintSpace(_) => MI::PrintSpace,
        PushInstruction::PrintNewline(_) => MI::PrintNewline,
        PushInstruction::PrintPeriod(_) => MI::PrintPeriod,
        PushInstruction::PrintString(s) => MI::PrintString(s.0.clone()),
        PushInstruction::Exec(e) => match e {
            E::Pop(_) => MI::Pop(Ty::Exec),
            E::Push(b) => MI::PushExec(Box::new(from_real(&b.0))),
            E::Dup(_) => MI::Dup(Ty::Exec),
            E::Swap(_) => MI::Swap(Ty::Exec),
            E::IsEmpty(_) => MI::IsEmpty(Ty::Exec),
            E::StackDepth(_) => MI::StackDepth(Ty::Exec),
            E::Flush(_) => MI::Flush(Ty::Exec),
            E::Noop(_) => MI::Noop,
            E::DupBlock(_) => MI::DupBlock,
            E::When(_) => MI::When,
            E::Unless(_) => MI::Unless,
            E::IfElse(_) => MI::IfElse,
        },
        PushInstruction::BoolInstruction(b) => match b {
            B::Pop(_) => MI::Pop(Ty::Bool),
            B::Push(v) => MI::PushBool(v.0),
            B::Dup(_) => MI::Dup(Ty::Bool),
            B::Swap(_) => MI::Swap(Ty::Bool),
            B::IsEmpty(_) => MI::IsEmpty(Ty::Bool),
            B::StackDepth(_) => MI::StackDepth(Ty::Bool),
            B::Flush(_) => MI::Flush(Ty::Bool),
            B::Print(_) => MI::Print(Ty::Bool),
            B::Println(_) => MI::PrintLn(Ty::Bool),
            B::Not => MI::Not,
            B::Or => MI::Or,
            B::And => MI::And,
            B::Xor => MI::Xor,
            B::Implies => MI::Implies,
            B::FromInt => MI::BoolFromInt,
            _ => MI::Noop,
        },
        PushInstruction::IntInstruction(x) => match x {
            I::Pop(_) => MI::Pop(Ty::Int),
            I::Push(v) => MI::PushInt(v.0),
            I::Dup(_) => MI::Dup(Ty::Int),
            I::Swap(_) => MI::Swap(Ty::Int),
            I::IsEmpty(_) => MI::IsEmpty(Ty::Int),
            I::StackDepth(_) => MI::StackDepth(Ty::Int),
            I::Flush(_) => MI::Flush(Ty::Int),
            I::Print(_) => MI::Print(Ty::Int),
            I::PrintLn(_) => MI::PrintLn(Ty::Int),
            I::Negate(_) => MI::Negate,
            I::Abs(_) => MI::Abs,
            I::Min => MI::Min,
            I::Max => MI::Max,
            I::Clamp(_) => MI::Clamp,
            I::Inc => MI::Inc,
            I::Dec => MI::Dec,
            I::Add => MI::Add,
            I::Subtract => MI::Sub,
            I::Multiply => MI::Mul,
            I::ProtectedDivide => MI::Div,
            I::Mod => MI::Mod,
            I::Power => MI::Pow,
            I::Square => MI::Square,
            I::IsZero => MI::IsZero,
            I::IsPositive => MI::IsPositive,
            I::IsNegative => MI::IsNegative,
            I::IsEven => MI::IsEven,
            I::IsOdd => MI::IsOdd,
            I::Equal => MI::Eq,
            I::NotEqual => MI::Ne,
            I::LessThan => MI::Lt,
            I::LessThanEqual => MI::Le,
            I::GreaterThan => MI::Gt,
            I::GreaterThanEqual => MI::Ge,
            I::FromBoolean => MI::IntFromBool,
            I::FromFloatApprox => MI::IntFromFloat,
            _ => MI::Noop,
        },
        PushInstruction::FloatInstruction(x) => match x {
            F::Pop(_) => MI::Pop(Ty::Float),
            F::Push(v) => MI::PushFloat(v.0 .0),
            F::Dup(_) => MI::Dup(Ty::Float),
            F::Swap(_) => MI::Swap(Ty::Float),
            F::IsEmpty(_) => MI::IsEmpty(Ty::Float),
            F::StackDepth(_) => MI::StackDepth(Ty::Float),
            F::Flush(_) => MI::Flush(Ty::Float),
            F::Print(_) => MI::Print(Ty::Float),
            F::PrintLn(_) => MI::PrintLn(Ty::Float),
            F::Add => MI::FAdd,
            F::Subtract => MI::FSub,
            F::Multiply => MI::FMul,
            F::ProtectedDivide => MI::FDiv,
            F::Equal => MI::FEq,
            F::NotEqual => MI::FNe,
            F::GreaterThan => MI::FGt,
            F::LessThan => MI::FLt,
            F::GreaterThanOrEqual => MI::FGe,
            F::LessThanOrEqual => MI::FLe,
            F::FromIntApprox => MI::FloatFromInt,
            _ => MI::Noop,
        },
        _ => MI::Noop,
    }
}

#[must_use]
pub fn from_real(p: &PushProgram) -> MP {
    match p {
        PushProgram::Instruction(i) => MP::I(from_real_instr(i)),
        PushProgram::Block(b) => MP::Block(b.iter().map(from_real).collect()),
    }
}

/// One instance of every instruction shape (literals with placeholder payloads).
#[must_use]
pub fn all_shapes() -> Vec<MI> {
    use MI::*;
    let mut v = Vec::new();
    for t in Ty::ALL {
        v.extend([Pop(t), Dup(t), Swap(t), IsEmpty(t), StackDepth(t), Flush(t)]);
    }
    for t in Ty::DATA {
        v.extend([Print(t), PrintLn(t)]);
    }
    v.extend([
        PushInt(0),
        PushFloat(0.0),
        PushBool(true),
        PushExec(Box::new(MP::Block(vec![]))),
        Negate, Abs, Min, Max, Clamp, Inc, Dec, Add, Sub, Mul, Div, Mod, Pow, Square, IsZero,
        IsPositive, IsNegative, IsEven, IsOdd, Eq, Ne, Lt, Le, Gt, Ge, IntFromBool, IntFromFloat,
        FAdd, FSub, FMul, FDiv, FEq, FNe, FGt, FLt, FGe, FLe, FloatFromInt, Not, Or, And, Xor,
        Implies, BoolFromInt, Noop, DupBlock, When, Unless, IfElse, PrintSpace, PrintNewline,
        PrintPeriod, PrintString("x y".into()), Input("x".into()),
    ]);
    v
}
