//! C02 — a failed instruction leaves the machine state untouched and is skipped.
//!
//! No model: equality and a metamorphic relation on the real code.
//! (a) snapshot equality: for every `perform` that returns `Err(e)` — recoverable or
//!     fatal — `*e.state()`, the state coming out of `try_recover` and `into_state` all
//!     equal a clone of the state passed in (`PushState: PartialEq` over every field);
//! (b) skip equivalence: when `perform(I, S)` is a recoverable error,
//!     `run_to_completion(S with I on top of exec)` equals `run_to_completion(S with Noop on
//!     top of exec)` for step limits 1, 2, 3, ... (same limit on both sides, so the whole
//!     `PushState`, including the limit and the inputs map, is comparable with `==`).
//! Workload = fault enumeration: every instruction × every (capacity, fill) combination
//! over the stacks it touches, plus every dynamic failure met while stepping random
//! programs through the real `State::perform`.

use std::collections::BTreeMap;

use push::{
    error::{into_state::IntoState, try_recover::TryRecover, Error, MapInstructionError},
    instruction::{instruction_error::PushInstructionError, Instruction},
    push_vm::{program::PushProgram, push_state::PushState, HasStack, State},
};
use vh_core::{catch, fnv_str, json, mix, shard::run_shards, Args, Report, Xo};

use crate::{
    c01::{all_shapes, gen_state, matrix_cases},
    pushvm::{
        build_real, gen_genes, gen_inputs, gen_program, observe, parse_genes, render_prog,
        to_real, MState, Ty, MI, MP,
    },
    realrun::{real_run, RunOut},
};

fn fault_kind(err_text: &str, recoverable: bool) -> &'static str {
    if err_text.contains("Overflow") && err_text.contains("stack_type") {
        if recoverable {
            "stack-overflow-recoverable"
        } else {
            "stack-overflow-fatal"
        }
    } else if err_text.contains("Underflow") {
        if recoverable {
            "underflow-recoverable"
        } else {
            "underflow-fatal"
        }
    } else if err_text.contains("Int(") {
        if recoverable {
            "arith-recoverable"
        } else {
            "arith-fatal"
        }
    } else if recoverable {
        "other-recoverable"
    } else {
        "other-fatal"
    }
}

/// (a) snapshot equality around one `perform`. Returns Some(recoverable?) when it failed.
fn snapshot_case(
    name: &str,
    rendered: &str,
    p: &PushProgram,
    st: PushState,
    origin: &str,
    rep: &mut Report,
) -> Option<(bool, PushState)> {
    let snapshot = st.clone();
    rep.eval();
    let r = catch(|| p.perform(st));
    // an input variable can also be resolved through PushState::with_input directly: same
    // outcome, same state (on success and in the error) as performing the instruction
    if let PushProgram::Instruction(push::instruction::PushInstruction::InputVar(var)) = p {
        let direct = catch(|| snapshot.clone().with_input(var));
        let same = match (&r, &direct) {
            (Ok(Ok(a)), Ok(Ok(b))) => a == b,
            (Ok(Err(a)), Ok(Err(b))) => a.is_recoverable() == b.is_recoverable() && a.state() == b.state() && *b.state() == snapshot,
            (Err(_), Err(_)) => true,
            _ => false,
        };
        rep.count("with_input:direct-call");
        if !same {
            rep.violation(format!("C02/{name}/with_input-differs-from-perform"), || {
                json!({"origin": origin, "instruction": rendered, "state_before": observe(&snapshot).to_json(),
                       "perform": format!("{:?}", r.as_ref().map(|x| x.as_ref().map(|_| "Ok").map_err(|e| format!("{:?}", e.error())))),
                       "with_input": format!("{:?}", direct.as_ref().map(|x| x.as_ref().map(|_| "Ok").map_err(|e| format!("{:?}", e.error()))))})
            });
        }
    }
    let r = match r {
        Ok(r) => r,
        Err(pn) => {
            rep.violation(format!("C02/{name}/panic"), || {
                json!({"origin": origin, "instruction": rendered, "state_before": observe(&snapshot).to_json(), "panic": pn.to_string()})
            });
            return None;
        }
    };
    match r {
        Ok(after) => {
            rep.count(&format!("{name}:ok"));
            let _ = after;
            None
        }
        Err(e) => {
            let recoverable = e.is_recoverable();
            let text = format!("{:?}", e.error());
            let kind = fault_kind(&text, recoverable);
            rep.count(&format!("{name}:{kind}"));
            rep.distinct(mix(fnv_str(name), mix(fnv_str(kind), fnv_str(&format!("{:?}", observe(&snapshot).sizes())))));
            let mut bad: Option<(&'static str, PushState)> = None;
            if *e.state() != snapshot {
                bad = Some(("error-state", e.state().clone()));
            }
            // the same state must come out of every way of getting it back
            let e2: Error<PushState, PushInstructionError> = match Err::<PushState, _>(e).map_err_into() {
                Err(e2) => e2,
                Ok(_) => unreachable!(),
            };
            if bad.is_none() && *e2.state() != snapshot {
                bad = Some(("map_err_into-state", e2.state().clone()));
            }
            if bad.is_none() && e2.is_recoverable() != recoverable {
                bad = Some(("map_err_into-severity", e2.state().clone()));
            }
            if bad.is_none() && e2.is_fatal() == recoverable {
                bad = Some(("is_fatal-disagrees-with-is_recoverable", e2.state().clone()));
            }
            // map_inner_err converts the cause only: same state, same severity
            let e2 = e2.map_inner_err(|cause| (cause, ()));
            if bad.is_none() && (*e2.state() != snapshot || e2.is_recoverable() != recoverable) {
                bad = Some(("map_inner_err-state-or-severity", e2.state().clone()));
            }
            let e2 = e2.map_inner_err(|(cause, ())| cause);
            // a bare recoverable error recovers to the state it carries
            if recoverable && bad.is_none() {
                let bare: push::error::stateful::RecoverableError<PushState, u8> = push::error::stateful::StatefulError::new(snapshot.clone(), 7u8);
                match Err::<PushState, _>(bare).try_recover() {
                    Ok(s) if s == snapshot => {}
                    Ok(s) => bad = Some(("RecoverableError-try_recover-state", s)),
                    Err(never) => match never {},
                }
                let boxed: push::error::stateful::FatalError<PushState, u8> = push::error::stateful::StatefulError::new_boxed(Box::new(snapshot.clone()), 9u8);
                let s = boxed.into_state();
                if bad.is_none() && s != snapshot {
                    bad = Some(("FatalError-into_state", s));
                }
            }
            let back: PushState = match Err::<PushState, _>(e2).try_recover() {
                Ok(s) => {
                    if !recoverable && bad.is_none() {
                        bad = Some(("fatal-recovered", s.clone()));
                    }
                    s
                }
                Err(fatal) => {
                    let s = fatal.into_state();
                    if recoverable && bad.is_none() {
                        bad = Some(("recoverable-not-recovered", s.clone()));
                    }
                    s
                }
            };
            if bad.is_none() && back != snapshot {
                bad = Some(("recovered-state", back.clone()));
            }
            if let Some((aspect, got)) = bad {
                rep.violation(format!("C02/{name}/{aspect}"), || {
                    json!({"origin": origin, "instruction": rendered, "error": text,
                           "state_before": observe(&snapshot).to_json(), "state_handed_back": observe(&got).to_json()})
                });
            } else if rep.wants_sample() && fnv_str(rendered) % 31 == 0 {
                rep.sample(|| json!({"kind": "failed instruction, state handed back == state before", "origin": origin,
                    "instruction": rendered, "error": text, "severity": if recoverable {"recoverable"} else {"fatal"},
                    "state_before": observe(&snapshot).to_json()}));
            }
            Some((recoverable, snapshot))
        }
    }
}

fn run_eq(a: &RunOut, b: &RunOut) -> bool {
    match (a, b) {
        (RunOut::Ok(x), RunOut::Ok(y)) => x == y,
        (RunOut::Fatal(x, ex), RunOut::Fatal(y, ey)) => x == y && ex == ey,
        _ => false,
    }
}

fn describe(r: &RunOut) -> vh_core::Value {
    match r {
        RunOut::Ok(s) => json!({"outcome": "Ok", "state": observe(s).to_json()}),
        RunOut::Fatal(s, e) => json!({"outcome": "Fatal", "error": e, "carried_state": observe(s).to_json()}),
        RunOut::Panic(p) => json!({"outcome": "PANIC", "panic": p}),
    }
}

/// (b) skip equivalence on a model state `s` (exec = continuation) for instruction `i`
/// that is known to fail recoverably on it.
fn skip_equivalence(i: &MI, s: &MState, limits: &[usize], origin: &str, rep: &mut Report) {
    if s.exec.len() >= s.cap(Ty::Exec) {
        return; // no room to place the instruction itself
    }
    for &l in limits {
        let mut with_i = s.clone();
        with_i.exec.push(MP::I(i.clone()));
        with_i.step_limit = l;
        let mut with_noop = s.clone();
        with_noop.exec.push(MP::I(MI::Noop));
        with_noop.step_limit = l;
        let (Ok(a0), Ok(b0)) = (build_real(&with_i), build_real(&with_noop)) else {
            rep.inconclusive("skip-equivalence: unbuildable state");
            return;
        };
        let a = real_run(a0);
        let b = real_run(b0);
        rep.eval();
        rep.count("skip-equivalence:compared");
        if !run_eq(&a, &b) {
            rep.violation(format!("C02/{}/skip-equivalence", i.name()), || {
                json!({"origin": origin, "instruction": i.render(), "state_under_the_instruction": s.to_json(), "step_limit": l,
                       "run_with_failing_instruction": describe(&a), "run_with_noop_instead": describe(&b)})
            });
            return;
        }
    }
}

/// States in which integer arithmetic faults (overflow, negative exponent) strike.
fn arith_fault_cases(shape: &MI) -> Vec<(MI, MState)> {
    let n = shape.io().0.iter().find(|(t, _)| *t == Ty::Int).map_or(0, |(_, n)| *n);
    let is_arith = matches!(
        shape,
        MI::Inc | MI::Dec | MI::Add | MI::Sub | MI::Mul | MI::Div | MI::Mod | MI::Pow | MI::Square
    );
    if !is_arith || n == 0 {
        return Vec::new();
    }
    let pool = [i64::MAX, i64::MIN, i64::MAX - 1, i64::MIN + 1, -1, 0, 1, 2, 3, 1 << 32, -(1 << 32), 64, -7];
    let mut out = Vec::new();
    let mk = |ints: Vec<i64>| MState {
        exec: vec![MP::I(MI::PushInt(7)), MP::I(MI::Print(Ty::Int))],
        int: ints,
        float: vec![0.5],
        boolean: vec![true],
        caps: [8, 8, 8, 8],
        stdout: "pre".into(),
        step_limit: 50,
        inputs: BTreeMap::new(),
    };
    for a in pool {
        if n == 1 {
            out.push((shape.clone(), mk(vec![5, a])));
        } else {
            for b in pool {
                out.push((shape.clone(), mk(vec![5, b, a])));
            }
        }
    }
    out
}

fn matrix_shard(shape: &MI, seed: u64, draws: usize, rep: &mut Report) {
    let mut g = Xo::derive(seed, "C02-cont", fnv_str(&shape.name()));
    let mut cases = matrix_cases(shape, seed, draws, "C02-matrix");
    cases.extend(arith_fault_cases(shape));
    for (i, s) in cases {
        let Ok(real) = build_real(&s) else {
            rep.inconclusive("matrix: unbuildable state");
            continue;
        };
        let p = to_real(&MP::I(i.clone()));
        if let Some((recoverable, _)) = snapshot_case(&i.name(), &i.render(), &p, real, "fault-matrix", rep) {
            if recoverable {
                // give the state a continuation so that "carries on with the next
                // instruction" is visible
                let mut s2 = s.clone();
                let room = s2.cap(Ty::Exec).saturating_sub(s2.exec.len() + 1);
                let extra = gen_program(&mut g, &s2.inputs, 6, 2);
                // continuation goes *under* the operands the instruction looks at
                let mut under: Vec<MP> = extra.into_iter().take(room).collect();
                under.extend(s2.exec.drain(..));
                s2.exec = under;
                // the instruction must still fail recoverably with the longer exec stack
                let Ok(r2) = build_real(&s2) else { continue };
                let again = catch(|| p.perform(r2));
                if matches!(again, Ok(Err(ref e)) if e.is_recoverable()) {
                    skip_equivalence(&i, &s2, &[1, 2, 3, 5, 8, 40], "fault-matrix", rep);
                }
            }
        }
    }
}

/// Step a random program through the real `State::perform`, applying (a) at every
/// dynamic failure and (b) at a sample of them.
fn stepwise_program(m0: &MState, origin: &str, g: &mut Xo, rep: &mut Report) {
    let Ok(mut st) = build_real(m0) else {
        rep.inconclusive("program: unbuildable state");
        return;
    };
    rep.distinct(fnv_str(&format!("{}|{:?}", render_prog(&m0.exec), m0.caps)));
    let mut steps = 0usize;
    while steps < m0.step_limit.min(400) {
        let Ok(p) = st.stack_mut::<PushProgram>().pop() else { break };
        let name = match &p {
            PushProgram::Instruction(push::instruction::PushInstruction::InputVar(_)) => "InputVar".to_string(),
            PushProgram::Instruction(i) => format!("{i}")
                .split(['(', ' '])
                .next()
                .unwrap_or("?")
                .replace('-', "."),
            PushProgram::Block(_) => "Block".to_string(),
        };
        let rendered = format!("{p:?}");
        let snapshot = st.clone();
        // `State::perform` is the interpreter's own entry point for one program element
        rep.eval();
        let r = catch(|| st.perform(&p));
        match r {
            Err(pn) => {
                rep.violation(format!("C02/{name}/panic"), || {
                    json!({"origin": origin, "instruction": rendered, "state_before": observe(&snapshot).to_json(), "panic": pn.to_string()})
                });
                return;
            }
            Ok(Ok(next)) => {
                rep.count(&format!("dynamic:{name}:ok"));
                st = next;
            }
            Ok(Err(e)) => {
                let recoverable = e.is_recoverable();
                let text = format!("{:?}", e.error());
                rep.count(&format!("dynamic:{name}:{}", fault_kind(&text, recoverable)));
                if *e.state() != snapshot {
                    rep.violation(format!("C02/{name}/error-state"), || {
                        json!({"origin": origin, "instruction": rendered, "error": text, "at_step": steps,
                               "state_before": observe(&snapshot).to_json(), "state_handed_back": observe(e.state()).to_json()})
                    });
                }
                if !recoverable {
                    return;
                }
                st = e.into_state();
                let _ = g;
            }
        }
        steps += 1;
    }
}

pub fn run(args: &Args) -> i32 {
    let shapes = all_shapes();
    let draws = args.tier.pick(60, 600);
    let mut rep = run_shards(shapes.len(), args.threads, 64 << 20, |i| {
        let mut rep = Report::new();
        matrix_shard(&shapes[i], args.seed, draws, &mut rep);
        rep
    });
    let shards = 64;
    let per = args.tier.pick(12_000, 200_000);
    let progs = run_shards(shards, args.threads, 256 << 20, |s| {
        let mut rep = Report::new();
        for n in 0..per {
            let mut g = Xo::derive(args.seed, "C02-programs", (s * 1_000_003 + n) as u64);
            let inputs = gen_inputs(&mut g);
            let program = if g.chance(1, 3) {
                parse_genes(&gen_genes(&mut g, &inputs, 40))
            } else {
                gen_program(&mut g, &inputs, 40, 4)
            };
            let m0 = gen_state(&mut g, program, inputs);
            stepwise_program(&m0, "program", &mut g, &mut rep);
        }
        rep
    });
    rep.merge(progs);

    // coverage requirement: every (instruction, fault kind) pair the io-table says is
    // reachable must have fired at least once
    let mut table: BTreeMap<String, BTreeMap<String, u64>> = BTreeMap::new();
    for (k, v) in rep.counters() {
        if k.starts_with("dynamic:") || k.starts_with("skip-equivalence") {
            continue;
        }
        if let Some((name, kind)) = k.rsplit_once(':') {
            table.entry(name.to_string()).or_default().insert(kind.to_string(), *v);
        }
    }
    let arith: [&str; 9] = [
        "Int.Inc", "Int.Dec", "Int.Add", "Int.Subtract", "Int.Multiply", "Int.ProtectedDivide",
        "Int.Mod", "Int.Power", "Int.Square",
    ];
    let mut unreached = Vec::new();
    for s in &shapes {
        let (ops, dest) = s.io();
        let row = table.get(&s.name()).cloned().unwrap_or_default();
        let has = |k: &str| row.keys().any(|x| x.starts_with(k));
        if !ops.is_empty() && !matches!(s, MI::When | MI::Unless | MI::IfElse) && !has("underflow") {
            unreached.push(format!("{}:underflow", s.name()));
        }
        if matches!(s, MI::When | MI::Unless | MI::IfElse) && !has("underflow") {
            unreached.push(format!("{}:underflow(both missing)", s.name()));
        }
        if dest.is_some() && !has("stack-overflow") {
            unreached.push(format!("{}:overflow", s.name()));
        }
        if matches!(s, MI::Input(_)) && !has("stack-overflow") {
            unreached.push(format!("{}:overflow", s.name()));
        }
        if arith.contains(&s.name().as_str()) && !has("arith") && s.name() != "Int.Mod" && s.name() != "Int.ProtectedDivide" {
            unreached.push(format!("{}:arith", s.name()));
        }
    }
    if !unreached.is_empty() {
        rep.inconclusive(format!("fault points never reached: {unreached:?}"));
    }
    rep.table("fault_matrix", json!(table));
    rep.finish(
        args,
        "fault_enumeration",
        "fault enumeration: every instruction shape x every (capacity in {0,1,2,3,4,8}, fill in {0,1,2,3,cap-1,cap}) combination over the stacks it reads/writes x random fillings, with pre-filled stdout and bound inputs; plus every failure met while stepping random programs through State::perform. distinct_nontrivial counts distinct (instruction, fault kind, stack sizes) failures and distinct programs",
        false,
        &[
            "PushState's derived PartialEq covers every field (stacks incl. capacities, stdout cursor, inputs, step limit)",
            "whether an instruction is right to fail is C01's business; severity of the failure is C03's",
            "skip equivalence compares against the same state with Noop in place of the failing instruction, under the same step limit",
        ],
    )
}
