//! C03 — program evaluation is total and bounded; only stack overflow aborts it.
//!
//! Oracles (all independent of exact values, so C01 defects do not leak into C03):
//!  * loop-vs-mirror differential: `run_to_completion(S, L)` must equal what the harness
//!    obtains by popping exec and calling the real `State::perform` at most L times — this
//!    decides "at most the configured number of steps" and "stops when exec is empty";
//!  * invariants at every mirrored step and on every returned / carried state: no stack
//!    above its maximum; an error is fatal only if it is an overflow *and* a destination
//!    stack of the failing instruction was at capacity (or the block did not fit);
//!    missing operands and arithmetic faults come back recoverable;
//!  * metered programs (N x PrintPeriod) whose output length counts the steps directly;
//!  * hang / abort monitor: looping, exponentially growing and deeply nested programs in
//!    subprocess shards with an address-space limit and a CPU-time watchdog calibrated to
//!    the logical step bound; a wall-clock watchdog firing first is only inconclusive.

use std::{
    collections::BTreeMap,
    io::Write,
    time::Duration,
};

use ordered_float::OrderedFloat;
use push::{
    genome::plushy::{Plushy, PushGene},
    instruction::ExecInstruction,
    push_vm::{program::PushProgram, push_state::PushState, HasStack, State},
};
use vh_core::{
    catch, fnv_str, json,
    shard::{limit_self, run_child, run_shards, ChildOutcome},
    Args, Report, Value, Xo,
};

use crate::{
    c01::gen_state,
    pushvm::{
        build_real, from_real, gen_genes, gen_inputs, gen_int, gen_program, observe,
        parse_genes, render_prog, to_real, InVal, MState, Obs, Ty, MI, MP,
    },
    realrun::{real_run, RunOut},
};

/// Sizes are judged against the *configured* maxima (what the state was built with), not
/// against whatever the observed state now claims its maxima are: an instruction that
/// silently lifts a limit must not be able to hide the overflow it enables.
fn over_capacity(o: &Obs, configured: &[usize; 4]) -> Option<String> {
    let names = ["exec", "int", "float", "bool"];
    let sizes = o.sizes();
    for k in 0..4 {
        if sizes[k] > configured[k] {
            return Some(format!("{} stack holds {} > configured max {}", names[k], sizes[k], configured[k]));
        }
        if o.caps[k] != configured[k] {
            return Some(format!("the maximum size of the {} stack changed from {} to {} during evaluation", names[k], configured[k], o.caps[k]));
        }
    }
    None
}

/// Is a fatal overflow at `p` justified by a full destination in `before`?
fn fatal_justified(p: &MP, before: &Obs) -> bool {
    let sizes = before.sizes();
    let full = |t: Ty| sizes[t.idx()] >= before.caps[t.idx()];
    match p {
        MP::Block(b) => sizes[0].checked_add(b.len()).is_none_or(|t| t > before.caps[0]),
        MP::I(MI::Input(_)) => full(Ty::Int) || full(Ty::Float) || full(Ty::Bool),
        MP::I(i) => i.io().1.is_some_and(full),
    }
}

struct Mirror {
    /// states[k] after k steps, for k <= keep
    states: Vec<PushState>,
    natural: usize,
    end: MirrorEnd,
}

enum MirrorEnd {
    Done(PushState),
    Fatal { at: usize, carried: PushState, error: String },
    Panic,
}

/// Harness-driven loop over the real `State::perform`, checking invariants at each step.
fn mirror(m0: &MState, st0: PushState, keep: usize, cap_steps: usize, origin: &str, rep: &mut Report) -> Mirror {
    let mut st = st0;
    let mut states = vec![st.clone()];
    let mut k = 0usize;
    let limit = m0.step_limit.min(cap_steps);
    let mut reported_capacity = false;
    while k < limit {
        let Ok(p) = st.stack_mut::<PushProgram>().pop() else { break };
        let mp = from_real(&p);
        let name = match &mp {
            MP::I(i) => i.name(),
            MP::Block(_) => "Block".into(),
        };
        let before = observe(&st);
        rep.eval();
        match catch(|| st.perform(&p)) {
            Err(pn) => {
                rep.violation(format!("C03/{name}/panic"), || {
                    json!({"origin": origin, "instruction": mp.render(), "state_before": before.to_json(), "panic": pn.to_string(),
                           "program_state": m0.to_json()})
                });
                return Mirror { states, natural: k, end: MirrorEnd::Panic };
            }
            Ok(Ok(next)) => {
                rep.count(&format!("{name}:ok"));
                st = next;
            }
            Ok(Err(e)) => {
                let text = format!("{:?}", e.error());
                if e.is_recoverable() {
                    rep.count(&format!("{name}:recoverable"));
                    // a recoverable error must never be an overflow in disguise that later
                    // aborts — nothing to judge here beyond severity bookkeeping
                    st = push::error::into_state::IntoState::into_state(e);
                } else {
                    rep.count(&format!("{name}:fatal"));
                    let is_overflow = text.contains("Overflow") && text.contains("stack_type");
                    if !is_overflow {
                        rep.violation(format!("C03/{name}/fatal-not-overflow"), || {
                            json!({"origin": origin, "instruction": mp.render(), "error": text, "state_before": before.to_json()})
                        });
                    } else if !fatal_justified(&mp, &before) {
                        rep.violation(format!("C03/{name}/fatal-without-full-destination"), || {
                            json!({"origin": origin, "instruction": mp.render(), "error": text, "state_before": before.to_json(),
                                   "meaning": "evaluation aborted although no stack the instruction writes to was at its maximum"})
                        });
                    }
                    let carried = push::error::into_state::IntoState::into_state(e);
                    return Mirror { states, natural: k, end: MirrorEnd::Fatal { at: k, carried, error: text } };
                }
            }
        }
        k += 1;
        let o = observe(&st);
        if let Some(why) = over_capacity(&o, &m0.caps).filter(|_| !reported_capacity) {
            // report the first instruction after which a stack is above its maximum; later
            // steps of the same run would only repeat it
            reported_capacity = true;
            rep.violation(format!("C03/{name}/stack-above-maximum"), || {
                json!({"origin": origin, "instruction": mp.render(), "why": why, "state_before": before.to_json(), "state_after": o.to_json()})
            });
        }
        if k <= keep {
            states.push(st.clone());
        }
    }
    Mirror { states, natural: k, end: MirrorEnd::Done(st) }
}

fn describe(r: &RunOut) -> Value {
    match r {
        RunOut::Ok(s) => json!({"outcome": "Ok", "state": observe(s).to_json()}),
        RunOut::Fatal(s, e) => json!({"outcome": "Fatal", "error": e, "carried_state": observe(s).to_json()}),
        RunOut::Panic(p) => json!({"outcome": "PANIC", "panic": p}),
    }
}

/// Loop-vs-mirror differential for one program state.
fn loop_case(m0: &MState, origin: &str, keep: usize, rep: &mut Report) {
    let Ok(st0) = build_real(m0) else {
        rep.inconclusive("unbuildable state");
        return;
    };
    rep.distinct(fnv_str(&format!("{}|{:?}|{}", render_prog(&m0.exec), m0.caps, m0.step_limit)));
    let big = m0.step_limit;
    let mir = mirror(m0, st0, keep, 5_000, origin, rep);
    if matches!(mir.end, MirrorEnd::Panic) {
        return;
    }
    if big > 5_000 && mir.natural >= 5_000 {
        // mirror budget exhausted: states are not predicted, but the real run must still
        // return, without panic, error kind other than overflow, or an over-full stack
        if let Ok(r0) = build_real(m0) {
            let out = real_run(r0);
            rep.eval();
            rep.count("long-run:returned");
            match &out {
                RunOut::Ok(s) | RunOut::Fatal(s, _) => {
                    if let Some(why) = over_capacity(&observe(s), &m0.caps) {
                        rep.violation("C03/run/stack-above-maximum", || {
                            json!({"origin": origin, "program_state": m0.to_json(), "why": why})
                        });
                    }
                    if let RunOut::Fatal(_, e) = &out {
                        if !e.contains("Overflow") {
                            rep.violation("C03/run/error-not-overflow", || json!({"origin": origin, "program_state": m0.to_json(), "error": e}));
                        }
                    }
                }
                RunOut::Panic(p) => rep.violation("C03/run/panic", || json!({"origin": origin, "program_state": m0.to_json(), "panic": p})),
            }
        }
        return;
    }
    let natural = mir.natural;
    rep.count(match mir.end {
        MirrorEnd::Done(_) => "program-end:done",
        MirrorEnd::Fatal { .. } => "program-end:fatal",
        MirrorEnd::Panic => "program-end:panic",
    });
    let mut limits: Vec<usize> = (0..=natural.min(keep)).collect();
    limits.extend([natural.saturating_sub(1), natural, natural + 1, natural + 7, big]);
    limits.sort_unstable();
    limits.dedup();
    limits.retain(|l| *l <= big);
    for l in limits {
        let mut init = m0.clone();
        init.step_limit = l;
        let Ok(r0) = build_real(&init) else { continue };
        let out = real_run(r0);
        rep.eval();
        // what the mirror prescribes for limit l
        let fatal_at = match &mir.end {
            MirrorEnd::Fatal { at, .. } => Some(*at),
            _ => None,
        };
        let reference: Option<(bool, Obs, Option<String>)> = match fatal_at {
            Some(at) if l > at => match &mir.end {
                MirrorEnd::Fatal { carried, error, .. } => Some((true, observe(carried), Some(error.clone()))),
                _ => None,
            },
            _ => {
                let k = l.min(natural);
                if k < mir.states.len() {
                    Some((false, observe(&mir.states[k]), None))
                } else if k == natural {
                    match &mir.end {
                        MirrorEnd::Done(s) => Some((false, observe(s), None)),
                        _ => None,
                    }
                } else {
                    None
                }
            }
        };
        let Some((want_fatal, mut want, want_err)) = reference else { continue };
        want.step_limit = l;
        let ok = match &out {
            RunOut::Ok(s) => !want_fatal && observe(s) == want,
            RunOut::Fatal(s, e) => {
                want_fatal
                    && observe(s) == want
                    && want_err.as_ref().is_some_and(|w| e.contains("Overflow") == w.contains("Overflow"))
            }
            RunOut::Panic(_) => false,
        };
        // invariants on what came back, whatever the mirror says
        match &out {
            RunOut::Ok(s) | RunOut::Fatal(s, _) => {
                if let Some(why) = over_capacity(&observe(s), &m0.caps) {
                    rep.violation("C03/run/stack-above-maximum", || {
                        json!({"origin": origin, "program_state": m0.to_json(), "step_limit": l, "why": why, "result": describe(&out)})
                    });
                }
            }
            RunOut::Panic(p) => {
                rep.violation("C03/run/panic", || {
                    json!({"origin": origin, "program_state": m0.to_json(), "step_limit": l, "panic": p})
                });
                return;
            }
        }
        if let RunOut::Fatal(_, e) = &out {
            if !e.contains("Overflow") {
                rep.violation("C03/run/error-not-overflow", || {
                    json!({"origin": origin, "program_state": m0.to_json(), "step_limit": l, "error": e})
                });
            }
        }
        if !ok {
            let aspect = match (&out, want_fatal) {
                (RunOut::Fatal(..), false) => "aborted-but-steps-succeed",
                (RunOut::Ok(_), true) => "continued-past-overflow",
                _ => {
                    if l < natural {
                        "step-limit"
                    } else {
                        "loop-state"
                    }
                }
            };
            rep.violation(format!("C03/run/{aspect}"), || {
                json!({"origin": origin, "program_state": m0.to_json(), "step_limit": l, "natural_length_in_steps": natural,
                       "stepping_perform_at_most_limit_times_gives": want.to_json(), "expected_fatal": want_fatal,
                       "run_to_completion_gave": describe(&out)})
            });
            return;
        }
    }
    if rep.wants_sample() && natural > 8 {
        rep.sample(|| json!({"kind": "loop-vs-mirror", "origin": origin, "program": render_prog(&m0.exec.iter().rev().cloned().collect::<Vec<_>>()),
            "natural_length_in_steps": natural, "step_limit": big,
            "max_sizes": m0.caps.iter().map(|c| if *c == usize::MAX { json!("usize::MAX") } else { json!(c) }).collect::<Vec<_>>(),
            "end": match &mir.end { MirrorEnd::Done(_) => "ran to the end / limit".to_string(), MirrorEnd::Fatal{at, error, ..} => format!("fatal at step {at}: {error}"), MirrorEnd::Panic => "panic".into() }}));
    }
}

/// Metered programs: N x PrintPeriod; the output length *is* the number of steps taken.
fn metered(rep: &mut Report) {
    for n in [0usize, 1, 2, 3, 5, 17, 64] {
        for l in [0usize, 1, 2, 3, 4, 5, 6, 16, 17, 18, 63, 64, 65, 1000, usize::MAX] {
            let m = MState {
                exec: vec![MP::I(MI::PrintPeriod); n],
                int: vec![],
                float: vec![],
                boolean: vec![],
                caps: [100, 100, 100, 100],
                stdout: String::new(),
                step_limit: l,
                inputs: BTreeMap::new(),
            };
            let Ok(r0) = build_real(&m) else { continue };
            rep.eval();
            rep.distinct(fnv_str(&format!("metered {n} {l}")));
            match real_run(r0) {
                RunOut::Ok(s) => {
                    let o = observe(&s);
                    if o.stdout.len() != n.min(l) || o.exec.len() != n - n.min(l) {
                        rep.violation("C03/run/step-limit", || {
                            json!({"metered_program": format!("{n} x PrintPeriod"), "step_limit": l, "dots_printed": o.stdout.len(), "expected": n.min(l), "exec_left": o.exec.len()})
                        });
                    }
                }
                other => rep.violation("C03/run/outcome", || json!({"metered_program": format!("{n} x PrintPeriod"), "step_limit": l, "result": describe(&other)})),
            }
        }
    }
}

/// Exhaustive grid: small programs x capacity sweep 0..=6 x step-limit sweep 0..=64.
fn grid(seed: u64, shard: usize, programs: usize, rep: &mut Report) {
    let mut g = Xo::derive(seed, "C03-grid", shard as u64);
    for _ in 0..programs {
        let inputs = gen_inputs(&mut g);
        let program = gen_program(&mut g, &inputs, 10, 3);
        for cap in 0..=6usize {
            if program.len() > cap {
                continue;
            }
            let base = MState {
                exec: program.iter().rev().cloned().collect(),
                int: (0..cap.min(2)).map(|_| gen_int(&mut g)).collect(),
                float: vec![],
                boolean: if cap > 0 { vec![g.chance(1, 2)] } else { vec![] },
                caps: [cap, cap, cap, cap],
                stdout: String::new(),
                step_limit: 64,
                inputs: inputs.clone(),
            };
            loop_case(&base, "grid", 64, rep);
        }
    }
}

// ------------------------------------------------------------------------------------
// hang / abort monitor (child side)

fn nested_block(depth: usize, leaf: PushProgram) -> PushProgram {
    let mut p = leaf;
    for _ in 0..depth {
        p = PushProgram::Block(vec![p]);
    }
    p
}

fn count_nodes(p: &PushProgram) -> usize {
    match p {
        PushProgram::Instruction(_) => 1,
        PushProgram::Block(b) => 1 + b.iter().map(count_nodes).sum::<usize>(),
    }
}

fn exec_dup() -> PushProgram {
    PushProgram::Instruction(ExecInstruction::Dup(Default::default()).into())
}

fn dup_block() -> PushProgram {
    PushProgram::Instruction(ExecInstruction::dup_block().into())
}

fn lit(i: i64) -> PushProgram {
    PushProgram::Instruction(push::instruction::PushInstruction::push_int(i))
}

/// Programs aimed at the anchors: self-replication, exponential growth, deep nesting,
/// extreme arithmetic. Returns (description, program, exec cap, other cap, step limit).
fn stress_programs(seed: u64, shard: usize, tier_thorough: bool) -> Vec<(String, Vec<PushProgram>, usize, usize, usize)> {
    let mut g = Xo::derive(seed, "C03-stress", shard as u64);
    let mut v: Vec<(String, Vec<PushProgram>, usize, usize, usize)> = Vec::new();
    let big = if tier_thorough { 1_000_000 } else { 200_000 };
    // classic infinite loop: a block that re-creates itself with Exec.Dup
    let int_pop = PushProgram::Instruction(push::instruction::IntInstruction::pop().into());
    let body = PushProgram::Block(vec![lit(1), int_pop, exec_dup()]);
    v.push(("loop: Exec.Dup [1 Int.Pop Exec.Dup] — replicates itself forever in constant space".into(), vec![exec_dup(), body.clone()], 1000, 1000, big));
    v.push(("same loop with unbounded stacks".into(), vec![exec_dup(), body.clone()], usize::MAX, 10_000, big / 4));
    let growing = PushProgram::Block(vec![lit(1), exec_dup()]);
    v.push(("loop that grows the int stack until it overflows".into(), vec![exec_dup(), growing], 1000, 1000, big));
    // DupBlock of blocks containing DupBlock: exponential growth until overflow
    let mut grow = PushProgram::Block(vec![lit(2)]);
    for _ in 0..8 {
        // doubles the program size each round: 2^9 nodes in the end
        grow = PushProgram::Block(vec![dup_block(), grow.clone(), exec_dup(), grow]);
    }
    let mut tower = PushProgram::Block(vec![lit(3)]);
    for _ in 0..40 {
        tower = PushProgram::Block(vec![dup_block(), tower]);
    }
    v.push(("exponential growth: 40 nested DupBlock".into(), vec![tower.clone()], 10_000, 10_000, big));
    v.push(("exponential growth into a small exec stack".into(), vec![tower], 50, 50, big));
    v.push(("mixed DupBlock / Exec.Dup tower".into(), vec![grow], 5_000, 5_000, big / 2));
    // deep nesting (cost per step is proportional to the size of what is cloned, so the
    // step limits shrink as the depth grows)
    let depths: &[usize] = if tier_thorough { &[10, 500, 2_000, 20_000] } else { &[10, 500, 2_000, 6_000] };
    for &depth in depths {
        v.push((format!("block nested {depth} deep"), vec![nested_block(depth, lit(4))], 100, 100, big));
        let dup_limit = (40_000_000 / (depth * depth).max(1)).clamp(200, 100_000);
        v.push((format!("Exec.Dup of a block nested {depth} deep"), vec![exec_dup(), nested_block(depth, exec_dup())], 100, 100, dup_limit));
    }
    // deep Plushy genomes: all opens, then translate with the crate's own parser
    for depth in (if tier_thorough { [100usize, 2_000, 20_000] } else { [100usize, 2_000, 6_000] }) {
        let genes: Vec<PushGene> = (0..depth)
            .map(|k| match k % 3 {
                0 => PushGene::Instruction(ExecInstruction::dup_block().into()),
                1 => PushGene::Instruction(ExecInstruction::when().into()),
                _ => PushGene::Instruction(ExecInstruction::if_else().into()),
            })
            .collect();
        let prog: Vec<PushProgram> = Plushy::new(genes).into();
        v.push((format!("plushy genome of {depth} opening genes"), prog, 100_000, 1000, 100_000));
    }
    // arithmetic at the extremes, in a loop
    let arith: Vec<PushProgram> = {
        use push::instruction::{FloatInstruction as F, IntInstruction as I};
        let mut p: Vec<PushProgram> = vec![exec_dup()];
        let mut inner: Vec<PushProgram> = vec![
            lit(i64::MAX), lit(i64::MIN), lit(-1), lit(i64::MAX),
        ];
        for i in [I::Power, I::Multiply, I::ProtectedDivide, I::Mod, I::Square, I::Add, I::Subtract, I::Inc, I::Dec, I::negate(), I::abs(), I::FromFloatApprox, I::clamp(), I::Power] {
            inner.push(PushProgram::Instruction(i.into()));
            inner.push(lit(i64::MIN));
            inner.push(lit(-1));
        }
        for f in [f64::MAX, f64::INFINITY, f64::NAN, -0.0, 1e-320] {
            inner.push(PushProgram::Instruction(F::push(f).into()));
        }
        for i in [F::Multiply, F::ProtectedDivide, F::Add, F::Subtract, F::FromIntApprox, F::Equal, F::LessThan] {
            inner.push(PushProgram::Instruction(i.into()));
        }
        inner.push(exec_dup());
        p.push(PushProgram::Block(inner));
        p
    };
    v.push(("extreme arithmetic in a self-replicating loop".into(), arith, 500, 500, big / 2));
    if shard != 0 {
        // the fixed anchor programs run once (shard 0); other shards only add random ones
        v.clear();
    }
    // random exec-heavy programs
    for n in 0..(if tier_thorough { 400 } else { 60 }) {
        let inputs: BTreeMap<String, InVal> = BTreeMap::new();
        let mut prog: Vec<MP> = Vec::new();
        let len = 2 + g.usize_below(10);
        for _ in 0..len {
            prog.push(gen_exec_heavy(&mut g, 4, &inputs));
        }
        let cap = *g.pick(&[3usize, 20, 200, 5_000, usize::MAX]);
        let exec_cap = if cap == usize::MAX { 50_000 } else { cap.max(prog.len()) };
        let lim = *g.pick(&[1_000usize, 20_000, 100_000]);
        v.push((format!("random exec-heavy #{n}: {}", render_prog(&prog)), prog.iter().map(to_real).collect(), exec_cap, cap.min(100_000), lim));
    }
    v
}

fn gen_exec_heavy(g: &mut Xo, depth: usize, inputs: &BTreeMap<String, InVal>) -> MP {
    if depth > 0 && g.chance(2, 5) {
        let n = 1 + g.usize_below(4);
        return MP::Block((0..n).map(|_| gen_exec_heavy(g, depth - 1, inputs)).collect());
    }
    match g.below(14) {
        0..=2 => MP::I(MI::Dup(Ty::Exec)),
        3..=5 => MP::I(MI::DupBlock),
        6 => MP::I(MI::Swap(Ty::Exec)),
        7 => MP::I(MI::PushExec(Box::new(gen_exec_heavy(g, depth.saturating_sub(1), inputs)))),
        8 => MP::I(MI::PushBool(g.chance(1, 2))),
        9 => MP::I(g.pick(&[MI::When, MI::Unless, MI::IfElse]).clone()),
        10 => MP::I(MI::StackDepth(Ty::Exec)),
        11 => MP::I(MI::PushInt(gen_int(g))),
        12 => MP::I(g.pick(&[MI::Mul, MI::Pow, MI::Add, MI::Dup(Ty::Int), MI::PrintLn(Ty::Int)]).clone()),
        _ => MP::I(crate::pushvm::gen_instr(g, inputs, 1)),
    }
}

fn process_cpu_seconds() -> f64 {
    // SAFETY-free: read from /proc to avoid another libc binding
    let Ok(stat) = std::fs::read_to_string("/proc/self/stat") else { return 0.0 };
    let after = stat.rsplit(')').next().unwrap_or("");
    let f: Vec<&str> = after.split_whitespace().collect();
    // fields after the command: state(0) ... utime is index 11, stime 12 (0-based here)
    let ut: f64 = f.get(11).and_then(|s| s.parse().ok()).unwrap_or(0.0);
    let st: f64 = f.get(12).and_then(|s| s.parse().ok()).unwrap_or(0.0);
    (ut + st) / 100.0
}

/// Child process: run the stress batch for one shard. Prints BEGIN/END markers.
pub fn child(args: &Args) -> i32 {
    let shard: usize = args
        .extra
        .iter()
        .position(|a| a == "--shard")
        .and_then(|i| args.extra.get(i + 1))
        .and_then(|s| s.parse().ok())
        .unwrap_or(0);
    limit_self(0, 6 << 30);
    let thorough = args.tier == vh_core::Tier::Thorough;
    let seed = args.seed;
    // watchdog on CPU time: budget is set per program by the worker
    let deadline = std::sync::Arc::new(std::sync::Mutex::new((f64::INFINITY, 0usize)));
    {
        let deadline = deadline.clone();
        std::thread::spawn(move || loop {
            std::thread::sleep(Duration::from_millis(200));
            let (d, n) = *deadline.lock().unwrap();
            if process_cpu_seconds() > d {
                println!("HANG {n}");
                let _ = std::io::stdout().flush();
                std::process::exit(17);
            }
        });
    }
    let worker = std::thread::Builder::new()
        .stack_size(1 << 30)
        .spawn(move || {
            let progs = stress_programs(seed, shard, thorough);
            let out = std::io::stdout();
            for (n, (desc, prog, exec_cap, cap, limit)) in progs.into_iter().enumerate() {
                let short: String = desc.chars().take(160).collect();
                println!("BEGIN {n} limit={limit} exec_cap={exec_cap} cap={cap} :: {short}");
                let _ = out.lock().flush();
                // CPU budget tied to the logical bound on work: every step handles at most
                // the initial program's node count (elements never grow), so
                // 60 s + 2 us per (permitted step x program node) is > 20x the measured cost
                let nodes: usize = prog.iter().map(count_nodes).sum::<usize>() + 10;
                let budget = 60.0 + limit as f64 * nodes as f64 * 2e-6;
                *deadline.lock().unwrap() = (process_cpu_seconds() + budget, n);
                let t0 = process_cpu_seconds();
                let plen = prog.len();
                if plen > exec_cap {
                    println!("END {n} skipped");
                    continue;
                }
                let built = PushState::builder()
                    .with_max_stack_size(exec_cap)
                    .with_int_max_size(cap)
                    .with_float_max_size(cap)
                    .with_bool_max_size(cap)
                    .with_program(prog)
                    .map(|b| {
                        b.with_float_values([OrderedFloat(1.5)].into_iter().take(cap.min(1)).collect::<Vec<_>>())
                            .map(|b| b.with_instruction_step_limit(limit).build())
                    });
                let st = match built {
                    Ok(Ok(s)) => s,
                    _ => {
                        println!("END {n} unbuildable");
                        continue;
                    }
                };
                let res = catch(|| st.run_to_completion());
                let kind = match res {
                    Err(p) => {
                        println!("VIOL {}", json!({"sig": "C03/run/panic", "program": short, "panic": p.to_string()}));
                        "panic".to_string()
                    }
                    Ok(Ok(s)) => {
                        let sizes = [
                            s.stack::<PushProgram>().size(),
                            s.stack::<i64>().size(),
                            s.stack::<OrderedFloat<f64>>().size(),
                            s.stack::<bool>().size(),
                        ];
                        let caps = [exec_cap, cap, cap, cap];
                        if (0..4).any(|k| sizes[k] > caps[k]) {
                            println!("VIOL {}", json!({"sig": "C03/run/stack-above-maximum", "program": short, "sizes": sizes, "max": caps.map(|c| c.min(u64::MAX as usize))}));
                        }
                        // dropping deep programs is part of "returns": do it here, inside the budget
                        drop(s);
                        "ok".to_string()
                    }
                    Ok(Err(fe)) => {
                        let text = format!("{fe:?}");
                        let tail: String = text.chars().rev().take(120).collect::<String>().chars().rev().collect();
                        if !tail.contains("Overflow") {
                            println!("VIOL {}", json!({"sig": "C03/run/error-not-overflow", "program": short, "error_tail": tail}));
                        }
                        drop(fe);
                        "fatal".to_string()
                    }
                };
                println!("END {n} {kind} cpu={:.3}", process_cpu_seconds() - t0);
            }
            *deadline.lock().unwrap() = (f64::INFINITY, 0);
        })
        .expect("spawn worker");
    match worker.join() {
        Ok(()) => 0,
        Err(_) => 3,
    }
}

fn hang_monitor(args: &Args, rep: &mut Report) {
    let exe = std::env::current_exe().expect("current exe");
    let shards = args.tier.pick(4usize, 16usize);
    let results: Vec<(usize, ChildOutcome)> = std::thread::scope(|sc| {
        let hs: Vec<_> = (0..shards)
            .map(|i| {
                let exe = exe.clone();
                sc.spawn(move || {
                    let mut cmd = std::process::Command::new(exe);
                    cmd.arg("C03-child")
                        .arg("--tier")
                        .arg(args.tier.name())
                        .arg("--seed")
                        .arg(args.seed.to_string())
                        .arg("--shard")
                        .arg(i.to_string());
                    (i, run_child(&mut cmd, Duration::from_secs(args.tier.pick(600, 3_000))))
                })
            })
            .collect();
        hs.into_iter().filter_map(|h| h.join().ok()).collect()
    });
    let mut completed = 0u64;
    let mut table = Vec::new();
    for (i, out) in results {
        let (stdout, status) = match &out {
            ChildOutcome::Exited(c, so, _) => (so.clone(), format!("exit {c}")),
            ChildOutcome::Signaled(s, so, _) => (so.clone(), format!("signal {s}")),
            ChildOutcome::WallTimeout(so, _) => (so.clone(), "wall-clock watchdog".into()),
            ChildOutcome::SpawnFailed(e) => (String::new(), format!("spawn failed: {e}")),
        };
        let mut last_begin: Option<String> = None;
        let mut open = false;
        for line in stdout.lines() {
            if let Some(rest) = line.strip_prefix("BEGIN ") {
                last_begin = Some(rest.to_string());
                open = true;
            } else if let Some(rest) = line.strip_prefix("END ") {
                open = false;
                completed += 1;
                rep.eval();
                let kind = rest.split_whitespace().nth(1).unwrap_or("?");
                rep.count(&format!("stress:{kind}"));
                if let Some(b) = &last_begin {
                    rep.distinct(fnv_str(b));
                    if rep.wants_sample() && fnv_str(b) % 5 == 0 {
                        let b = b.clone();
                        let rest = rest.to_string();
                        rep.sample(|| json!({"kind": "stress program in subprocess", "program": b, "result": rest}));
                    }
                }
            } else if let Some(rest) = line.strip_prefix("VIOL ") {
                if let Ok(v) = serde_json_from(rest) {
                    let sig = v.get("sig").and_then(Value::as_str).unwrap_or("C03/run/child").to_string();
                    rep.violation(sig, || v.clone());
                }
            } else if line.starts_with("HANG ") {
                let prog = last_begin.clone().unwrap_or_default();
                rep.violation("C03/run/hang", || {
                    json!({"program": prog, "meaning": "run_to_completion exceeded the CPU budget tied to its step limit (60 s + 2 us per permitted step x program node)"})
                });
                open = false;
            }
        }
        match &out {
            ChildOutcome::Exited(0, ..) | ChildOutcome::Exited(17, ..) => {}
            ChildOutcome::Signaled(sig, _, se) => {
                let prog = last_begin.clone().unwrap_or_default();
                if open {
                    let tail: String = se.chars().rev().take(400).collect::<String>().chars().rev().collect();
                    rep.violation(format!("C03/run/abort-signal-{sig}"), || {
                        json!({"program": prog, "stderr_tail": tail, "meaning": "the process died while evaluating this program (stack exhaustion / allocation failure / abort)"})
                    });
                } else {
                    rep.inconclusive(format!("stress shard {i} died by signal {sig} outside a program"));
                }
            }
            ChildOutcome::WallTimeout(..) => {
                rep.inconclusive(format!("stress shard {i}: wall-clock watchdog fired (machine load?) — not a verdict; last program: {:?}", last_begin));
            }
            other => rep.inconclusive(format!("stress shard {i}: {status} ({other:?})").chars().take(300).collect::<String>()),
        }
        table.push(json!({"shard": i, "status": status}));
    }
    rep.table("stress_shards", json!({"shards": table, "programs_completed": completed}));
    if completed == 0 {
        rep.inconclusive("hang monitor completed no program");
    }
}

fn serde_json_from(s: &str) -> Result<Value, ()> {
    serde_json::from_str::<Value>(s).map_err(|_| ())
}

/// Totality at the boundary operands, systematically (not left to what random programs happen to
/// compute): every instruction shape is performed on every combination of boundary operands from
/// the pools (ints: all pairs, and all triples for the three-operand instruction; floats: all
/// pairs; booleans: all pairs) with roomy stacks, and - for the single-operand view - also as the
/// only instruction of a program that is run to completion. Never a panic; an error only
/// recoverable (skipped) - with room everywhere nothing can overflow.
fn operand_sweep(rep: &mut Report) {
    use crate::pushvm::{all_shapes, to_real_instr, FLOAT_POOL, INT_POOL};
    use push::instruction::Instruction;
    let mut inputs = BTreeMap::new();
    inputs.insert("x".to_string(), InVal::I(i64::MIN));
    for shape in all_shapes() {
        let (reads, _) = shape.io();
        let n_int = reads.iter().filter(|(t, _)| *t == Ty::Int).map(|(_, n)| *n).sum::<usize>();
        let n_float = reads.iter().filter(|(t, _)| *t == Ty::Float).map(|(_, n)| *n).sum::<usize>();
        let n_bool = reads.iter().filter(|(t, _)| *t == Ty::Bool).map(|(_, n)| *n).sum::<usize>();
        let int_tuples: Vec<Vec<i64>> = match n_int {
            0 => vec![vec![5, 6, 7]],
            1 => INT_POOL.iter().map(|a| vec![9, 9, *a]).collect(),
            2 => INT_POOL.iter().flat_map(|a| INT_POOL.iter().map(move |b| vec![9, *b, *a])).collect(),
            _ => INT_POOL.iter().flat_map(|a| INT_POOL.iter().flat_map(move |b| INT_POOL.iter().map(move |c| vec![*c, *b, *a]))).collect(),
        };
        let float_tuples: Vec<Vec<f64>> = match n_float {
            0 => vec![vec![1.5, 2.5]],
            1 => FLOAT_POOL.iter().map(|a| vec![0.5, *a]).collect(),
            _ => FLOAT_POOL.iter().flat_map(|a| FLOAT_POOL.iter().map(move |b| vec![*b, *a])).collect(),
        };
        let bool_tuples: Vec<Vec<bool>> = if n_bool == 0 { vec![vec![true, false]] } else { vec![vec![false, false], vec![false, true], vec![true, false], vec![true, true]] };
        let name = shape.name();
        let real = to_real_instr(&shape);
        for ints in &int_tuples {
            for floats in &float_tuples {
                for bools in &bool_tuples {
                    let m = MState {
                        exec: vec![MP::I(MI::Noop), MP::Block(vec![MP::I(MI::PushInt(3))]), MP::Block(vec![])],
                        int: ints.clone(),
                        float: floats.clone(),
                        boolean: bools.clone(),
                        caps: [64, 64, 64, 64],
                        stdout: String::new(),
                        step_limit: 50,
                        inputs: inputs.clone(),
                    };
                    let Ok(st) = build_real(&m) else { continue };
                    rep.eval();
                    rep.count("operand-sweep");
                    let verdict = match catch(|| real.perform(st)) {
                        Err(p) => Some(("panic", p.to_string())),
                        Ok(Ok(_)) => None,
                        Ok(Err(e)) if e.is_recoverable() => None,
                        Ok(Err(e)) => Some(("fatal-without-full-destination", format!("{:?}", e.error()))),
                    };
                    if let Some((what, text)) = verdict {
                        rep.violation(format!("C03/{name}/{what}"), || json!({"origin": "boundary operand sweep", "instruction": name, "int_stack_bottom_first": ints, "float_stack_bottom_first": floats.iter().map(|f| format!("{f:?}")).collect::<Vec<_>>(), "bool_stack_bottom_first": bools, "every_stack_has_room_for": 64, "observed": text}));
                    }
                }
            }
        }
        rep.distinct(fnv_str(&format!("sweep-{name}")));
    }
}

pub fn run(args: &Args) -> i32 {
    let mut rep = Report::new();
    metered(&mut rep);
    operand_sweep(&mut rep);
    let shards = 64;
    let per = args.tier.pick(600, 12_000);
    let grid_programs = args.tier.pick(6, 60);
    let part = run_shards(shards, args.threads, 256 << 20, |s| {
        let mut rep = Report::new();
        for n in 0..per {
            let mut g = Xo::derive(args.seed, "C03-programs", (s * 1_000_003 + n) as u64);
            let inputs = gen_inputs(&mut g);
            let (program, origin) = if g.chance(1, 4) {
                (parse_genes(&gen_genes(&mut g, &inputs, 50)), "plushy")
            } else if g.chance(1, 3) {
                let len = 2 + g.usize_below(8);
                ((0..len).map(|_| gen_exec_heavy(&mut g, 3, &inputs)).collect(), "exec-heavy")
            } else {
                (gen_program(&mut g, &inputs, 50, 5), "nested")
            };
            let mut m0 = gen_state(&mut g, program, inputs);
            if g.chance(1, 4) {
                // large limits only with bounded stacks: a self-replicating program may
                // legitimately use every permitted step and all permitted space
                m0.step_limit = *g.pick(&[1_000usize, 4_000, 10_000, 100_000]);
                for c in &mut m0.caps {
                    *c = (*c).min(2_000);
                }
                m0.caps[0] = m0.caps[0].max(m0.exec.len());
            }
            loop_case(&m0, origin, 40, &mut rep);
        }
        grid(args.seed, s, grid_programs, &mut rep);
        rep
    });
    rep.merge(part);
    hang_monitor(args, &mut rep);
    rep.finish(
        args,
        "exploration",
        "random nested / Plushy / exec-heavy programs with random capacities (0..usize::MAX) and step limits (0..usize::MAX), each compared at step limits 0..=40 and around its natural length against stepping the real State::perform; exhaustive capacity 0..=6 x limit 0..=64 grid on small programs; metered programs; stress programs (self-replicating, exponential, nested to 20000, extreme arithmetic) in subprocesses. distinct_nontrivial = distinct (program, capacities, limit) by structural hash + distinct stress programs",
        false,
        &[
            "the mirror loop uses the real State::perform, so C03 is insensitive to wrong instruction results (C01) and judges only totality, bounds and severity",
            "a fatal error is justified when a stack the failing instruction writes to is at its maximum, or a block does not fit",
            "hang verdict = CPU time above 60 s + 2 us per (permitted step x initial program node); wall-clock timeouts are inconclusive",
            "nesting is explored to depth 20000 on a 1 GiB thread stack; deeper nesting is limited by the host stack, not judged",
        ],
    )
}
