//! C04 — the bounded stack is a faithful, all-or-nothing LIFO.
//!
//! Oracle: history + executable model (`Vec` + capacity). After *every* operation of a
//! history the return value (values top first, exact underflow payload, overflow) and the
//! full contents / size / emptiness / maximum are compared with the model. Elements are
//! unique serial numbers, so any ordering mistake is unambiguous.
//!
//! Workload: (1) exhaustive small scope — every history up to a length bound over the
//! operation alphabet below, from every initial capacity 0..=4 (DFS sharing prefixes);
//! (2) long random histories with capacity changes mid-history (including below the
//! current size and `usize::MAX`), with a drop-counting element type (conservation).

use std::sync::atomic::{AtomicI64, Ordering};

use push::{
    collectable::TryExtend,
    push_vm::stack::{Stack, StackError},
};
use vh_core::{catch, fnv, json, mix, shard::run_shards, Args, Report, Value, Xo};

#[derive(Clone, Copy, Debug, PartialEq, Eq, Hash)]
pub enum Op {
    Push,
    Pop,
    Pop2,
    Pop3,
    Top,
    Top2,
    Top3,
    Discard(usize),
    PushMany(usize),
    TryExtend(usize),
    SetMax(usize),
    /// push_many from an exact-size, double-ended iterator that *claims* this many items and is
    /// never materialised; only issued when the claim cannot fit, so a correct stack refuses it
    /// from the claimed length alone (without allocating, without arithmetic overflow)
    PushManyClaimed(usize),
    /// try_extend from an iterator that never ends (its size hint promises usize::MAX items):
    /// on a bounded stack this must be an Overflow that leaves the contents alone - no attempt
    /// to reserve room for what the iterator announces
    TryExtendEndless,
}

impl Op {
    fn name(self) -> &'static str {
        match self {
            Op::Push => "push",
            Op::Pop => "pop",
            Op::Pop2 => "pop2",
            Op::Pop3 => "pop3",
            Op::Top => "top",
            Op::Top2 => "top2",
            Op::Top3 => "top3",
            Op::Discard(_) => "discard",
            Op::PushMany(_) | Op::PushManyClaimed(_) => "push_many",
            Op::TryExtend(_) | Op::TryExtendEndless => "try_extend",
            Op::SetMax(_) => "set_max_stack_size",
        }
    }

    fn render(self) -> String {
        match self {
            Op::Discard(n) => format!("discard({n})"),
            Op::PushMany(n) => format!("push_many({n} items)"),
            Op::PushManyClaimed(n) => format!("push_many(exact-size iterator claiming {n} items)"),
            Op::TryExtendEndless => "try_extend(endless iterator)".to_string(),
            Op::TryExtend(n) => format!("try_extend({n} items)"),
            Op::SetMax(n) => {
                if n == usize::MAX {
                    "set_max_stack_size(usize::MAX)".into()
                } else {
                    format!("set_max_stack_size({n})")
                }
            }
            o => o.name().to_string(),
        }
    }
}

fn alphabet() -> Vec<Op> {
    let mut v = vec![
        Op::Push,
        Op::Pop,
        Op::Pop2,
        Op::Pop3,
        Op::Top,
        Op::Top2,
        Op::Top3,
    ];
    for n in 0..=4 {
        v.push(Op::Discard(n));
    }
    for n in 0..=3 {
        v.push(Op::PushMany(n));
    }
    for n in 0..=3 {
        v.push(Op::TryExtend(n));
    }
    for n in 0..=4 {
        v.push(Op::SetMax(n));
    }
    v
}

/// What an operation returned, in model terms.
#[derive(Clone, Debug, PartialEq, Eq)]
pub enum Ret {
    Unit,
    Vals(Vec<u32>),
    Underflow { requested: usize, present: usize },
    Overflow,
    Panic(String),
}

impl Ret {
    fn kind(&self) -> &'static str {
        match self {
            Ret::Unit | Ret::Vals(_) => "ok",
            Ret::Underflow { .. } => "underflow",
            Ret::Overflow => "overflow",
            Ret::Panic(_) => "panic",
        }
    }
}

#[derive(Clone, Debug)]
pub struct Model {
    pub v: Vec<u32>, // bottom first
    pub cap: usize,
}

impl Model {
    /// The set of acceptable (return, contents) outcomes. One element except where the
    /// statement is silent (zero-element insertion into an over-full stack).
    fn expect(&self, op: Op, vals: &[u32]) -> Vec<(Ret, Vec<u32>)> {
        let n = self.v.len();
        let top = |k: usize| -> Vec<u32> { self.v.iter().rev().take(k).copied().collect() };
        let under = |k: usize| Ret::Underflow {
            requested: k,
            present: n,
        };
        let same = self.v.clone();
        let removed = |k: usize| self.v[..n - k].to_vec();
        match op {
            Op::Push => {
                if n >= self.cap {
                    vec![(Ret::Overflow, same)]
                } else {
                    let mut c = same;
                    c.push(vals[0]);
                    vec![(Ret::Unit, c)]
                }
            }
            Op::Pop => {
                if n >= 1 {
                    vec![(Ret::Vals(top(1)), removed(1))]
                } else {
                    // documented payload for a single pop/top on an empty stack
                    vec![(
                        Ret::Underflow {
                            requested: 1,
                            present: 0,
                        },
                        same,
                    )]
                }
            }
            Op::Pop2 => {
                if n >= 2 {
                    vec![(Ret::Vals(top(2)), removed(2))]
                } else {
                    vec![(under(2), same)]
                }
            }
            Op::Pop3 => {
                if n >= 3 {
                    vec![(Ret::Vals(top(3)), removed(3))]
                } else {
                    vec![(under(3), same)]
                }
            }
            Op::Top => {
                if n >= 1 {
                    vec![(Ret::Vals(top(1)), same)]
                } else {
                    vec![(under(1), same)]
                }
            }
            Op::Top2 => {
                if n >= 2 {
                    vec![(Ret::Vals(top(2)), same)]
                } else {
                    vec![(under(2), same)]
                }
            }
            Op::Top3 => {
                if n >= 3 {
                    vec![(Ret::Vals(top(3)), same)]
                } else {
                    vec![(under(3), same)]
                }
            }
            Op::Discard(k) => {
                if k <= n {
                    vec![(Ret::Unit, removed(k))]
                } else {
                    vec![(under(k), same)]
                }
            }
            Op::PushMany(k) | Op::TryExtend(k) => {
                debug_assert_eq!(k, vals.len());
                let fits = n.checked_add(k).is_some_and(|t| t <= self.cap);
                if fits {
                    // first supplied value becomes the new top
                    let mut c = same;
                    c.extend(vals.iter().rev().copied());
                    vec![(Ret::Unit, c)]
                } else if k == 0 {
                    // over-full stack, nothing inserted: statement is silent on the verdict
                    vec![(Ret::Unit, same.clone()), (Ret::Overflow, same)]
                } else {
                    vec![(Ret::Overflow, same)]
                }
            }
            Op::PushManyClaimed(_) | Op::TryExtendEndless => vec![(Ret::Overflow, same)],
            Op::SetMax(_) => vec![(Ret::Unit, same)],
        }
    }
}

pub trait Elem: Clone + PartialEq + std::fmt::Debug {
    fn mk(serial: u32) -> Self;
    fn id(&self) -> u32;
}

impl Elem for u32 {
    fn mk(serial: u32) -> Self {
        serial
    }
    fn id(&self) -> u32 {
        *self
    }
}

static LIVE: AtomicI64 = AtomicI64::new(0);

/// Drop-counting element: conservation monitor (nothing leaked or double-dropped on
/// rollback paths).
#[derive(Debug, PartialEq)]
pub struct Tracked(u32);

impl Clone for Tracked {
    fn clone(&self) -> Self {
        LIVE.fetch_add(1, Ordering::Relaxed);
        Tracked(self.0)
    }
}

impl Drop for Tracked {
    fn drop(&mut self) {
        LIVE.fetch_sub(1, Ordering::Relaxed);
    }
}

impl Elem for Tracked {
    fn mk(serial: u32) -> Self {
        LIVE.fetch_add(1, Ordering::Relaxed);
        Tracked(serial)
    }
    fn id(&self) -> u32 {
        self.0
    }
}

fn conv_err(e: &StackError) -> Ret {
    match e {
        StackError::Underflow {
            num_requested,
            num_present,
        } => Ret::Underflow {
            requested: *num_requested,
            present: *num_present,
        },
        StackError::Overflow { .. } => Ret::Overflow,
    }
}

fn apply_real<T: Elem>(s: &mut Stack<T>, op: Op, vals: &[u32]) -> Ret {
    let r = catch(|| match op {
        Op::Push => match s.push(T::mk(vals[0])) {
            Ok(()) => Ret::Unit,
            Err(e) => conv_err(&e),
        },
        Op::Pop => match s.pop() {
            Ok(a) => Ret::Vals(vec![a.id()]),
            Err(e) => conv_err(&e),
        },
        Op::Pop2 => match s.pop2() {
            Ok((a, b)) => Ret::Vals(vec![a.id(), b.id()]),
            Err(e) => conv_err(&e),
        },
        Op::Pop3 => match s.pop3() {
            Ok((a, b, c)) => Ret::Vals(vec![a.id(), b.id(), c.id()]),
            Err(e) => conv_err(&e),
        },
        Op::Top => match s.top() {
            Ok(a) => Ret::Vals(vec![a.id()]),
            Err(e) => conv_err(&e),
        },
        Op::Top2 => match s.top2() {
            Ok((a, b)) => Ret::Vals(vec![a.id(), b.id()]),
            Err(e) => conv_err(&e),
        },
        Op::Top3 => match s.top3() {
            Ok((a, b, c)) => Ret::Vals(vec![a.id(), b.id(), c.id()]),
            Err(e) => conv_err(&e),
        },
        Op::Discard(k) => match s.discard(k) {
            Ok(()) => Ret::Unit,
            Err(e) => conv_err(&e),
        },
        Op::PushMany(_) => {
            let items: Vec<T> = vals.iter().map(|v| T::mk(*v)).collect();
            match s.push_many(items) {
                Ok(()) => Ret::Unit,
                Err(e) => conv_err(&e),
            }
        }
        Op::PushManyClaimed(len) => match s.push_many((0..len).map(|x| T::mk(x as u32))) {
            Ok(()) => Ret::Unit,
            Err(e) => conv_err(&e),
        },
        Op::TryExtendEndless => {
            let mut it = (0u32..).cycle().map(T::mk);
            match s.try_extend(&mut it) {
                Ok(()) => Ret::Unit,
                Err(e) => conv_err(&e),
            }
        }
        Op::TryExtend(_) => {
            let items: Vec<T> = vals.iter().map(|v| T::mk(*v)).collect();
            // a plain iterator: no exact size, not double ended
            let mut it = items.into_iter().filter(|_| true);
            match s.try_extend(&mut it) {
                Ok(()) => Ret::Unit,
                Err(e) => conv_err(&e),
            }
        }
        Op::SetMax(c) => {
            s.set_max_stack_size(c);
            Ret::Unit
        }
    });
    match r {
        Ok(r) => r,
        Err(p) => Ret::Panic(p.to_string()),
    }
}

fn serial_hint(v: &[u32]) -> u32 {
    v.last().copied().unwrap_or(0) ^ v.len() as u32
}

fn contents<T: Elem>(s: &Stack<T>) -> Vec<u32> {
    let mut c = s.clone();
    let mut out = Vec::new();
    while let Ok(x) = c.pop() {
        out.push(x.id());
    }
    out.reverse();
    out
}

fn eq_contents<T: Elem>(s: &Stack<T>, want: &[u32]) -> bool {
    // observation through the public `Stack == Vec` comparison (bottom first) ...
    let as_vec: Vec<T> = want.iter().map(|v| T::mk(*v)).collect();
    *s == as_vec
}

/// Contents for a witness: whole when short, otherwise size and the top of the stack.
fn brief(v: &[u32]) -> Value {
    if v.len() <= 64 {
        json!(v)
    } else {
        json!({"size": v.len(), "bottom_8": &v[..8], "top_24_bottom_first": &v[v.len() - 24..]})
    }
}

fn witness(path: &[Op], cap0: usize, m: &Model, op: Op, vals: &[u32], got: &Ret, got_contents: &[u32], want: &[(Ret, Vec<u32>)]) -> Value {
    let short = |r: &Ret| format!("{r:?}").chars().take(400).collect::<String>();
    json!({
        "initial_capacity": cap0,
        "history_before": path.iter().map(|o| o.render()).collect::<Vec<_>>(),
        "model_before": {"contents_bottom_first": brief(&m.v), "capacity": if m.cap == usize::MAX { json!("usize::MAX") } else { json!(m.cap) }},
        "operation": op.render(),
        "values_supplied": brief(vals),
        "observed": {"returned": short(got), "contents_bottom_first": brief(got_contents)},
        "acceptable": want.iter().map(|(r, c)| json!({"returned": short(r), "contents_bottom_first": brief(c)})).collect::<Vec<_>>(),
    })
}

/// One monitored step. Returns whether a successful insertion happened.
#[allow(clippy::too_many_arguments)]
fn step<T: Elem>(
    real: &mut Stack<T>,
    model: &mut Model,
    op: Op,
    serial: &mut u32,
    path: &[Op],
    cap0: usize,
    rep: &mut Report,
) -> bool {
    let k = match op {
        Op::Push => 1,
        Op::PushMany(k) | Op::TryExtend(k) => k,
        _ => 0,
    };
    let vals: Vec<u32> = (0..k)
        .map(|_| {
            *serial += 1;
            *serial
        })
        .collect();
    let overfull = model.v.len() > model.cap;
    let want = model.expect(op, &vals);
    let got = apply_real(real, op, &vals);
    rep.eval();

    let ctx = if overfull { "/overfull" } else { "" };
    let mut ok = true;
    let accepted = want
        .iter()
        .find(|(r, c)| *r == got && eq_contents(real, c));
    let new_cap = if let Op::SetMax(c) = op { c } else { model.cap };
    if accepted.is_none() {
        ok = false;
        let gc = contents(real);
        let aspect = if matches!(got, Ret::Panic(_)) {
            "panic"
        } else if want.iter().any(|(r, _)| *r == got) {
            "contents"
        } else if want.iter().any(|(r, _)| r.kind() == got.kind()) {
            "payload"
        } else {
            "result"
        };
        rep.violation(format!("C04/{}/{}{}", op.name(), aspect, ctx), || {
            witness(path, cap0, model, op, &vals, &got, &gc, &want)
        });
    }
    // structural queries after every operation
    let now = contents(real);
    if real.size() != now.len() || real.is_empty() != now.is_empty() {
        ok = false;
        rep.violation(format!("C04/{}/size-query{}", op.name(), ctx), || {
            json!({"history": path.iter().map(|o| o.render()).collect::<Vec<_>>(), "operation": op.render(),
                   "size()": real.size(), "is_empty()": real.is_empty(), "actual_len": now.len()})
        });
    }
    // the two observation channels must agree: `Stack == sequence` (Vec, slice, array forms) is
    // true exactly for the contents obtained by popping a clone - not for a proper prefix of
    // them, not for an extension, not for a same-length sequence differing in one place
    if now.len() <= 64 || serial_hint(&now) % 97 == 0 {
        let same: Vec<T> = now.iter().map(|v| T::mk(*v)).collect();
        let mut longer: Vec<T> = now.iter().map(|v| T::mk(*v)).collect();
        longer.push(T::mk(u32::MAX));
        let shorter: Vec<T> = now.iter().take(now.len().saturating_sub(1)).map(|v| T::mk(*v)).collect();
        let mut changed: Vec<T> = now.iter().map(|v| T::mk(*v)).collect();
        if let Some(last) = changed.last_mut() {
            *last = T::mk(u32::MAX - 1);
        }
        let eq_same = *real == same && *real == same[..] && *real == &same[..];
        let eq_longer = *real == longer || *real == longer[..];
        let eq_shorter = !now.is_empty() && (*real == shorter || *real == shorter[..]);
        let eq_changed = !now.is_empty() && (*real == changed || *real == &changed[..]);
        if !eq_same || eq_longer || eq_shorter || eq_changed {
            ok = false;
            rep.violation(format!("C04/equality-disagrees-with-contents{}", ctx), || {
                json!({"history": path.iter().map(|o| o.render()).collect::<Vec<_>>(), "operation": op.render(), "contents_by_popping_a_clone": brief(&now),
                       "stack == its contents": eq_same, "stack == contents + one more element": eq_longer, "stack == contents without the top": eq_shorter, "stack == contents with the top replaced": eq_changed})
            });
        }
    }
    if real.max_stack_size() != new_cap {
        ok = false;
        rep.violation(format!("C04/{}/max-changed{}", op.name(), ctx), || {
            json!({"history": path.iter().map(|o| o.render()).collect::<Vec<_>>(), "operation": op.render(),
                   "max_stack_size()": real.max_stack_size(), "expected": new_cap})
        });
    }
    if now.len() <= new_cap && real.is_full() != (now.len() == new_cap) {
        ok = false;
        rep.violation(format!("C04/{}/is_full", op.name()), || {
            json!({"history": path.iter().map(|o| o.render()).collect::<Vec<_>>(), "operation": op.render(),
                   "is_full()": real.is_full(), "size": now.len(), "max": new_cap})
        });
    }
    // "no successful insertion ever leaves the stack larger than its current maximum"
    let inserted = k > 0 && matches!(got, Ret::Unit);
    if ok && inserted && now.len() > new_cap {
        ok = false;
        rep.violation(format!("C04/{}/insertion-exceeds-max{}", op.name(), ctx), || {
            witness(path, cap0, model, op, &vals, &got, &now, &want)
        });
    }
    rep.count(&format!("{}:{}", op.name(), got.kind()));
    // resynchronise the model with the real stack so one divergence is reported once
    if ok {
        model.v = accepted.map(|(_, c)| c.clone()).unwrap_or(now);
    } else {
        model.v = now;
    }
    model.cap = real.max_stack_size();
    inserted
}

struct Dfs<'a> {
    alphabet: &'a [Op],
    max_depth: usize,
    cap0: usize,
    rep: &'a mut Report,
    path: Vec<Op>,
}

impl Dfs<'_> {
    fn go(&mut self, real: &Stack<u32>, model: &Model, serial: u32, any_insert: bool) {
        if self.path.len() >= self.max_depth {
            return;
        }
        for &op in self.alphabet {
            let mut r = real.clone();
            let mut m = model.clone();
            let mut ser = serial;
            let ins = step(&mut r, &mut m, op, &mut ser, &self.path, self.cap0, self.rep);
            let any = any_insert || ins;
            if any {
                self.rep.distinct_by_construction(1);
            }
            self.path.push(op);
            if self.rep.wants_sample() && self.path.len() == self.max_depth && any {
                let p = self.path.clone();
                let c0 = self.cap0;
                let fin = contents(&r);
                self.rep.sample(|| json!({"kind":"exhaustive history","initial_capacity": c0,
                    "operations": p.iter().map(|o| o.render()).collect::<Vec<_>>(), "final_contents_bottom_first": fin}));
            }
            self.go(&r, &m, ser, any);
            self.path.pop();
        }
    }
}

fn random_history<T: Elem>(seed: u64, idx: u64, len: usize, rep: &mut Report) {
    let mut g = Xo::derive(seed, "C04-random", idx);
    // every fourth history works on large stacks with large bulk operations: growth strategies,
    // chunked copies and size arithmetic only matter beyond toy sizes
    let big = idx % 4 == 3;
    let len = if big { len / 16 } else { len };
    let bulk = |g: &mut Xo| if big { *g.pick(&[0usize, 1, 7, 64, 65, 500, 1024, 3000]) + g.usize_below(3) } else { g.usize_below(6) };
    let cap0 = if big {
        *g.pick(&[100usize, 1000, 4096, 4097, 70_000, usize::MAX])
    } else {
        match g.below(4) {
            0 => g.usize_below(5),
            1 => g.usize_below(40),
            2 => usize::MAX,
            _ => 8,
        }
    };
    let mut real: Stack<T> = Stack::default();
    real.set_max_stack_size(cap0);
    let mut model = Model {
        v: Vec::new(),
        cap: cap0,
    };
    let mut serial = 0u32;
    let mut path: Vec<Op> = Vec::new();
    let mut h = 0u64;
    for _ in 0..len {
        let op = match g.below(100) {
            0..=24 => Op::Push,
            25..=34 => Op::Pop,
            35..=39 => Op::Pop2,
            40..=44 => Op::Pop3,
            45..=49 => Op::Top,
            50..=53 => Op::Top2,
            54..=57 => Op::Top3,
            58..=65 => Op::Discard(bulk(&mut g)),
            66..=67 if !model.v.is_empty() || model.cap < usize::MAX => {
                // a claimed length that cannot fit: beyond the free room, up to usize::MAX
                let n = model.v.len();
                let free = model.cap.saturating_sub(n);
                let mut claims = vec![usize::MAX, usize::MAX - 1, usize::MAX / 2 + 1];
                if n > 0 {
                    claims.push(usize::MAX - n + 1);
                }
                if n > 1 {
                    claims.push(usize::MAX - n + 2);
                }
                if let Some(over) = free.checked_add(1) {
                    claims.push(over);
                    claims.push(free.saturating_add(1 << 40));
                }
                claims.retain(|c| n.checked_add(*c).is_none_or(|t| t > model.cap) && *c > 0);
                match claims.is_empty() {
                    true => Op::Top,
                    false => Op::PushManyClaimed(*g.pick(&claims)),
                }
            }
            68 if model.cap <= 100_000 => Op::TryExtendEndless,
            66..=77 => Op::PushMany(bulk(&mut g)),
            78..=89 => Op::TryExtend(bulk(&mut g)),
            _ => Op::SetMax(match g.below(6) {
                0 => usize::MAX,
                1 => model.v.len().saturating_sub(g.usize_below(3)), // at or below current size
                2 => model.v.len() + g.usize_below(3),
                _ if big => *g.pick(&[0usize, 63, 64, 1000, 5000, 70_000]),
                _ => g.usize_below(48),
            }),
        };
        // keep only a window of the path for witnesses
        if path.len() > 24 {
            path.remove(0);
        }
        step(&mut real, &mut model, op, &mut serial, &path, cap0, rep);
        path.push(op);
        h = mix(h, fnv(op.render().as_bytes()));
    }
    rep.distinct(h);
    if rep.wants_sample() {
        let fin = contents(&real);
        rep.sample(|| json!({"kind":"random history (last 25 operations shown)", "initial_capacity": if cap0==usize::MAX {json!("usize::MAX")} else {json!(cap0)},
            "length": len, "operations_tail": path.iter().map(|o| o.render()).collect::<Vec<_>>(), "final_size": fin.len()}));
    }
}

/// Insertion through the state-level helpers (`HasStack::with_push` / `with_replace`,
/// `PushOnto::push_onto` / `replace_on`, `StackPush::with_stack_push`): whatever the route, a
/// *successful* insertion leaves the stack within its current maximum - also when that maximum
/// was lowered after the stack was filled - holding exactly the old contents minus what was to
/// be replaced plus the new value; a failure is Overflow or Underflow. (What a failed
/// `with_replace` leaves behind is not judged here: it discards before it pushes.)
fn drain_ints(st: &push::push_vm::push_state::PushState) -> Vec<i64> {
    use push::push_vm::stack::HasStack;
    let mut c = st.stack::<i64>().clone();
    let mut out = Vec::with_capacity(c.size());
    while let Ok(x) = c.pop() {
        out.push(x);
    }
    out.reverse();
    out
}

fn state_level_insertions(seed: u64, rounds: usize, rep: &mut Report) {
    use push::push_vm::{push_state::PushState, stack::{HasStack, PushOnto, StackPush}};
    use push::{error::InstructionResult, instruction::instruction_error::PushInstructionError};
    let mut g = Xo::derive(seed, "C04-state-level", 0);
    for _ in 0..rounds {
        let filled = g.usize_below(7);
        let cap0 = filled + g.usize_below(3);
        let cap1 = g.usize_below(filled + 3); // the maximum afterwards: below, at or above the fill
        let vals: Vec<i64> = (0..filled as i64).map(|i| 100 + i).collect(); // bottom first
        let n = g.usize_below(4);
        let route = g.below(5);
        let make = || -> Option<PushState> {
            // the builder takes the values top first
            let mut st = PushState::builder().with_max_stack_size(cap0.max(1)).with_no_program().with_int_values(vals.iter().rev().copied()).ok()?.with_instruction_step_limit(10).build();
            st.stack_mut::<i64>().set_max_stack_size(cap1);
            Some(st)
        };
        let Some(st) = make() else { continue };
        let before: Vec<i64> = drain_ints(&st);
        let r = catch(|| -> Result<PushState, String> {
            let res: InstructionResult<PushState, PushInstructionError> = match route {
                0 => st.with_push(7i64).map_err(|e| e.map_inner_err(Into::into)),
                1 => st.with_replace(n, 7i64).map_err(|e| e.map_inner_err(Into::into)),
                2 => Ok::<i64, StackError>(7).push_onto(st),
                3 => Ok::<i64, StackError>(7).replace_on(n, st),
                _ => Ok::<PushState, push::error::Error<PushState, PushInstructionError>>(st).with_stack_push(7i64),
            };
            res.map_err(|e| format!("{:?}", e.error()))
        });
        rep.eval();
        let route_name = ["HasStack::with_push", "HasStack::with_replace", "PushOnto::push_onto", "PushOnto::replace_on", "StackPush::with_stack_push"][route as usize];
        rep.count(&format!("state-level:{route_name}"));
        rep.distinct(mix(fnv(route_name.as_bytes()), ((filled * 64 + cap1) * 8 + n) as u64));
        let replaces = if route == 1 || route == 3 { n } else { 0 };
        let problem = match &r {
            Err(p) => Some(format!("panic: {p}")),
            Ok(Ok(after)) => {
                let now: Vec<i64> = drain_ints(after);
                let max = after.stack::<i64>().max_stack_size();
                let mut want = before.clone();
                if replaces > want.len() {
                    Some(format!("replacing {replaces} of {} values succeeded", want.len()))
                } else {
                    want.truncate(want.len() - replaces);
                    want.push(7);
                    if now.len() > max {
                        Some(format!("the insertion succeeded and left {} values on a stack whose maximum is {max}", now.len()))
                    } else if now != want {
                        Some(format!("contents bottom-first {now:?}, expected {want:?}"))
                    } else if max != cap1 {
                        Some(format!("the maximum changed from {cap1} to {max}"))
                    } else {
                        None
                    }
                }
            }
            Ok(Err(text)) => (!(text.contains("Overflow") || text.contains("Underflow"))).then(|| format!("an error other than Overflow / Underflow: {text}")),
        };
        if let Some(why) = problem {
            rep.violation(format!("C04/state-level/{route_name}"), || json!({"route": route_name, "contents_bottom_first": before, "maximum_when_filled": cap0.max(1), "maximum_afterwards": cap1, "values_to_replace": replaces, "why": why}));
        }
    }
}

pub fn run(args: &Args) -> i32 {
    let alpha = alphabet();
    let max_depth = args.tier.pick(5, 6);
    let caps: Vec<usize> = (0..=4).collect();
    // shard on (initial capacity, first operation)
    let shards: Vec<(usize, usize)> = caps
        .iter()
        .flat_map(|c| (0..alpha.len()).map(move |i| (*c, i)))
        .collect();
    let mut rep = run_shards(shards.len(), args.threads, 8 << 20, |si| {
        let (cap0, first) = shards[si];
        let mut rep = Report::new();
        let mut real: Stack<u32> = Stack::default();
        real.set_max_stack_size(cap0);
        let model = Model {
            v: Vec::new(),
            cap: cap0,
        };
        // first op fixed by shard
        let op = alpha[first];
        let mut r = real.clone();
        let mut m = model.clone();
        let mut ser = 0u32;
        let ins = step(&mut r, &mut m, op, &mut ser, &[], cap0, &mut rep);
        if ins {
            rep.distinct_by_construction(1);
        }
        let mut dfs = Dfs {
            alphabet: &alpha,
            max_depth,
            cap0,
            rep: &mut rep,
            path: vec![op],
        };
        dfs.go(&r, &m, ser, ins);
        rep
    });
    let exhaustive_ops = rep.evaluations;

    // a freshly defaulted stack: empty, not full, unbounded
    {
        rep.eval();
        let mut s: Stack<u32> = Stack::default();
        let fresh_ok = s.size() == 0 && s.is_empty() && !s.is_full() && s.max_stack_size() == usize::MAX;
        let grows = (0..5_000u32).all(|i| s.push(i).is_ok()) && s.size() == 5_000 && s.top().ok() == Some(&4_999);
        if !fresh_ok || !grows {
            rep.violation("C04/default-stack", || json!({"empty_unbounded_when_fresh": fresh_ok, "accepts_5000_pushes": grows, "max_stack_size": s.max_stack_size().to_string()}));
        }
    }
    state_level_insertions(args.seed, args.tier.pick(200_000, 2_000_000), &mut rep);
    // random long histories, two element types
    let n_hist = args.tier.pick(64, 1024);
    let len = 10_000;
    let before_live = LIVE.load(Ordering::SeqCst);
    let rnd = run_shards(n_hist, args.threads, 8 << 20, |i| {
        let mut rep = Report::new();
        if i % 2 == 0 {
            random_history::<u32>(args.seed, i as u64, len, &mut rep);
        } else {
            random_history::<Tracked>(args.seed, i as u64, len, &mut rep);
        }
        rep
    });
    rep.merge(rnd);
    let after_live = LIVE.load(Ordering::SeqCst);
    rep.eval();
    if after_live != before_live {
        rep.violation("C04/conservation/live-count", || {
            json!({"live_elements_before": before_live, "live_elements_after_all_stacks_dropped": after_live,
                   "meaning": "elements were leaked (>0) or dropped twice (<0) by stack operations"})
        });
    }
    rep.table(
        "exhaustive_scope",
        json!({"max_history_length": max_depth, "initial_capacities": caps, "alphabet": alpha.iter().map(|o| o.render()).collect::<Vec<_>>(),
               "operations_executed_and_checked": exhaustive_ops}),
    );
    rep.table(
        "random_scope",
        json!({"histories": n_hist, "operations_each": len, "element_types": ["u32", "drop-counting Tracked"],
               "live_count_delta": after_live - before_live}),
    );
    rep.finish(
        args,
        "exploration",
        "every history (sequence of stack operations) up to the stated length from every initial capacity 0..=4 is enumerated without repetition (distinct by construction) and counted as non-trivial when it contains at least one successful insertion; random 10^4-operation histories with exact-size iterators claiming up to usize::MAX items that must be refused without allocating (every fourth: 625 operations on stacks of up to 70000 elements with bulk operations of up to 3000 items) are distinct by hash of their operation sequence",
        true,
        &[
            "the Vec+capacity model is the intended semantics of the statement",
            "zero-element insertion into an over-full stack is not judged (statement silent)",
            "contents are observed through Stack==Vec and by popping a clone",
        ],
    )
}
