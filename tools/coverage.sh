#!/usr/bin/env bash
# Coverage of /repo's library sources reached by the monitors' workloads.
#   tools/coverage.sh [quick|thorough] [PROP ...]      (default: quick, all properties)
# Builds the harness with -Cinstrument-coverage (nightly toolchain, whose llvm-tools match),
# in its own target dir, runs the named checks, merges the profiles and writes
#   /verif/work/coverage/summary.txt      per-file line/region coverage of /repo/packages/*/src
#   /verif/work/coverage/uncovered.txt    every uncovered line of those files (non-test code)
# This is a *reach* report for DESIGN.md ("which code the workloads drive"); it decides nothing.
set -eu
ROOT="$(cd "$(dirname "${BASH_SOURCE[0]}")/.." && pwd)"
TIER="${1:-quick}"; shift || true
PROPS=("$@"); if [ ${#PROPS[@]} -eq 0 ]; then PROPS=(C01 C02 C03 C04 C05 C06 C07 C08 C10 C11 C12 C13 C14 C15 C16 C17 C18 C19 C09); fi
BIN_DIR="$(dirname "$(rustup +nightly which rustc)")/../lib/rustlib/x86_64-unknown-linux-gnu/bin"
OUT="$ROOT/work/coverage"; rm -rf "$OUT"; mkdir -p "$OUT/prof"
export VERIF_THREADS="${COV_THREADS:-1}"   # shared non-atomic counters: many threads only bounce cache lines
export CARGO_NET_OFFLINE=true VERIF_ROOT="$ROOT/work/coverage/root"
mkdir -p "$VERIF_ROOT/evidence" "$VERIF_ROOT/replays" "$VERIF_ROOT/work"
cp "$ROOT/known_findings.json" "$VERIF_ROOT/"; ln -sfn "$ROOT/harness" "$VERIF_ROOT/harness"
cd "$ROOT/harness"
export CARGO_TARGET_DIR="$ROOT/harness/target/cov"
# proc-macros are instrumented too and write a profile from wherever rustc runs them: send those to a junk dir
mkdir -p "$OUT/buildprof"
LLVM_PROFILE_FILE="$OUT/buildprof/%p-%m.profraw" RUSTFLAGS="-Cinstrument-coverage" cargo +nightly build --offline --profile verif --workspace 2>&1 | tail -2
export LLVM_PROFILE_FILE="$OUT/prof/%p-%m.profraw"
for p in "${PROPS[@]}"; do
  case "$p" in C09) b=vh-gen;; *) b=$(echo "$p" | tr 'C' 'c');; esac
  echo "== $p"; VERIF_NO_MIRI=1 "$CARGO_TARGET_DIR/verif/$b" "$p" --tier "$TIER" 2>&1 | tail -1 || true
done
"$BIN_DIR/llvm-profdata" merge -sparse "$OUT"/prof/*.profraw -o "$OUT/all.profdata"
OBJS=(); for b in c01 c02 c03 c04 c05 c06 c07 c08 c10 c11 c12 c13 c14 c15 c16 c17 c18 c19 vh-gen; do OBJS+=(-object "$CARGO_TARGET_DIR/verif/$b"); done
"$BIN_DIR/llvm-cov" report "${OBJS[@]}" -instr-profile="$OUT/all.profdata" \
   -ignore-filename-regex='(\.cargo|rustc|/verif/)' 2>/dev/null | sed 's#/repo/packages/##' > "$OUT/summary.txt"
"$BIN_DIR/llvm-cov" show "${OBJS[@]}" -instr-profile="$OUT/all.profdata" \
   -ignore-filename-regex='(\.cargo|rustc|/verif/)' -show-line-counts-or-regions 2>/dev/null > "$OUT/show.txt"
python3 - "$OUT/show.txt" > "$OUT/uncovered.txt" <<'PY'
import re, sys
cur = None; in_test = False; depth = 0
for line in open(sys.argv[1], errors="replace"):
    m = re.match(r"^(/repo/\S+):$", line)
    if m: cur = m.group(1); in_test = False; continue
    m = re.match(r"^\s*(\d+)\|\s*([0-9.kMG]+)?\|(.*)$", line)
    if not m or cur is None: continue
    ln, cnt, src = int(m.group(1)), m.group(2), m.group(3)
    if re.search(r"#\[cfg\(test\)\]", src): in_test = True
    if in_test: continue
    if cnt == "0": print(f"{cur}:{ln}: {src.rstrip()}")
PY
rm -rf "$OUT/prof" "$OUT/buildprof"
wc -l "$OUT/uncovered.txt"; tail -1 "$OUT/summary.txt"
