#!/usr/bin/env bash
# usage: tools/try_mutant.sh <patch.diff> <PROP> [PROP...]   (env TIER=quick|thorough)
# Applies a seeded change to /repo, runs the given checks against it, and always undoes it.
set -u
patch="$1"; shift
tier="${TIER:-quick}"
if [ -n "$(git -C /repo status --porcelain)" ]; then echo "/repo has uncommitted changes or untracked files; refusing"; exit 2; fi
if ! git -C /repo apply "$patch"; then echo "patch does not apply"; exit 2; fi
# undo by reverse-applying (this also removes files the patch created), then make sure nothing is left
trap 'git -C /repo apply -R "$patch" 2>/dev/null; git -C /repo checkout -- . ; git -C /repo clean -fdq -- packages' EXIT
for p in "$@"; do
  log="/tmp/mut-$p.log"
  start=$(date +%s)
  timeout 3000 /verif/check "$p" --tier "$tier" >"$log" 2>&1
  code=$?
  echo "$p exit=$code secs=$(( $(date +%s) - start )) violations=$(grep -c '^VIOLATION' "$log") :: $(grep '^VIOLATION' "$log" | sed 's/.*signature=//; s/ occurrences=.*//' | head -6 | tr '\n' ' ')$(grep -E '^(HARNESS-ERROR|INCONCLUSIVE)' "$log" | head -2 | cut -c1-160)"
done
