#!/usr/bin/env python3
"""Regression over the kept seeded changes, in parallel and without touching /repo.

For every /verif/seeded/<id>/patch.diff the quick check of the property the change breaks is run from
the current /verif sources against a private copy of /repo's HEAD with the patch applied
(tools/devcheck.sh in sandbox /tmp/sbx/reg<k>). Reports every change whose outcome differs from what its
meta.json records (reported / deliberately not reported). Does not rewrite meta.json.

usage: regress_parallel.py [-j N] [ID-prefix ...]
"""
import glob, json, os, re, subprocess, sys, threading, queue, time

args = sys.argv[1:]
jobs = 4
if args[:1] == ["-j"]:
    jobs = int(args[1]); args = args[2:]
only = args
todo = queue.Queue()
for d in sorted(glob.glob("/verif/seeded/C*-m*")):
    sid = os.path.basename(d)
    if only and not any(sid.startswith(o) for o in only):
        continue
    todo.put(d)
lock = threading.Lock()
bad, done = [], [0]
total = todo.qsize()
t0 = time.time()

def worker(k):
    while True:
        try:
            d = todo.get_nowait()
        except queue.Empty:
            return
        sid = os.path.basename(d)
        meta = json.load(open(f"{d}/meta.json"))
        prop = meta["breaks_property"]
        expect = bool(meta.get("caught_by_own_property_check"))
        try:
            r = subprocess.run(["/verif/tools/devcheck.sh", "-s", f"{os.environ.get('REG_PREFIX', 'reg')}{k}", "-p", f"{d}/patch.diff", prop, "--tier", "quick"],
                               capture_output=True, text=True, timeout=3600)
            out, rc = r.stdout, r.returncode
        except subprocess.TimeoutExpired:
            out, rc = "", -1
        sigs = re.findall(r"^VIOLATION .*signature=(\S+)", out, re.M)
        occ = [int(x) for x in re.findall(r"^VIOLATION .*occurrences=(\d+)", out, re.M)]
        got = rc == 1 and bool(sigs)
        with lock:
            done[0] += 1
            tag = "ok" if got == expect else "CHANGED"
            if got != expect:
                bad.append((sid, rc, sigs[:3]))
            print(f"[{done[0]}/{total} {int(time.time()-t0)}s] {sid} {tag} rc={rc} {'reported' if got else 'not reported'} max_occurrences={max(occ) if occ else 0} {sigs[:2]}", flush=True)

ts = [threading.Thread(target=worker, args=(k,)) for k in range(jobs)]
for t in ts: t.start()
for t in ts: t.join()
print("changed:", bad)
