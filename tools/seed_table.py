#!/usr/bin/env python3
"""Rewrites the table between <!-- SEEDED-TABLE-BEGIN --> and <!-- SEEDED-TABLE-END --> in
DESIGN.md from /verif/seeded/*/meta.json (what each seeded change does, which check reports it,
with which first signature, and whether a strengthening was needed)."""
import glob, json, os, re
root = os.path.dirname(os.path.dirname(os.path.abspath(__file__)))
rows, missed, unreported = [], [], []
for d in sorted(glob.glob(f"{root}/seeded/C*-m*")):
    m = json.load(open(f"{d}/meta.json"))
    readme = open(f"{d}/README.md").read() if os.path.exists(f"{d}/README.md") else ""
    title = ""
    for line in readme.splitlines():
        if line.startswith("#"):
            title = re.sub(r"^#+\s*", "", line)
            title = re.sub(r"^(C\d+\s*/\s*)?m\d+\s*[—–-]+\s*", "", title).strip()
            break
    title = title.replace("|", "/")
    res = m["checks_run_against_it"]["results"]
    caught = []
    for p, r in res.items():
        if r["exit"] == 1:
            sig = (r["first_signatures"] or ["?"])[0]
            more = r["violation_signatures"] - 1
            caught.append(f"{p}: `{sig}`" + (f" (+{more} more)" if more > 0 else ""))
    own = m["caught_by_own_property_check"]
    rows.append(f"| {m['id']} | {title} | {'; '.join(caught) if caught else '**not reported** (see below)'} |")
    if "not_reported_because" in m:
        unreported.append(f"* **{m['id']}** — {m['not_reported_because']}.")
    if "note" in m:
        missed.append(f"* **{m['id']}** — {m['note']}.")
    if not own and "not_reported_because" not in m:
        missed.append(f"* **{m['id']}** — NOT reported by its own property's check.")
table = "| id | what the change does | caught by (first signature) |\n|----|----------------------|-----------------------------|\n" + "\n".join(rows)
table += f"\n\n**{sum('not reported' not in r for r in rows)} of {len(rows)} seeded changes are reported by the check of the property they break.**\n\nNot reported, and why:\n\n" + "\n".join(unreported) + f"\n\n\nStrengthenings that seeded changes led to (each was missed by the version of the machinery it was first tried against):\n\n" + "\n".join(missed) + "\n"
p = f"{root}/DESIGN.md"
s = open(p).read()
b, e = "<!-- SEEDED-TABLE-BEGIN -->", "<!-- SEEDED-TABLE-END -->"
if b in s:
    s = s[: s.index(b) + len(b)] + "\n" + table + s[s.index(e):]
    open(p, "w").write(s)
    print("table rewritten:", len(rows), "rows")
else:
    print(table)
