#!/usr/bin/env bash
# Development helper: run a check from the *current /verif sources* against a private copy of
# /repo's HEAD (optionally with a patch applied), without touching /repo or /verif/harness/target.
#   tools/devcheck.sh [-s NAME] [-p patch.diff] <PROP> [check args...]
# Used while a seeded change is applied to /repo by another job, and to try patches in isolation.
set -u
NAME=dev; PATCH=""
while getopts "s:p:" o; do case $o in s) NAME=$OPTARG;; p) PATCH=$OPTARG;; esac; done; shift $((OPTIND-1))
SB=/tmp/sbx/$NAME
mkdir -p $SB/verif
rm -rf $SB/stage; mkdir -p $SB/stage $SB/repo
git -C /repo archive HEAD | tar -x -C $SB/stage
if [ -n "$PATCH" ]; then (cd $SB/stage && patch -p1 -s < "$PATCH") || { echo "patch failed"; exit 2; }; fi
# checksum sync without times: files whose content changed (patched now, or un-patched again)
# get a fresh mtime, so cargo notices both directions
rsync -rc --delete --exclude target $SB/stage/ $SB/repo/
rsync -a --delete --exclude target --exclude work --exclude replays --exclude evidence --exclude seeded --exclude .git ${VERIF_SRC:-/verif}/ $SB/verif/
sed -i "s#\"/repo/#\"$SB/repo/#" $SB/verif/harness/Cargo.toml $SB/verif/harness/c19/*/Cargo.toml $SB/verif/harness/c17/*/Cargo.toml
# keep file mtimes of unchanged repo files stable so cargo does not rebuild everything
VERIF_ROOT=$SB/verif exec $SB/verif/check "$@"
