#!/usr/bin/env python3
"""Prepare one scratch worktree of /repo per property with a TASK.md for a seeding sub-agent.

usage: tools/seed_tasks.py <mA> <mB> <focus-A> <focus-B> [IDs...]

Creates /tmp/wt-<ID> (git worktree of /repo at HEAD, detached; an existing one is removed first)
and writes TASK.md from tools/seed_task_template.md and the property's text. Nothing from /verif
other than the property's own text goes into the worktree.
"""
import json, subprocess, sys, os, shutil

ROOT = os.path.dirname(os.path.dirname(os.path.abspath(__file__)))
ma, mb, fa, fb = sys.argv[1:5]
ids = sys.argv[5:]
props = [json.loads(l) for l in open(os.path.join(ROOT, "properties.jsonl")) if l.strip()]
tmpl = open(os.path.join(ROOT, "tools/seed_task_template.md")).read()
# round-6 wording of item 4
tmpl = tmpl.replace("4. **needs something specific to manifest** — ", "4. **needs something specific to manifest** and is nevertheless a **clear** violation of the statement's own words (not of a stricter reading, and not something that only an observer who knows the implementation's internals could object to) — ")
for p in props:
    if ids and p["id"] not in ids:
        continue
    wt = f"/tmp/wt-{p['id']}"
    subprocess.run(["git", "-C", "/repo", "worktree", "remove", "--force", wt], capture_output=True)
    shutil.rmtree(wt, ignore_errors=True)
    subprocess.run(["git", "-C", "/repo", "worktree", "prune"], check=True)
    subprocess.run(["git", "-C", "/repo", "worktree", "add", "--detach", wt, "HEAD"], check=True, capture_output=True)
    t = tmpl.replace("m3", ma).replace("m4", mb)
    t = (t.replace("{WT}", wt).replace("{F1}", fa).replace("{F2}", fb).replace("{ID}", p["id"]).replace("{TITLE}", p["title"])
          .replace("{STATEMENT}", p["statement"]).replace("{QUANT}", p["quantifier"]["text"] if isinstance(p["quantifier"], dict) else p["quantifier"]).replace("{WHY}", p["why_tests_cant"])
          .replace("{FILES}", ", ".join(p["anchors"]["files"])))
    open(os.path.join(wt, "TASK.md"), "w").write(t)
    print(wt)
