#!/usr/bin/env python3
"""Confirm a seeded change independently, in its scratch worktree:
   (1) the patch applies to the clean tree, (2) the existing suite still passes with it,
   (3) the demonstration passes without the change and fails with it.
usage: confirm_mutant.py /tmp/wt-Cxx m1"""
import os, re, subprocess, sys, glob, shutil

wt, m = sys.argv[1], sys.argv[2]
md = os.path.join(wt, "MUTANTS", m)
readme = open(os.path.join(md, "README.md")).read()
mo = re.search(r"packages/([a-z-]+)/tests/([A-Za-z0-9_]+)\.rs", readme)
demo_src = None
for cand in ["demo.rs"] + [os.path.basename(p) for p in glob.glob(os.path.join(md, "*.rs"))]:
    if os.path.exists(os.path.join(md, cand)):
        demo_src = os.path.join(md, cand); break
if not mo or not demo_src:
    print("CANNOT-LOCATE-DEMO", mo, demo_src); sys.exit(2)
crate_dir, test_name = mo.group(1), mo.group(2)
pkg = {"ec-core": "ec-core", "ec-linear": "ec-linear", "push": "push", "push-macros": "push_macros", "ec-macros": "ec_macros"}[crate_dir]
tests_dir = os.path.join(wt, "packages", crate_dir, "tests")
created_dir = not os.path.isdir(tests_dir)
dest = os.path.join(tests_dir, test_name + ".rs")

def sh(cmd, **kw):
    return subprocess.run(cmd, shell=True, cwd=wt, capture_output=True, text=True, **kw)

def clean():
    sh("git checkout -- .")
    if os.path.exists(dest): os.remove(dest)
    if created_dir and os.path.isdir(tests_dir) and not os.listdir(tests_dir): os.rmdir(tests_dir)

def run_demo():
    os.makedirs(tests_dir, exist_ok=True)
    shutil.copy(demo_src, dest)
    r = sh(f"cargo test -p {pkg} --offline --test {test_name} 2>&1 | tail -40", timeout=3000)
    ok = "test result: ok" in r.stdout
    failed = "test result: FAILED" in r.stdout or "error[" in r.stdout or "could not compile" in r.stdout or "panicked" in r.stdout and "test result: ok" not in r.stdout
    os.remove(dest)
    return ok and not failed, r.stdout[-600:]

clean()
res = {}
ok, out = run_demo(); res["demo_passes_on_clean_tree"] = ok
if not ok: print(out)
a = sh(f"git apply {md}/patch.diff"); res["patch_applies"] = a.returncode == 0
if a.returncode != 0: print(a.stderr)
ok, out = run_demo(); res["demo_fails_with_change"] = not ok
if ok: print(out)
r = sh("cargo test --workspace --no-fail-fast --offline 2>&1 | grep -E '^test result|FAILED|error\\[|could not compile'", timeout=6000)
lines = r.stdout.strip().splitlines()
res["suite_passes_with_change"] = bool(lines) and all(l.startswith("test result: ok") for l in lines)
if not res["suite_passes_with_change"]: print(r.stdout[-800:])
clean()
print("CONFIRM", os.path.basename(wt), m, res, "ALL-OK" if all(res.values()) else "PROBLEM")
