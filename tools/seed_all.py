#!/usr/bin/env python3
"""Re-run every kept seeded change against its property's quick check and (re)write
/verif/seeded/<id>-<m>/{patch.diff, demo*, README.md, meta.json}."""
import json, os, re, shutil, subprocess, sys, glob

EXTRA = {  # other checks that also see a change
 "C01-m2": ["C02", "C03"], "C03-m2": ["C01"], "C07-m2": ["C15"], "C14-m8": ["C17"], "C01-m10": ["C03"], "C11-m9": ["C12"], "C17-m7": ["C06"], "C10-m2": ["C12"], "C12-m1": ["C10"], "C19-m1": ["C04"],
}
UNREPORTED = {
 "C01-m10": "not reported, deliberately: the change only alters what happens when an instruction's operands are missing *and* its destination stack is full at the same time. The statement does not say which of the two obstacles wins there, and the library itself is not uniform (the integer and float predicates abort in that state, the conversions skip), so the reference model accepts both outcomes; judging one of them would raise alarms on the unchanged tree",
 "C11-m9": "not reported, deliberately: every clause of the statement still holds (parent genes in order, at most one new gene per position, every new gene handed out by the supplied generator during this call, at most once). What changes is *when* the generator is consulted relative to the deletion coin; observing that needs a genome whose iterator publishes the position being processed, which would also reject a correct eager implementation",
 "C12-m10": "not reported: the applied probability differs from the configured one by at most 6e-8 (relative), nine orders of magnitude below the resolution of the statistical monitor (stated in the evidence). Deciding it needs an exact threshold measurement that assumes the sampler is a monotone function of a single 64-bit draw - an assumption about the implementation, not part of the property",
}
STRENGTHENED = {
 "C01-m9": "missed at first: only the three ASCII PrintChar instances wired into PushInstruction were performed; PrintChar::<C> is now performed directly for 14 characters of every UTF-8 length, between other output",
 "C04-m10": "missed at first: try_extend only ever got iterators with a small lower size bound; it now also gets an endless iterator (size hint usize::MAX) on bounded stacks: Overflow, contents untouched, no attempt to reserve what the iterator announces",
 "C09-m10": "missed at first: random words were only required to be distinct within one step; every word handed to a child maker must now be new across all steps, pools and configurations of the process (a generator re-seeded identically per pool replays)",
 "C11-m10": "missed at first: the custom gene's negation was an involution, so being negated twice looked like not being negated; it now counts how often it was applied (at most once; exactly once at rate 1, never at rate 0)",
 "C13-m9": "missed at first: C13 only selected from non-empty populations; it now also selects from an empty one (an all-zero combination still reports its zero-weight error, any other delegates to exactly one positive-weight member)",
 "C15-m9": "missed at first: Score / Error were only instantiated with totally ordered inner types; they now also wrap f64 with NaNs, infinities and signed zeros (every operator must agree with partial_cmp, all false where it is None), u64 and i128 extremes",
 "C07-m12": "missed at first, as a hang: on a population with fewer distinct values than the tournament size the changed loop never terminates, and the check would have sat there until an outer time-out without a verdict. Every check now has a hang watchdog: a worker thread that burns more than the CPU budget (150 s quick, 900 s thorough; largest gap seen on the unchanged tree < 1 s) inside one monitored evaluation is reported as <ID>/hang with the shard it was working on",
 "C10-m11": "missed at first, as a crash of the monitor itself: the oracle of crossover_segment indexed the genomes after the call assuming their lengths were unchanged, and the change swaps whole buffers of different lengths; lengths are now compared before contents",
 "C15-m11": "missed at first: individuals and result collections were only built over totally ordered results; they now also wrap TestResult<f64, f64> (score against error, NaN) and plain f64, alone and nested, and every comparison operator must agree with the results' own partial order - incomparable stays incomparable",
 "C16-m11": "missed at first: in the call histories on one operator value every call succeeded; the call in the middle is now also one on an empty population and one that fails part-way (an individual with fewer results than lexicase looks at), and must leave nothing behind in the operator value",
 "C17-m11": "missed at first: dynamic weighted lists were never nested; lists inside lists (depth 1-3, innermost failing with its own zero-weight error, with a member's cause chain, or on an empty population) must now deliver the innermost error wrapped exactly once per level",
 "C01-m13": "missed at first: the monitors read the printed output once, from a clone of the final state; C01 now also reads it twice from the same state, prints more (directly and by running a program on that state) and reads again - reading is an observation and must not change what is there",
 "C06-m14": "missed at first: C06 built every dynamic weighted list completely before its first selection; it now also uses lists while they are being built (selections - failing ones on an all-zero list or an empty population included - between extensions), each judged against the weights the list has at that moment",
 "C10-m14": "missed at first: reversed ranges (start > end) were not judged at all because the statement does not say whether they are an error or an empty exchange; they are still not judged for that, but must not panic and must not modify either genome",
 "C12-m14": "missed at first: generators were only used as constructed; the public configuration fields (BoolGenerator::true_probability here; the size and element generator of a collection generator in C18) are now also reassigned after construction and after earlier samples, and what is drawn must follow the value the field has at that moment",
 "C04-m16": "missed at first: C04 drove the Stack type only; insertion through the state-level helpers (HasStack::with_push / with_replace, PushOnto::push_onto / replace_on, StackPush::with_stack_push) is now driven on states whose maximum was lowered after filling: a successful insertion must leave the stack within its current maximum with exactly the expected contents",
 "C19-m15": "missed at first: the builder was only given materialised value lists; it is now also given exact-size iterators that merely announce up to usize::MAX items (repeat_n, a mapped range), onto empty and already loaded stacks, bounded and unbounded - an overflow error from both, never a panic or an attempt to reserve what was announced (C04 had this for push_many / try_extend since round 5)",
 "C03-m17": "missed at first (and C03-m1, the same defect, had meanwhile slipped out again - found by the parallel regression): whether a random program happens to put i64::MIN and -1 under an Int.Mod depended on the seed. C03 now sweeps every instruction shape over all pairs (triples for Clamp) of the boundary operand pools on roomy stacks: no panic, nothing fatal",
 "C18-m18": "missed at first: Bitstring::random was only judged by its length (its bit statistics belong to C12, which reports this change); C18 now also requires every position of 256 random bitstrings (sizes on both sides of the 64-bit word boundaries) to show both values - a position that is never drawn shows a single one",
 "C19-m17": "missed at first: the sizes handed to the builder were small; they now also cover 0, 1, the neighbourhoods of 2^32 and 2^63 and usize::MAX, globally, individually and in last-set-wins sequences, on PushState and on a macro fixture",
 "C12-m19": "missed at first: the default close probability 1/(n+1) was only measured for n <= 31 instructions; it is now also measured for instruction sets of 200000 and 2^20-1 instructions (16e6 genes each in the quick tier, enough to tell 1/2^20 from 1/65535)",
 "C13-m20": "missed at first: weights of the dynamic list were taken from the same 32-bit multisets as the static chains although it accepts usize weights; proportionality is now also measured with weights beyond 2^32 (3*2^32 : 2^32, 2^40 : 2^31, usize::MAX/2 : usize::MAX/4 : 1, ...)",
 "C12-m21": "missed at first: flip rates were 0, 0.01 ... 1; rates at the small end of the range (1e-3 down to 2^-24, 2^-25, 1e-9, 1e-20 and f32::MIN_POSITIVE) are now measured too - a rate that small means practically never, and a sampler that computes with 1 - rate in f32 turns it into always",
 "C06-m24": "missed at first: every individual in C06's populations carried a unique id, so no two compared equal; populations of plain values with many ties (all equal, two values, ...) are now selected from with every tournament size - a selector that waits for k distinct values never returns and is reported by the hang watchdog with the population as context",
 "C08-m24": "missed at first: at most 34 cases; lexicase now also runs over 1000, 50000 and 300000 cases with identical individuals that stay tied through all of them (a filter that recurses per case exhausts the stack; reported as C08/aborted by the supervising parent)",
 "C09-m24": "missed at first (the check ended INCONCLUSIVE, exit 3): a lock held across the child maker deadlocks as soon as the operator re-enters the pool, which burns no CPU for the hang watchdog to see; C09 now has child makers that re-enter the rayon pool and a stall detector (a step in progress, no step event and < 1 CPU-second in 120 s)",
 "C10-m24": "missed at first: ranges passed to crossover_segment ended at most two past the genomes; ranges of astronomic length (0..usize::MAX, 2..2^40, ...) are now passed too - refused as errors, never sized after",
 "C11-m24": "missed at first: UMAD parents had at most 4097 genes; a million-gene parent is now mutated at deletion rates 1 and 0.999999 (long runs in which nothing survives), addition 1 / deletion 1, addition 1 / deletion 0 and a middle setting",
 "C12-m24": "missed at first: WithRate was measured on at most 1000 genes; 4- and 6-million-gene genomes are now flipped at rates 0.5, 1 and 0.01 (aggregated) - a mutation whose cost grows with the square of the length does not complete one evaluation within the hang budget",
 "C14-m24": "missed at first: mapped vectors had at most 100 elements; vectors of 200000 and a million elements are now mapped (with and without a failing element): every element in order, one draw each, stop at the first failure",
 "C15-m24": "missed at first: result collections were built from exact-size sources only; they are now also collected from take_while / map_while / scan over astronomically long ranges, filter and chains - the total is the sum of what is actually yielded",
 "C17-m23": "missed at first, as a harness build failure: the erased selector impls gained a bound on the error type that the harness's own error type does not satisfy; the compile-time flavour probe now also instantiates every (trait x pointer x auto-trait) flavour with a user-defined error type (280 functions) and reports a rejected one as C17/flavour-not-supported before the harness is built",
 "C18-m24": "missed at first: collection elements always carried data; collections of zero-sized elements (unit, a marker struct) must now have exactly the requested length with the generator asked exactly that often (a fill loop steered by capacity never ends for them)",
 "C19-m23": "missed at first: the overflow error of an over-long program was only looked at for programs given as PushProgram values; the same program is now also given as PushInstruction and IntInstruction values and all three must report the same error",
 "C01-m26": "missed at first (the check ended INCONCLUSIVE): the setter of a stack's maximum reserved that much memory, and the harness calls it itself - when assembling the initial state and when lifting the limits to probe the inputs - outside any monitored call. Both are monitored calls now: a panic while assembling a legal state is C01/initial-state/builder-panicked, a panic while lifting a limit shows as an input mismatch, a death is attributed by the supervisor",
 "C05-m26": "missed at first: long genomes were deep ones; genomes of 100000 to a million genes with nesting depth <= 2 are now translated too (a translation that clones the remaining genes per gene is quadratic and is reported as C05/hang)",
 "C06-m26": "missed at first: tournament sizes went a few past the population; sizes of 2^32+1, 2^40, 2^60 and usize::MAX on small populations must report the documented size error, nothing being reserved after them",
 "C07-m26": "missed at first: populations had at most 100 members; tournaments of 1, 2, 7, n/2+1, 0.9n, n-1 and n members are now drawn from 5000 and 500000 distinct values (a sampler that redraws on collisions needs n^2 log n draws for k = n-1)",
 "C10-m26": "missed at first: parents had at most 1000 genes; complementary parents of 2^22 genes are now recombined by both operators in both flavours (same length, one contiguous segment / a fair share from each parent)",
 "C11-m26": "missed at first: long genomes were only flipped at rate 0 and by the 1/length mutator; three million genes are now flipped at rates 0, 0.5 and 1 in both flavours",
 "C12-m26": "missed at first: UMAD rates were measured on at most 40 genes; deletion and addition frequencies are now also measured on a two-million-gene parent",
 "C14-m26": "missed at first: inputs to a repetition were small; an input that owns 1 GiB (its clone reserves without touching) is now repeated 64 times under the supervisor's address-space limit - holding all copies at once exceeds it and is reported as C14/aborted",
 "C19-m26": "missed at first: only value lists were supplied lazily with an astronomic announced length; programs are now too (a mapped range, repeat_n of an instruction, a macro fixture)",
 "C15-m10": "missed at first: copies were never made through clone_from; EcIndividual and TestResults are now also copied with clone_from and Vec::clone_from (overwriting existing elements) and must equal their source",
 "C16-m9": "missed at first, as a harness build failure: the change adds Send + Sync bounds to Map's Vec impl, which C14's Rc-based probes do not satisfy, and all ec monitors lived in one binary. Every property now has its own binary, and C16's registry maps an operator over vectors of up to 2049 genomes",
 "C17-m10": "missed at first: the member errors used behind DynWeighted had no cause chain; a member whose error has a two-level source chain is now used and the whole chain must be reachable through source() from what the list reports",
 "C18-m10": "missed at first: collection generators were never nested; nested generators with different inner and outer sizes are now built by method call on a generator, through the trait, with Generator::new and owning",
 "C19-m10": "missed at first: no fixture had fields the macro knows nothing about; the Extra fixture has such fields and a hand-written Default, and the built state must keep their values (Crossed: builder names that are each other's field names)",
 "C04-m7": "missed at first: the monitor trusted `Stack == Vec` as its view of the contents; it now cross-checks that view against the contents obtained by popping a clone (equal to exactly them: not to a proper prefix, an extension, or a same-length sequence differing in one place; Vec, slice and array forms)",
 "C05-m7": "missed at first: genomes always reached the translation through Plushy::new(Vec); they now go through every way of building a Plushy (Vec, iterators without a size hint, iterators whose honest upper bound is astronomically large, FromIterator, chained iterators)",
 "C06-m8": "missed at first: dynamic lists only ever got weights that fit in 32 bits; C06 now also builds them (flat and nested) from usize weights whose total exceeds usize::MAX: an error or a member, never a panic",
 "C09-m8": "missed at first, as INCONCLUSIVE: a panic inside the step escaped the monitor and was reported as a harness problem; a panicking serial_next / par_next is now caught and reported as C09/<mode>/panic",
 "C10-m8": "missed at first by an over-cautious exclusion: empty ranges beyond the end of a genome were exercised but not judged; an empty range that lies outside either genome addresses a position outside it and is now required to be an error like any other out-of-range segment",
 "C11-m8": "missed at first: genomes had at most 4097 genes; the bit-flip mutators now also get genomes of 2^24+1 and 2^24+3 genes (sizes an f32 cannot hold exactly)",
 "C12-m7": "missed at first: the 1/length rate was only measured on genomes of up to 1000 genes, where the seeded error is below the resolution; it is now measured (aggregated flip count, one expected flip per mutation) on genomes of 3000, 6000, 11000 and 70000 genes",
 "C13-m7": "missed at first: large weights only occurred in near-equal pairs; the weight multisets now include large unequal ones (2^30 : 2^31, 2^29 : 2^29 : 2^31, ...)",
 "C14-m8": "missed at first (C17 reported it): C14's leaf probes only drew 64-bit words; they now draw through next_u32 / next_u64 / fill_bytes in turn, in the real terms and in the reference evaluator alike",
 "C17-m7": "missed at first (C06 reported it as a wrong error): C17 now also requires a dynamic weighted list with a single erased member to behave like that member where the outcome does not depend on the stream (same element for deterministic selectors, the member's own error in the reported chain)",
 "C04-m6": "missed at first: bulk insertions were always materialised vectors; C04 now also calls push_many with exact-size iterators that only *claim* up to usize::MAX items and must be refused from the claimed length alone",
 "C05-m6": "missed at first, in the worst way: the change makes the translation of larger genomes blow up, and the monitor's process died (allocation failure) before it could report the structural violations it had already seen; C05 now runs as a supervised child under an address-space limit with a CPU-time hang watchdog, and a death or hang while a genome is being translated is reported with the genomes in flight",
 "C07-m5": "missed at first: EcIndividual populations always had two results each; they now mix result vectors of different lengths",
 "C09-m5": "missed at first: populations were Vec / VecDeque, whose size never changes; C09 now also steps a set-like population (BTreeSet of keyed children) in which equal children collapse, so the next step must make exactly as many children as the population has *now*",
 "C11-m5": "missed at first: Plushy parents consisted of distinct literals only (a payload-free Close cannot be matched to one parent position); parents now contain up to four Close genes and the child is accepted if any order-preserving assignment of its Close genes to parent Close genes makes it legal",
 "C16-m5": "missed at first: the confusable-name pool had no pair differing only in case; it now has (rate, Rate) and (FLAG, flag)",
 "C17-m5": "missed at first: the scripted child maker only drew 32-bit words; probes of all five traits now draw through next_u32, next_u64, fill_bytes of 1 / 5 / 11 bytes and random_bool",
 "C17-m6": "missed at first: no wrapped implementation drew through fill_bytes (see C17-m5)",
 "C19-m6": "missed at first: every fixture wrote all options of a stack in one attribute; the Odd fixture now declares fields in an unusual order and spreads the options over several #[stack(..)] attributes with the instruction name first",
 "C06-m3": "missed by the version the change was written against: C06 only used populations of 0..9 members, the panic needs a tournament of >= 9 on >= 81 individuals; C06 now has a large-population phase (10..4099 members, tournament sizes around 8/16/32/64, sqrt(n), n/2, n-1, n, n+1)",
 "C12-m3": "missed at first: C12 built its gene generators through into_gene_generator / into_gene_generator_with_close_probability only; it now drives all six public constructors (owning and borrowing, explicit and default close probability)",
 "C13-m4": "missed at first: every combination was built completely before its first selection; C13 now also runs staged histories (select, extend with another member, select again) on DynWeighted lists and with_item_and_weight chains, each stage judged against the weights it has at that moment",
 "C15-m3": "missed at first: result vectors had at most 8 entries; every 400th vector now has up to 100003 results with lengths around powers of two (chunked / parallel aggregation paths)",
 "C16-m3": "missed at first: input names were five short identifiers; the shared generator now also declares hostile names (long names agreeing on their first 15/16/23/32/64 bytes, prefixes of each other, case / whitespace / Unicode-normalisation variants, the empty name), which C01, C02, C03 and C16 all use",
 "C16-m4": "missed at first: the registry used one fixed small size per operation; sizes 0..2049 (word and block boundaries included) are now derived from the seed, and every call is repeated after a reversed call history",
 "C17-m3": "not observable by calling (the flavour no longer compiles, and with it the harness): ./check C17 now first observes rustc's verdict on a generated probe crate with one function per (trait x pointer x auto-trait) flavour and reports a rejected flavour as C17/flavour-not-supported",
 "C03-m2": "missed at first: the capacity invariant read the maxima from the observed state, which the change itself had lifted; C03 now judges sizes against the configured maxima and flags any change of a maximum during evaluation",
 "C07-m2": "missed at first: C07 used only its own logging individual type; it now also runs Best / Worst / Tournament on EcIndividual populations with repeated genomes carrying different results",
 "C10-m2": "missed at first: independence was only checked between neighbours and lengths <= 64; C10 and C12 now check the joint frequency at every distance on lengths 70 and 130",
 "C12-m1": "missed at first (same blind spot as C10-m2): fixed by the every-distance independence monitor",
 "C18-m2": "missed at first: uniformity was only checked on collections of 1..8 members; C18 now also checks index residues and bins on a collection of 3*2^22 members",
 "C19-m2": "missed at first: the verdict table only knew whether a function was rejected, and the sequence was still rejected later at build(); C19 now maps rustc's error column to the call that was rejected and requires the *first illegal* call to be the one",
}
only = sys.argv[1:]
os.makedirs("/verif/seeded", exist_ok=True)
for wt in sorted(glob.glob("/tmp/wt-C*")):
    prop = os.path.basename(wt)[3:]
    for m in sorted(os.listdir(os.path.join(wt, "MUTANTS"))) if os.path.isdir(os.path.join(wt, "MUTANTS")) else []:
        sid = f"{prop}-{m}"
        if only and sid not in only and prop not in only: continue
        md = os.path.join(wt, "MUTANTS", m)
        if not os.path.exists(os.path.join(md, "patch.diff")): continue
        conf = subprocess.run(["python3", "/verif/tools/confirm_mutant.py", wt, m], capture_output=True, text=True).stdout.strip().splitlines()[-1]
        ok = conf.endswith("ALL-OK")
        props = [prop] + EXTRA.get(sid, [])
        if os.environ.get("ALSO"): props += [x for x in os.environ["ALSO"].split(",") if x not in props]
        r = subprocess.run(["/verif/tools/try_mutant.sh", os.path.join(md, "patch.diff")] + props, capture_output=True, text=True).stdout
        caught = {}
        for line in r.splitlines():
            mo = re.match(r"(C\d+) exit=(\d+) secs=(\d+) violations=(\d+) :: (.*)", line)
            if mo:
                caught[mo.group(1)] = {"exit": int(mo.group(2)), "secs": int(mo.group(3)), "violation_signatures": int(mo.group(4)), "first_signatures": mo.group(5).split()[:6]}
        dest = f"/verif/seeded/{sid}"
        os.makedirs(dest, exist_ok=True)
        for f in os.listdir(md):
            if f.endswith((".diff", ".rs", ".md", ".sh")):
                shutil.copy(os.path.join(md, f), os.path.join(dest, f))
        readme = open(os.path.join(md, "README.md")).read()
        meta = {
            "id": sid, "breaks_property": prop,
            "description_and_what_it_needs_to_manifest": "see README.md (written by the independent sub-agent that produced the change)",
            "readme_head": " ".join(readme.split())[:600],
            "confirmed_in_scratch_worktree": {"worktree": wt, "result": conf, "all_ok": ok,
                "what_was_run": "tools/confirm_mutant.py: demo on clean tree (must pass), git apply patch.diff, demo (must fail), cargo test --workspace --no-fail-fast --offline with the change (must pass)"},
            "checks_run_against_it": {"how": "tools/try_mutant.sh: git -C /repo apply patch.diff; ./check <prop> --tier quick; git -C /repo checkout -- .", "results": caught},
            "caught_by_own_property_check": caught.get(prop, {}).get("exit") == 1,
        }
        if sid in STRENGTHENED: meta["note"] = STRENGTHENED[sid]
        if sid in UNREPORTED: meta["not_reported_because"] = UNREPORTED[sid]
        json.dump(meta, open(os.path.join(dest, "meta.json"), "w"), indent=1)
        print(sid, "confirmed" if ok else "NOT-CONFIRMED", {k: (v["exit"], v["first_signatures"][:2]) for k, v in caught.items()}, flush=True)
