#!/usr/bin/env python3
"""Regenerates /verif/MANIFEST.json from the table below (single source of truth)."""
import json, os, sys

ROOT = os.path.dirname(os.path.dirname(os.path.abspath(__file__)))

# id -> (category, technique, level text, level note, design ref)
CHECKS = {
 "C09": ("fault_enumeration",
         "runtime monitor: offline checker over the event log of a probe child maker (exactly-once serials, old-population address/fingerprint, live random words, snapshot equality on failure) under native stress with injected delays and fault enumeration over call indices; Miri (tree borrows, many seeds) on every run and ThreadSanitizer in the thorough tier for the unsafe lifetime extension and the rayon hand-off",
         "Sizes {0,1,2,3,5,8,17,64,257,1000} x serial_next / par_next on rayon pools of 1,2,3,4,8,16 x delay {none, yield, spin, sleep} x failure injected at every call index (sizes <= 17; sampled positions and multi-failure sets beyond) x Vec / VecDeque / set-like (BTreeSet of keyed children that collapse) populations over 2-3 consecutive generations (a panicking step is a violation) (1.8e3 configurations, x6 repetitions thorough); the evidence reports distinct interleaving signatures, overlap per pool size and is inconclusive for the schedule dimension if no two calls ever overlapped. Miri: 8 seeds of a 14-configuration workload (quick) / 32 seeds of a 96-configuration workload (thorough); TSan: 480 configurations (thorough). Child makers that re-enter the rayon pool; stall detector for deadlocks (a step in progress, no step event and < 1 CPU-second in 120 s).",
         "Schedules are sampled (stress, pool sizes, delays, Miri seeds, TSan), not enumerated. Stacked Borrows is not used (known crossbeam-epoch false positive); Tree Borrows is.",
         "DESIGN.md §4 C09, §5"),
 "C15": ("exploration",
         "runtime monitor: order-law checker exhaustive over a boundary value pool (pairs and triples) + sum/sequence invariants on random result vectors + recording scorer with serial-numbered genomes",
         "Score/Error/TestResult: reflexivity, antisymmetry, transitivity, agreement of cmp/partial_cmp/<,<=,>,>=,==,!=,max,min over all pairs and triples of a 10-value pool of i64 extremes and repeats, Score ascending, Error reversed, Score-vs-Error incomparable both ways; TestResults/EcIndividual: 2e6 (quick) / 4e7 (thorough) random vector pairs for total = sum, order kept, comparison delegation (From<IntoIterator> and FromIterator; i128 variant; every 400th vector has 9..100003 results with lengths around powers of two); individuals and result collections over partially ordered results (TestResult<f64,f64> score-vs-error, NaN, plain f64; alone and nested) agree with the results' own partial order through every operator; IndividualGenerator / WithScorer / GenomeScorer: genome identity, scorer called exactly once with that genome, maker failure passes through. Collections from iterators with astronomic or empty size hints.",
         "== of TestResults / EcIndividual is not required to agree with cmp; sums are kept in range.",
         "DESIGN.md §4 C15"),
 "C16": ("exploration",
         "runtime monitor: triple-run equality incl. generator fingerprints over a registry of every stochastic operation with seed-derived input sizes (second run on another thread, third run after a reversed call history, fixtures rebuilt), interleaved call histories on shared operator values, Push runs under every input declaration order with confusable input names",
         "39 registry entries x 2e4 (quick) / 4e5 (thorough) seeds, input/output sizes 0..2049 derived from the seed (both sides of 32/64/128/256/1024); A(s1),B(s2),A(s1) histories on pipelines, UMAD, GeneGenerator, Lexicase, (and 25 long-lived selector / mutator / recombinator / pipeline / distribution values called again after one to four other calls and compared with values built afresh) where B is in turn an ordinary call, a call on an empty population / genome and a call that fails part-way (an individual with fewer results than lexicase looks at); operator values shared by four threads; 2e4 / 4e5 random Push programs with up to 5 named inputs (short names, or long names agreeing on their first 15/16/23/32/64 bytes, prefixes, case/whitespace/normalisation variants, the empty name) run under all declaration orders (<= 120) comparing results and PushState equality.",
         "A hidden randomness source would have to coincide across two runs on two threads to go unnoticed; Generation stepping deliberately uses the thread RNG and belongs to C09.",
         "DESIGN.md §4 C16"),
 "C17": ("exploration",
         "runtime monitor: concrete-vs-erased differential over all 28 generated pointer flavours of the five erasable traits, with the default boxed error type and the identity error conversion; preceded by rustc's accept/reject verdict on a generated probe crate with one function per (trait x pointer x auto-trait) flavour",
         "a DynWeighted list with a single erased member must behave like the member where the outcome is stream-independent; lists nested in lists (depth 1-3) must deliver the innermost failure wrapped exactly once per level; rustc must accept all 280 generated functions (28 pointer flavours x 5 traits x the default and a user-defined error type) that require a flavour to implement the wrapped trait (a rejected one is C17/flavour-not-supported). Every round makes 280 erased calls (5 traits x 28 flavours x 2 error conversions) around run-time chosen real implementations and succeeding/failing probes and compares value (selectors: element identity), error Display text and source chain, random-stream fingerprint and wrapped-call count with the concrete call; 4e4 (quick) / 1e6 (thorough) rounds. The (trait x flavour) grid is exhaustive in every round.",
         "Values are compared through Debug renderings. The flavour-existence half is decided by observing the compiler (as the C19 compile-time clause).",
         "DESIGN.md §4 C17"),
 "C18": ("exploration",
         "runtime monitor: counting element generator (serial-set membership, exact sizes) for collection generators; identity/serial membership + Bernstein uniformity + num_choices for 19 choice-construction flavours; 16 empty-collection constructions must be rejected at construction",
         "Collection sizes 0..130, both sides of multiples of 64 up to 4097, 10^4, 65536, 65537 over Vec (three construction paths, repeated sampling), Bitstring (incl. random / random_with_probability), Plushy and scored populations; choices built from collections of size 1..8, 13, 64, 100, 257, 1000 (and 3*2^22 for index residues) with duplicate values at distinct positions, 2e6 (quick) / 4e7 (thorough) draws per (flavour, size). The public size / element-generator fields of a collection generator are reassigned after sampling and the next collection must follow them. Every position of 256 random bitstrings (sizes around word boundaries up to 4097) shows both values. Collections of zero-sized elements.",
         "Order inside a generated collection and over-draw from the element generator are recorded, not judged.",
         "DESIGN.md §4 C18"),
 "C06": ("exploration",
         "runtime monitor: identity invariant (ptr::eq against the population's own elements) + documented-error table per configuration + panic capture, through every access path (direct, &S, Select operator, &dyn, Box<dyn>) and 13 weighted nestings with run-time chosen members",
         "2e5 (quick) / 3e6 (thorough) random populations of size 0..9 (empty, singleton, all-equal, duplicate-laden, uneven result counts) x Best, Worst, Random, Tournament(k=1..n+2), Lexicase(cases 0..m+2, both polarities) x five access paths, every 4th round the same contract on VecDeque / LinkedList / BTreeSet / Box<[T]> / [T; N] populations, every 16th dynamic lists with usize weights whose total exceeds usize::MAX, every 40th round a large population (10..4099 members, tournament sizes around 8/16/32/64, sqrt(n), n/2, n-1, n, n+1, up to 34 cases), plus six random weighted combinations per population with weights incl. 0: Ok must be that very element, Err must be the documented error for that configuration (and must occur where documented), exactly one positive-weight member is used per selection. Dynamic weighted lists are also used while being built (selections, failing ones included, between extensions; judged against the weights at that moment). Plain-value populations with many ties under every tournament size. Tournament sizes up to usize::MAX.",
         "Documented errors are recognised by their type names in the Debug rendering of nested error types.",
         "DESIGN.md §4 C06"),
 "C07": ("exploration",
         "runtime statistical monitor: exact winner law of 'uniform k-subset, return its best' checked with non-asymptotic Bernstein intervals (1e-10 per category), exact per-draw facts, and a subset monitor through a logging Ord that exposes the drawn k-subset itself",
         "n = 1..7, every k = 1..n, and n in {10,13,16,20,33,64,81,100} x 16 tournament sizes (inclusion frequency of every individual and every pair instead of whole subsets), value patterns distinct / ties / all-equal / one-best, 1e6 (quick) / 2e7 (thorough) seeded draws each (a quarter for the large populations): value-class frequencies against [C(#<=v,k)-C(#<v,k)]/C(n,k), k=1 uniform over individuals, k=n always a best member, winner never among the k-1 worst, drawn subsets uniform over all C(n,k) subsets and winner maximal in the drawn subset; Best/Worst maximal/minimal on random populations with ties and on EcIndividual populations with uneven result lengths; per-draw facts also under 24 hostile random-stream prefixes. Populations of 5000 and 500000 distinct values with tournaments of most of them.",
         "Decided up to the stated resolution (0.35% quick, 0.08% thorough at p=1/2); the acceptance region holds for any correct sampler.",
         "DESIGN.md §4 C07"),
 "C08": ("exploration",
         "runtime statistical monitor: exact lexicase law by enumerating all case permutations (<= 6 cases) and by an independent memoised recursion (up to 14 cases), cross-checked against each other; per-draw support and non-domination checks; Bernstein intervals on selection frequencies",
         "12 hand-built matrices where case order matters + 300 (quick) / 1000 (thorough) random matrices (<=6 individuals x <=5 cases) + 50 / 166 larger ones (2..55 individuals x 7..14 cases), score and error polarity, configured case counts <= available, 1e6 / 1e7 draws each. 1000 / 50000 / 300000 cases over tied individuals.",
         "The law is computed by a 20-line enumerator and a 30-line recursion, both written from the statement; decided up to the stated resolution.",
         "DESIGN.md §4 C08"),
 "C10": ("exploration",
         "runtime monitor: tagged / complementary parents make the origin of every child gene readable; segment and mask coverage; exhaustive argument sweep of the exchange primitives with panic capture",
         "TwoPointXo/UniformXo x four genome flavours x lengths {0..9,15..17,31..33,63..65,127..129,257,1000}, 5e5 (quick) / 1e7 (thorough) draws each (scaled down with the length): length, position-wise origin, one contiguous segment, every segment incl. both ends occurs (len<=6), the classes left-end / right-end / whole / inside occur on longer genomes when >= 600 such draws are expected, every uniform mask occurs; all ordered pairs of different lengths on all eight flavours must give DifferentGenomeLength(l1,l2); crossover_gene/crossover_segment for every index/range on genomes of length 0..4 (equal and different lengths): exact swap or error, never a panic, nothing else touched. Reversed ranges must not panic or modify either genome. Segment ranges up to usize::MAX must be refused as errors. Complementary parents of 2^22 genes through both operators and flavours.",
         "Reversed and empty out-of-bounds ranges are exercised but not judged; the empty exchange is recorded, not demanded; empty ranges beyond the end of a genome must be errors.",
         "DESIGN.md §4 C10"),
 "C11": ("exploration",
         "runtime monitor: structural invariants on tagged genomes (parent genes carry positions, fresh genes carry serial numbers handed out by a counting generator), exact degenerate-rate cases",
         "2e6 (quick) / 4e7 (thorough) UMAD mutations through all three constructors on Vector<tagged gene> and Plushy (parents with up to four Close genes, every assignment tried), lengths 0..40 (every 60th genome 63..4097; bit-flip also on 2^24+1 and 2^24+3 genes), rate grid incl. 0 and 1 and random rates; 5e5 / 1e7 bit-flip mutations (WithRate, WithOneOverLength) on Vec<bool>, Bitstring and a custom Not gene. UMAD on a million-gene parent at the extreme rates. WithRate on three million genes.",
         "Set membership of serial numbers decides 'drawn from the supplied generator during this call, at most once'.",
         "DESIGN.md §4 C11"),
 "C12": ("exploration",
         "runtime statistical monitor (Bernstein 1e-10 per category; p=0/p=1 exact; Hoeffding for mean child length) over 285 configurations of rates, lengths and generators",
         "Per-gene flip frequency and adjacent-pair joint frequency for WithRate / WithOneOverLength; UMAD (through all three constructors, the empty-genome rate set far from both other rates) per-position deletion, aggregated additions a(1-d), the full joint law on one-gene parents, empty-parent additions for all three constructors, mean child length incl. d=a/(1+a); uniform crossover 1/2 and pair independence on four flavours; Bitstring::random*, BoolGenerator; GeneGenerator through all six public constructors: close frequency (explicit and default 1/(n+1), n=1..31) and instruction frequencies (uniform and skewed, direct and via a Plushy collection generator); lengths 100/200/1000 for bit-flip, random bitstrings and uniform crossover; the 1/length rate also on 3000..70000 genes (aggregated). 2e6 (quick) / 4e7 (thorough) samples per configuration before length scaling. BoolGenerator is also reconfigured through its public probability field after construction and after a draw. Default close probability also on instruction sets of 200000 and 2^20-1 instructions. Flip rates down to 2^-25, 1e-20 and f32::MIN_POSITIVE. WithRate on 4-6 million genes (aggregated). UMAD rates on a two-million-gene parent.",
         "A bias below the stated resolution is invisible.",
         "DESIGN.md §4 C12"),
 "C13": ("exploration",
         "runtime monitor with marker selectors: per-selection delegation log (exactly one positive-weight member, result is that member's) + Bernstein intervals on delegation frequencies w_i/sum(w) + exact construction verdicts at the 32-bit boundary",
         "13 nestings x 32 weight multisets (incl. large unequal weights) (zeros, all-zero, 2^31 / u32::MAX boundaries, overflowing totals, overflow early in a chain) in several permutations, 1e6 (quick) / 2e7 (thorough) selections each; 14 staged histories (select, extend with another member, select again) on DynWeighted lists and with_item_and_weight chains, each stage judged against the weights it has at that moment. Dynamic lists also with usize weights beyond 2^32.",
         "Members are marker selectors; DynWeighted takes usize weights so overflowing 32-bit totals are legal there.",
         "DESIGN.md §4 C13"),
 "C14": ("fault_enumeration",
         "runtime monitor: combinator-algebra reference evaluator vs the real combinators on random composition terms; leaf probes log (id, input, random word drawn through next_u32 / next_u64 / fill_bytes in turn); failure injected at every leaf call; error path read through Error::source() and Display",
         "3e5 (quick) / 5e6 (thorough) random terms to depth 5 over then/and/map(pair|array|vec)/apply_n_times<0..3,5,8,17,33>/Identity/Constant on inputs incl. vectors of up to 100 elements, each with m <= 130 leaf calls run m+1 times (failure at each call and none): output, full call log (order, inputs, words), stream fingerprint, failing leaf and error path must match; six statically typed shapes; wrappers Select/Mutate/Recombine (by value/by reference), GenomeExtractor, GenomeScorer, Identity, Constant compared with the wrapped thing. All reference forms of the forwarding impls (&M, &&M, &mut M, &R, &&R, &S, &&S and the wrappers around them) are compared with the direct call. map / then_map over vectors of up to a million elements with and without a failing element. apply_n_times::<64> over an input owning 1 GiB under the address-space limit.",
         "Combinator error types are unnameable outside ec-core, so the failing part is read from the documented Display texts; an unrecognised text is inconclusive.",
         "DESIGN.md §4 C14"),
 "C05": ("exploration",
         "runtime monitor: differential against an independent iterative reference parser plus direct statement checks (depth-first flattening == genome order; k opens followed by exactly k blocks; no block elsewhere; conversion returns)",
         "Every gene string up to length 9 (quick) / 11 (thorough) over {Close, literal(position), When, DupBlock, IfElse} (built into a Plushy through every construction path, incl. iterators with astronomically large size hints) is translated by the real code and compared with the reference parser and the statement's structural rules; random genomes up to length 5000 with skewed symbol mixes (all opens, all closes, trailing opens); nesting depth to 2000 on ordinary threads and 20000 on a 1 GiB thread. The check runs as a supervised child (12 GiB address space, 150 s CPU per translation): a process death or hang while a genome is being translated is a violation. Exhaustive within the small scope, sampled beyond. Long shallow genomes of 1e5 .. 1e6 genes.",
         "Literal genes carry their position so order is unambiguous; nesting beyond 20000 is bounded by the host stack and not judged.",
         "DESIGN.md §4 C05"),
 "C19": ("exploration",
         "runtime monitor over generated code: a reference type-state automaton produces random legal builder call sequences that are compiled and run (built state vs automaton record) for PushState and five fixture structs (incl. unusual field order and options split over several attributes); every call sequence up to a length bound is type-checked by one `cargo check --message-format=json` and rustc's accept/reject verdict per function is compared with what the statement requires",
         "Run time: 400 (quick) / 3000 (thorough) random legal sequences incl. overflowing value lists, plus all declaration orders of up to 5 inputs, program order observed by running, an overflow boundary grid (capacity 0..5 x length 0..7 on every stack incl. the second values call), accessor consistency. Compile time: all sequences of up to 3 (quick) / 4 (thorough) calls + build() over a reduced alphabet for 5 structs (2.7e3 / 2.3e4 functions): must-compile sequences must be accepted, statement-named misuse (incomplete build, size change after data) must be rejected, everything else is recorded. Exact-size iterators announcing up to usize::MAX values onto empty / loaded, bounded / unbounded stacks must be reported as Overflow. Sizes 0, 1, around 2^32 / 2^63 and usize::MAX, set globally / individually / last-set-wins. The overflow error of an over-long program is the same whichever item type it is supplied as. Lazily produced programs announcing up to usize::MAX elements.",
         "The compile-time clause is decided by observing rustc, flagged as such in DESIGN.md; fixtures with >=2 stacks use !has_stack (generated HasStack impls fail coherence outside the push crate).",
         "DESIGN.md §4 C19"),
 "C01": ("exploration",
         "runtime monitor: differential against an independently written reference interpreter (set-valued where the statement is silent); instruction x boundary-state matrix, exhaustive boundary-operand sweeps, random nested programs and Plushy genomes run at step limits 0..T so every intermediate state of the real loop is compared",
         "Every instruction shape (88) is performed on the cross product of capacities {0,1,2,3,4,8} x fills {0,1,2,3,cap-1,cap} of each stack it touches with boundary operands (i64 extremes, NaN, infinities, signed zeros, subnormals), plus exhaustive pool^2 operand sweeps; literals built through every public constructor; input names from a short pool or a pool of confusable names; 2.5e5 (quick) / 3.8e6 (thorough) random programs incl. Plushy-translated ones are run to completion under every step limit 0..T and compared state-for-state (all stacks, capacities, stdout, limit, input bindings) with the reference interpreter. Sampled, not exhaustive. Reading the printed output is checked as an observation: read twice from the same state, read again after printing more (directly and by a run).",
         "Trusts the reference interpreter in harness/vh-push/src/pushvm.rs as the reading of the documented semantics; it accepts several outcomes where the statement is silent (double faults, i64::MIN % -1, exponents >= 2^32).",
         "DESIGN.md §4 C01"),
 "C02": ("fault_enumeration",
         "runtime monitor: snapshot equality (state handed back with any error == clone of the state passed in, through e.state(), map_err_into, map_inner_err, try_recover, into_state; is_fatal/is_recoverable agreement; with_input vs performing the input instruction) and metamorphic skip-equivalence (failing instruction vs Noop under the same step limit), real code vs real code",
         "Fault enumeration over every instruction shape x every (capacity, fill) combination of the stacks it reads/writes x arithmetic-fault operand pairs, with pre-filled stdout and bound inputs, plus every dynamic failure met while stepping random programs through State::perform. The evidence tabulates (instruction, fault kind) hit counts and the run is inconclusive for any reachable pair that never fired.",
         "PushState's derived PartialEq is trusted to cover all fields; no model is involved.",
         "DESIGN.md §4 C02"),
 "C03": ("exploration",
         "runtime monitor: loop-vs-mirror differential (run_to_completion vs stepping the real State::perform at most L times), capacity/severity invariants at every step, metered programs, and a subprocess hang/abort monitor with a CPU budget calibrated to the logical step bound",
         "Random nested/Plushy/exec-heavy programs under capacities 0..usize::MAX and step limits 0..1e5 are compared at limits 0..40 and around their natural length; an exhaustive capacity 0..6 x limit 0..64 grid on small programs; every returned or carried state is checked against its maxima; every fatal error must be an overflow justified by a full destination. Self-replicating, exponentially growing, 20000-deep and extreme-arithmetic programs run in subprocesses under RLIMIT_AS with a CPU-time watchdog (hang) and signal classification (abort). Systematic boundary operand sweep: every instruction shape x all pairs (triples for Clamp) of the int / float / bool operand pools on roomy stacks - no panic, nothing fatal.",
         "Insensitive to wrong instruction results by construction (the mirror uses the real perform). Hang = CPU time beyond 60 s + 2 us per permitted step x program node; wall-clock timeouts are inconclusive. Nesting beyond 20000 is not explored.",
         "DESIGN.md §4 C03"),
 "C04": ("exploration",
         "runtime monitor: history + executable Vec/capacity model checked after every operation; exhaustive small-scope histories + long random histories with a drop-counting element type",
         "Every history of stack operations up to length 5 (quick) / 6 (thorough) over a 27-operation alphabet from capacities 0..4 is executed on the real Stack and compared with a Vec+capacity model after every operation (return value, exact underflow payload, full contents, size/is_empty/is_full/max; Stack == Vec / slice / array cross-checked against the contents obtained by popping a clone); plus random 10^4-operation histories with capacities lowered below the current size and usize::MAX (every fourth on stacks of up to 70000 elements with bulk operations of up to 3000 items; exact-size iterators that only claim up to usize::MAX items and must be refused without allocating), and a drop-counting element type for conservation. Exhaustive within the stated scope, sampled beyond it. Insertion through the state-level helpers (with_push / with_replace / push_onto / replace_on / with_stack_push) on states whose maximum was changed after filling: 2e5 (quick) / 2e6 (thorough) cases.",
         "Trusts the 60-line model as the reading of the statement; zero-element insertion into an over-full stack is not judged.",
         "DESIGN.md §4 C04"),
}

PENDING_REASON = "check not built yet in this round (planned, see DESIGN.md §4); not claimed until its monitor is registered"
ALL = [f"C{i:02d}" for i in range(1, 20)]

def main():
    checks = []
    for pid in ALL:
        if pid not in CHECKS:
            continue
        cat, tech, text, note, ref = CHECKS[pid]
        checks.append({
            "property_id": pid,
            "quick_cmd": f"./check {pid} --tier quick",
            "thorough_cmd": f"./check {pid} --tier thorough",
            "evidence_file": f"/verif/evidence/{pid}.json",
            "replay_cmd_template": f"./check {pid} --replay {{path}}",
            "engine": "harness",
            "level_claimed": {"category": cat, "text": text, "design_ref": ref},
            "level_note": note,
            "technique": tech,
        })
    manifest = {
        "version": 1,
        "setup_cmd": "cd /verif/harness && CARGO_NET_OFFLINE=true cargo build --offline --profile verif --workspace && (CARGO_NET_OFFLINE=true CARGO_TARGET_DIR=/verif/harness/target/miri MIRIFLAGS='-Zmiri-tree-borrows -Zmiri-permissive-provenance -Zmiri-ignore-leaks -Zmiri-disable-isolation' cargo +nightly miri run --offline -q -p vh-gen -- --sanitizer-child --none || true)",
        "hooks": {
            "guard": "unhindered_ec_verif",
            "enable": "no source hooks are needed: every property is observed at the public API (probe operators, recording RNG, tagged values); the guard name is reserved (RUSTFLAGS=\"--cfg unhindered_ec_verif\") should one become necessary",
            "baseline_off_cmd": "cd /repo && cargo test --workspace --no-fail-fast --offline",
            "source_commits": [],
            "add_only": True,
        },
        "engines": [
            {"name": "harness", "path": "/verif/harness",
             "serves_properties": sorted(CHECKS.keys()),
             "kind_free_text": "cargo workspace of runtime monitors, one binary per property, (reference models, probe operators, recording RNG, statistical monitor, event-log checkers; Miri/TSan for C09) that path-depends on /repo/packages/* and is rebuilt by ./check on every run"},
        ],
        "checks": checks,
        "notes": "Runtime monitoring only. Verdicts are three-valued; INCONCLUSIVE lines never fail a run, a run that observed nothing exits 3. known_findings.json lists repaired (fixed:) and open findings; only open entries with an exact signature are downgraded to KNOWN-FINDING lines. Every check runs as a supervised child of itself (a death of the process while a worker thread is inside a call into the code under test is reported as <ID>/aborted with that thread's context; otherwise INCONCLUSIVE, exit 3) and runs a hang watchdog: a worker thread that burns more than 150 (quick) / 900 (thorough) CPU-seconds inside one monitored evaluation is reported as <ID>/hang; the largest gap seen is written into the evidence (coverage.hang_watchdog).",
        "not_applicable": [{"property_id": p, "reason": PENDING_REASON} for p in ALL if p not in CHECKS],
    }
    with open(os.path.join(ROOT, "MANIFEST.json"), "w") as f:
        json.dump(manifest, f, indent=1)
        f.write("\n")
    print("wrote MANIFEST.json with", len(checks), "checks")

if __name__ == "__main__":
    main()
