#!/usr/bin/env python3
"""Regenerates /verif/MANIFEST.json from the table below (single source of truth)."""
import json, os, sys

ROOT = os.path.dirname(os.path.dirname(os.path.abspath(__file__)))

# id -> (category, technique, level text, level note, design ref)
CHECKS = {
 "C04": ("exploration",
         "runtime monitor: history + executable Vec/capacity model checked after every operation; exhaustive small-scope histories + long random histories with a drop-counting element type",
         "Every history of stack operations up to length 5 (quick) / 6 (thorough) over a 27-operation alphabet from capacities 0..4 is executed on the real Stack and compared with a Vec+capacity model after every operation (return value, exact underflow payload, full contents, size/is_empty/is_full/max); plus random 10^4-operation histories with capacities lowered below the current size and usize::MAX, and a drop-counting element type for conservation. Exhaustive within the stated scope, sampled beyond it.",
         "Trusts the 60-line model as the reading of the statement; zero-element insertion into an over-full stack is not judged.",
         "DESIGN.md §4 C04"),
}

PENDING_REASON = "check not built yet in this round (planned, see DESIGN.md §4); not claimed until its monitor is registered"
ALL = [f"C{i:02d}" for i in range(1, 20)]

def main():
    checks = []
    for pid in ALL:
        if pid not in CHECKS:
            continue
        cat, tech, text, note, ref = CHECKS[pid]
        checks.append({
            "property_id": pid,
            "quick_cmd": f"./check {pid} --tier quick",
            "thorough_cmd": f"./check {pid} --tier thorough",
            "evidence_file": f"/verif/evidence/{pid}.json",
            "replay_cmd_template": f"./check {pid} --replay {{path}}",
            "engine": "harness",
            "level_claimed": {"category": cat, "text": text, "design_ref": ref},
            "level_note": note,
            "technique": tech,
        })
    manifest = {
        "version": 1,
        "setup_cmd": "cd /verif/harness && CARGO_NET_OFFLINE=true cargo build --offline --profile verif --workspace",
        "hooks": {
            "guard": "unhindered_ec_verif",
            "enable": "no source hooks are needed: every property is observed at the public API (probe operators, recording RNG, tagged values); the guard name is reserved (RUSTFLAGS=\"--cfg unhindered_ec_verif\") should one become necessary",
            "baseline_off_cmd": "cd /repo && cargo test --workspace --no-fail-fast --offline",
            "source_commits": [],
            "add_only": True,
        },
        "engines": [
            {"name": "harness", "path": "/verif/harness",
             "serves_properties": sorted(CHECKS.keys()),
             "kind_free_text": "cargo workspace of runtime monitors (reference models, probe operators, recording RNG, statistical monitor, event-log checkers; Miri/TSan for C09) that path-depends on /repo/packages/* and is rebuilt by ./check on every run"},
        ],
        "checks": checks,
        "notes": "Runtime monitoring only. Verdicts are three-valued; INCONCLUSIVE lines never fail a run, a run that observed nothing exits 3. known_findings.json lists repaired (fixed:) and open findings; only open entries with an exact signature are downgraded to KNOWN-FINDING lines.",
        "not_applicable": [{"property_id": p, "reason": PENDING_REASON} for p in ALL if p not in CHECKS],
    }
    with open(os.path.join(ROOT, "MANIFEST.json"), "w") as f:
        json.dump(manifest, f, indent=1)
        f.write("\n")
    print("wrote MANIFEST.json with", len(checks), "checks")

if __name__ == "__main__":
    main()
