#!/usr/bin/env python3
"""Regenerates /verif/MANIFEST.json from the table below (single source of truth)."""
import json, os, sys

ROOT = os.path.dirname(os.path.dirname(os.path.abspath(__file__)))

# id -> (category, technique, level text, level note, design ref)
CHECKS = {
 "C05": ("exploration",
         "runtime monitor: differential against an independent iterative reference parser plus direct statement checks (depth-first flattening == genome order; k opens followed by exactly k blocks; no block elsewhere; conversion returns)",
         "Every gene string up to length 9 (quick) / 11 (thorough) over {Close, literal(position), When, DupBlock, IfElse} is translated by the real code and compared with the reference parser and the statement's structural rules; random genomes up to length 5000 with skewed symbol mixes (all opens, all closes, trailing opens); nesting depth to 2000 on ordinary threads and 20000 on a 1 GiB thread. Exhaustive within the small scope, sampled beyond.",
         "Literal genes carry their position so order is unambiguous; nesting beyond 20000 is bounded by the host stack and not judged.",
         "DESIGN.md §4 C05"),
 "C19": ("exploration",
         "runtime monitor over generated code: a reference type-state automaton produces random legal builder call sequences that are compiled and run (built state vs automaton record) for PushState and four fixture structs; every call sequence up to a length bound is type-checked by one `cargo check --message-format=json` and rustc's accept/reject verdict per function is compared with what the statement requires",
         "Run time: 400 (quick) / 3000 (thorough) random legal sequences incl. overflowing value lists, plus all declaration orders of up to 5 inputs, program order observed by running, an overflow boundary grid (capacity 0..5 x length 0..7 on every stack incl. the second values call), accessor consistency. Compile time: all sequences of up to 3 (quick) / 4 (thorough) calls + build() over a reduced alphabet for 5 structs (2.7e3 / 2.3e4 functions): must-compile sequences must be accepted, statement-named misuse (incomplete build, size change after data) must be rejected, everything else is recorded.",
         "The compile-time clause is decided by observing rustc, flagged as such in DESIGN.md; fixtures with >=2 stacks use !has_stack (generated HasStack impls fail coherence outside the push crate).",
         "DESIGN.md §4 C19"),
 "C01": ("exploration",
         "runtime monitor: differential against an independently written reference interpreter (set-valued where the statement is silent); instruction x boundary-state matrix, exhaustive boundary-operand sweeps, random nested programs and Plushy genomes run at step limits 0..T so every intermediate state of the real loop is compared",
         "Every instruction shape (88) is performed on the cross product of capacities {0,1,2,3,4,8} x fills {0,1,2,3,cap-1,cap} of each stack it touches with boundary operands (i64 extremes, NaN, infinities, signed zeros, subnormals), plus exhaustive pool^2 operand sweeps; 2.5e5 (quick) / 3.8e6 (thorough) random programs incl. Plushy-translated ones are run to completion under every step limit 0..T and compared state-for-state (all stacks, capacities, stdout, limit, input bindings) with the reference interpreter. Sampled, not exhaustive.",
         "Trusts the reference interpreter in harness/vh-push/src/pushvm.rs as the reading of the documented semantics; it accepts several outcomes where the statement is silent (double faults, i64::MIN % -1, exponents >= 2^32).",
         "DESIGN.md §4 C01"),
 "C02": ("fault_enumeration",
         "runtime monitor: snapshot equality (state handed back with any error == clone of the state passed in, through e.state(), map_err_into, try_recover, into_state) and metamorphic skip-equivalence (failing instruction vs Noop under the same step limit), real code vs real code",
         "Fault enumeration over every instruction shape x every (capacity, fill) combination of the stacks it reads/writes x arithmetic-fault operand pairs, with pre-filled stdout and bound inputs, plus every dynamic failure met while stepping random programs through State::perform. The evidence tabulates (instruction, fault kind) hit counts and the run is inconclusive for any reachable pair that never fired.",
         "PushState's derived PartialEq is trusted to cover all fields; no model is involved.",
         "DESIGN.md §4 C02"),
 "C03": ("exploration",
         "runtime monitor: loop-vs-mirror differential (run_to_completion vs stepping the real State::perform at most L times), capacity/severity invariants at every step, metered programs, and a subprocess hang/abort monitor with a CPU budget calibrated to the logical step bound",
         "Random nested/Plushy/exec-heavy programs under capacities 0..usize::MAX and step limits 0..1e5 are compared at limits 0..40 and around their natural length; an exhaustive capacity 0..6 x limit 0..64 grid on small programs; every returned or carried state is checked against its maxima; every fatal error must be an overflow justified by a full destination. Self-replicating, exponentially growing, 20000-deep and extreme-arithmetic programs run in subprocesses under RLIMIT_AS with a CPU-time watchdog (hang) and signal classification (abort).",
         "Insensitive to wrong instruction results by construction (the mirror uses the real perform). Hang = CPU time beyond 60 s + 2 us per permitted step x program node; wall-clock timeouts are inconclusive. Nesting beyond 20000 is not explored.",
         "DESIGN.md §4 C03"),
 "C04": ("exploration",
         "runtime monitor: history + executable Vec/capacity model checked after every operation; exhaustive small-scope histories + long random histories with a drop-counting element type",
         "Every history of stack operations up to length 5 (quick) / 6 (thorough) over a 27-operation alphabet from capacities 0..4 is executed on the real Stack and compared with a Vec+capacity model after every operation (return value, exact underflow payload, full contents, size/is_empty/is_full/max); plus random 10^4-operation histories with capacities lowered below the current size and usize::MAX, and a drop-counting element type for conservation. Exhaustive within the stated scope, sampled beyond it.",
         "Trusts the 60-line model as the reading of the statement; zero-element insertion into an over-full stack is not judged.",
         "DESIGN.md §4 C04"),
}

PENDING_REASON = "check not built yet in this round (planned, see DESIGN.md §4); not claimed until its monitor is registered"
ALL = [f"C{i:02d}" for i in range(1, 20)]

def main():
    checks = []
    for pid in ALL:
        if pid not in CHECKS:
            continue
        cat, tech, text, note, ref = CHECKS[pid]
        checks.append({
            "property_id": pid,
            "quick_cmd": f"./check {pid} --tier quick",
            "thorough_cmd": f"./check {pid} --tier thorough",
            "evidence_file": f"/verif/evidence/{pid}.json",
            "replay_cmd_template": f"./check {pid} --replay {{path}}",
            "engine": "harness",
            "level_claimed": {"category": cat, "text": text, "design_ref": ref},
            "level_note": note,
            "technique": tech,
        })
    manifest = {
        "version": 1,
        "setup_cmd": "cd /verif/harness && CARGO_NET_OFFLINE=true cargo build --offline --profile verif --workspace",
        "hooks": {
            "guard": "unhindered_ec_verif",
            "enable": "no source hooks are needed: every property is observed at the public API (probe operators, recording RNG, tagged values); the guard name is reserved (RUSTFLAGS=\"--cfg unhindered_ec_verif\") should one become necessary",
            "baseline_off_cmd": "cd /repo && cargo test --workspace --no-fail-fast --offline",
            "source_commits": [],
            "add_only": True,
        },
        "engines": [
            {"name": "harness", "path": "/verif/harness",
             "serves_properties": sorted(CHECKS.keys()),
             "kind_free_text": "cargo workspace of runtime monitors (reference models, probe operators, recording RNG, statistical monitor, event-log checkers; Miri/TSan for C09) that path-depends on /repo/packages/* and is rebuilt by ./check on every run"},
        ],
        "checks": checks,
        "notes": "Runtime monitoring only. Verdicts are three-valued; INCONCLUSIVE lines never fail a run, a run that observed nothing exits 3. known_findings.json lists repaired (fixed:) and open findings; only open entries with an exact signature are downgraded to KNOWN-FINDING lines.",
        "not_applicable": [{"property_id": p, "reason": PENDING_REASON} for p in ALL if p not in CHECKS],
    }
    with open(os.path.join(ROOT, "MANIFEST.json"), "w") as f:
        json.dump(manifest, f, indent=1)
        f.write("\n")
    print("wrote MANIFEST.json with", len(checks), "checks")

if __name__ == "__main__":
    main()
