#!/usr/bin/env python3
"""Systematic mutation sweep: a measurement of what the registered checks can see.

For every syntactic mutant of the library sources (relational / arithmetic / boolean /
constant / method-swap / statement-deletion operators, one site at a time) the sweep
  1. applies it to a private scratch copy of /repo (never to /repo itself),
  2. rebuilds a private copy of the harness against that scratch copy and runs the quick
     checks of the properties anchored in the mutated file,
  3. for mutants no check reports, runs the repository's own test suite, so that the
     survivors are classified as "also passes the existing tests" (interesting: a gap of the
     monitors, or an equivalent mutant) or "killed by the existing tests only".
Results: <out>/results.jsonl (one line per mutant) and <out>/survivors.txt.

usage: mutate.py list   [--files GLOB...]                 count candidate mutants per file
       mutate.py run    --out DIR [--workers 4] [--per-file N] [--seed S] [--files SUBSTR ...]
                        [--scratch /tmp/mut] [--resume]
Everything lives under --scratch and is deleted at the end; nothing is written to /repo.
"""
import argparse, glob, json, os, random, re, shutil, subprocess, sys, threading, time, hashlib

REPO = "/repo"
VERIF = "/verif"

# file (suffix under packages/) -> properties whose quick checks are run against a mutant of it
def props_for(rel, anchors):
    ps = [p for p, files in anchors.items() if rel in files]
    extra = []
    if rel.startswith("packages/push/src/push_vm/stack.rs"):
        extra = ["C01", "C02", "C03", "C04", "C19"]
    elif rel.startswith("packages/push/src/instruction/") or rel.startswith("packages/push/src/push_vm/") or rel.startswith("packages/push/src/error/"):
        extra = ["C01", "C02", "C03"]
    elif rel.startswith("packages/push-macros/"):
        extra = ["C19"]
    elif rel.startswith("packages/push/src/genome/"):
        extra = ["C05", "C11", "C12", "C16", "C18"]
    elif rel.startswith("packages/ec-macros/"):
        extra = ["C17", "C14"]
    elif rel.startswith("packages/ec-linear/"):
        extra = ["C10", "C11", "C12", "C16"]
    elif rel.startswith("packages/ec-core/src/operator/selector"):
        extra = ["C06", "C16", "C17"]
    elif rel.startswith("packages/ec-core/src/operator"):
        extra = ["C14", "C16", "C17"]
    elif rel.startswith("packages/ec-core/src/distributions"):
        extra = ["C18", "C16"]
    elif rel.startswith("packages/ec-core/src/weighted"):
        extra = ["C13", "C06"]
    elif rel.startswith("packages/ec-core/"):
        extra = ["C15", "C16"]
    out = []
    for p in ps + extra:
        if p not in out:
            out.append(p)
    # cheap checks first, the slow ones (C19 compile, C09 Miri) last
    out.sort(key=lambda p: (p in ("C19", "C09"), p))
    return out


REL = [(" < ", " <= "), (" <= ", " < "), (" > ", " >= "), (" >= ", " > "), (" == ", " != "), (" != ", " == "),
       (" < ", " > "), (" > ", " < ")]
ARITH = [(" + ", " - "), (" - ", " + "), (" * ", " / "), (" / ", " * "), (" % ", " / "), (" += ", " -= "), (" -= ", " += ")]
BOOL = [(" && ", " || "), (" || ", " && "), ("true", "false"), ("false", "true")]
METH = [
    ("checked_add", "checked_sub"), ("checked_sub", "checked_add"), ("checked_mul", "checked_add"),
    ("checked_div", "checked_rem"), ("checked_rem", "checked_div"),
    ("saturating_neg", "wrapping_neg"), ("saturating_abs", "wrapping_abs"),
    ("checked_add", "wrapping_add"), ("checked_sub", "wrapping_sub"), ("checked_mul", "wrapping_mul"),
    ("checked_pow", "wrapping_pow"),
    (".min(", ".max("), (".max(", ".min("), ("min()", "max()"), ("max()", "min()"),
    ("min_by", "max_by"), ("max_by", "min_by"),
    (".top()", ".top2().map(|(_, y)| y)"),
    (".first()", ".last()"), (".last()", ".first()"),
    (".is_empty()", ".is_empty().not()"),
    (".rev()", ""), ("is_full()", "is_empty()"),
    ("Ordering::Less", "Ordering::Greater"), ("Ordering::Greater", "Ordering::Less"),
    ("Ok(x.0)", "Ok(x.1)"),
    (".pop2()", ".pop2().map(|(a, b)| (b, a))"), (".top2()", ".top2().map(|(a, b)| (b, a))"),
    ("..=", ".."), ("choose_multiple", "choose_multiple_weighted"),
    ("(&x, &y)", "(&y, &x)"), ("(x, y)", "(y, x)"), ("(&a, &b)", "(&b, &a)"),
    ("First", "Second"), ("Second", "First"),
    ("addition_rate", "deletion_rate"), ("deletion_rate", "addition_rate"),
    (".reverse()", ".len()"), ("usize::MAX", "0"), ("u32::MAX", "0"),
    ("as f64", "as f32 as f64"), ("1.0 / ", "2.0 / "), (" + 1", " + 2"), (" + 1", ""), (" - 1", ""),
    ("unwrap_or(0)", "unwrap_or(1)"), ("unwrap_or(1)", "unwrap_or(0)"),
    ("Some(1)", "Some(0)"), ("Some(0)", "Some(1)"),
    ("first_parent", "second_parent"), ("second_parent", "first_parent"),
    ("parent_a", "parent_b"), ("parent_b", "parent_a"),
    ("self.first", "self.second"), ("self.second", "self.first"),
    ("self.a", "self.b"), ("self.b", "self.a"),
    ("&mut first", "&mut second"), ("exec_stack", "int_stack"), ("::<bool>", "::<i64>"), ("::<i64>", "::<bool>"),
    ("::<i64>", "::<OrderedFloat<f64>>"), ("::<OrderedFloat<f64>>", "::<i64>"),
    ("discard(1)", "discard(2)"), ("discard(2)", "discard(1)"), ("discard(3)", "discard(2)"),
    ("with_stack_discard::<i64>(2)", "with_stack_discard::<i64>(1)"),
    ("with_stack_discard::<bool>(2)", "with_stack_discard::<bool>(1)"),
    ("with_stack_replace", "with_stack_push"), ("replace_on(1", "replace_on(2"), ("replace_on(2", "replace_on(1"),
    ("replace_on(3", "replace_on(2"), ("shuffle(rng)", "len()"), ("make_recoverable", "make_fatal"), ("make_fatal", "make_recoverable"),
    ("Recoverable", "Fatal"), ("?;", ".ok();"),
]
REGEX = [
    (r"\.take\(([^()]+(?:\(\))?)\)", r".take(\1 + 1)", "take+1"),
    (r"\.take\(([^()]+(?:\(\))?)\)", r".take((\1).saturating_sub(1))", "take-1"),
    (r"\.skip\(([^()]+)\)", r".skip(\1 + 1)", "skip+1"),
    (r"(repeat_?n\([^,]+, )([^()]+(?:\(\))?)\)", r"\1\2 + 1)", "repeatn+1"),
    (r"(repeat_?n\([^,]+, )([^()]+(?:\(\))?)\)", r"\1(\2).saturating_sub(1))", "repeatn-1"),
    (r"\((\w+), (\w+)\)", r"(\2, \1)", "swap-args"),
    (r"\((&\w+), (&\w+)\)", r"(\2, \1)", "swap-args"),
    (r"\((&mut \w+), (&mut \w+)\)", r"(\2, \1)", "swap-args"),
    (r"\.size\(\)", r".size().saturating_sub(1)", "size-1"),
    (r"\.len\(\)", r".len().saturating_sub(1)", "len-1"),
    (r"\.len\(\)", r".len().saturating_add(1)", "len+1"),
    (r"^(\s*(?:\} else )?if )(?!let)(.+?)( \{\s*)$", r"\1true\3", "if-true"),
    (r"^(\s*(?:\} else )?if )(?!let)(.+?)( \{\s*)$", r"\1false\3", "if-false"),
    (r"random_bool\(([^()]+)\)", r"random_bool(1.0 - \1)", "prob-complement"),
    (r"random::<bool>\(\)", r"random_bool(0.75)", "coin-bias"),
]
CONST = [(r"\b0\b", "1"), (r"\b1\b", "0"), (r"\b1\b", "2"), (r"\b2\b", "1"), (r"\b2\b", "3"), (r"\b3\b", "2")]


def code_lines(path):
    """Yield (lineno0, line) for mutable lines: not in a #[cfg(test)] tail module, not a comment,
    not an attribute / use / doc line."""
    lines = open(path).read().split("\n")
    in_test = False
    out = []
    block_comment = False
    for i, l in enumerate(lines):
        s = l.strip()
        if re.match(r"#\[cfg\(test\)\]", s):
            in_test = True
        if in_test:
            continue
        if block_comment:
            if "*/" in s:
                block_comment = False
            continue
        if s.startswith("/*"):
            block_comment = "*/" not in s
            continue
        if not s or s.startswith("//") or s.startswith("#[") or s.startswith("#![") or s.startswith("use ") or s.startswith("pub use ") or s.startswith("mod ") or s.startswith("pub mod "):
            continue
        out.append((i, l))
    return lines, out


def strip_trailing_comment(l):
    # crude: cut at ' //' that is not inside a string literal
    idx = l.find(" //")
    if idx >= 0 and l[:idx].count('"') % 2 == 0:
        return l[:idx], l[idx:]
    return l, ""


def mutants_of(path):
    lines, cl = code_lines(path)
    res = []
    for i, l in cl:
        code, tail = strip_trailing_comment(l)
        seen = set()

        def add(new, op):
            if new != code and new not in seen:
                seen.add(new)
                res.append({"line": i + 1, "op": op, "old": l, "new": new + tail})

        for a, b in REL + ARITH + BOOL + METH:
            start = 0
            while True:
                k = code.find(a, start)
                if k < 0:
                    break
                # generics / bounds noise: skip ' + ' in where clauses and trait bounds
                if a in (" + ", " - ") and re.search(r"(where|impl|dyn |: [A-Z][A-Za-z<>]*\s*\+|\bSend\b|\bSync\b|'static|\bSized\b)", code):
                    break
                if a in (" < ", " > ") and re.search(r"\b(impl|fn|struct|enum|type|where|trait)\b", code):
                    break
                add(code[:k] + b + code[k + len(a):], f"{a.strip()}->{b.strip() or 'DEL'}")
                start = k + len(a)
        for pat, b in CONST:
            for m in re.finditer(pat, code):
                # not inside identifiers like top2 / f64 / tuple index handled by \b; skip type names & ranges of generics
                pre = code[max(0, m.start() - 1):m.start()]
                post = code[m.end():m.end() + 1]
                if pre in (".", "_") or post in ("_",) or re.search(r"[A-Za-z]$", code[:m.start()]):
                    continue
                add(code[:m.start()] + b + code[m.end():], f"const {m.group(0)}->{b}")
        for pat, rep, op in REGEX:
            for mm in re.finditer(pat, code):
                add(code[:mm.start()] + mm.expand(rep) + code[mm.end():], op)
        s = code.strip()
        # statement deletion: an expression statement (method call / assignment), not a let/return
        if s.endswith(";") and not re.match(r"(let |return|pub |type |const |static |fn |impl |struct |enum |break|continue|\}|use )", s) and "(" in s:
            add(re.sub(r"\S.*$", "/* deleted */", code, count=1), "delete-stmt")
        # negate an if condition
        m = re.match(r"^(\s*(?:\} else )?if )(?!let)(.+?)( \{\s*)$", code)
        if m:
            add(f"{m.group(1)}!({m.group(2)}){m.group(3)}", "negate-if")
    return lines, res


def all_targets(filters):
    files = sorted(glob.glob(f"{REPO}/packages/*/src/**/*.rs", recursive=True))
    files = [f for f in files if "/bin/" not in f and "/examples/" not in f]
    if filters:
        files = [f for f in files if any(s in f for s in filters)]
    return files


def sh(cmd, cwd=None, timeout=None, env=None):
    try:
        r = subprocess.run(cmd, shell=True, cwd=cwd, capture_output=True, text=True, timeout=timeout, env=env)
        return r.returncode, r.stdout + r.stderr
    except subprocess.TimeoutExpired as e:
        return 124, (e.stdout or b"").decode(errors="replace") if isinstance(e.stdout, bytes) else (e.stdout or "")


class Worker:
    def __init__(self, idx, scratch):
        self.dir = f"{scratch}/w{idx}"
        self.repo = f"{self.dir}/repo"
        self.verif = f"{self.dir}/verif"

    def setup(self):
        shutil.rmtree(self.dir, ignore_errors=True)
        os.makedirs(self.dir)
        sh(f"git -C {REPO} worktree prune")
        # the committed HEAD, not the working tree: seeded patches are applied to /repo from time to time
        os.makedirs(self.repo)
        code, out = sh(f"git -C {REPO} archive HEAD | tar -x -C {self.repo}")
        assert code == 0, out
        os.makedirs(self.verif)
        sh(f"rsync -a --exclude target --exclude work --exclude replays --exclude evidence --exclude seeded --exclude .git {VERIF}/ {self.verif}/")
        for f in [f"{self.verif}/harness/Cargo.toml"] + glob.glob(f"{self.verif}/harness/c1[79]/*/Cargo.toml"):
            t = open(f).read().replace('"/repo/', f'"{self.repo}/')
            open(f, "w").write(t)
        t = open(f"{self.verif}/check").read()
        open(f"{self.verif}/check", "w").write(t)
        self.env = dict(os.environ, VERIF_ROOT=self.verif, CARGO_NET_OFFLINE="true", CARGO_BUILD_JOBS="6", VERIF_THREADS="6")
        # warm build (clean tree) so that later rebuilds are incremental
        code, out = sh("cargo build --offline --profile verif --workspace", cwd=f"{self.verif}/harness", env=self.env, timeout=3000)
        assert code == 0, out[-2000:]

    def teardown(self):
        shutil.rmtree(self.dir, ignore_errors=True)

    def run_mutant(self, rel, lines, m, props, run_tests=True):
        path = f"{self.repo}/{rel}"
        orig = open(path).read()
        new_lines = list(lines)
        new_lines[m["line"] - 1] = m["new"]
        open(path, "w").write("\n".join(new_lines))
        rec = {"file": rel, **{k: m[k] for k in ("line", "op")}, "old": m["old"].strip(), "new": m["new"].strip(), "checks": {}}
        t0 = time.time()
        try:
            killed_by = None
            built = set()
            for p in props:
                pkg = "vh-push" if p in ("C01", "C02", "C03", "C04", "C05", "C19") else ("vh-gen" if p == "C09" else "vh-ec")
                binname = "vh-gen" if p == "C09" else p.lower()
                if binname not in built:
                    code, out = sh(f"cargo build --offline --profile verif -p {pkg} --bin {binname}", cwd=f"{self.verif}/harness", env=self.env, timeout=1800)
                    if code != 0:
                        rec["status"] = "does-not-compile"
                        rec["detail"] = [l for l in out.splitlines() if l.startswith("error")][:3]
                        return rec
                    built.add(binname)
                code, out = sh(f"{self.verif}/harness/target/verif/{binname} {p} --tier quick", cwd=f"{self.verif}/harness", env=self.env, timeout=900)
                sigs = re.findall(r"^VIOLATION .*?signature=(\S+)", out, flags=re.M)
                rec["checks"][p] = {"exit": code, "signatures": sigs[:3], "inconclusive": len(re.findall(r"^INCONCLUSIVE", out, flags=re.M))}
                if code == 1 and "VIOLATION" in out:
                    killed_by = p
                    break
                if code == 124:
                    rec["checks"][p]["timeout"] = True
                elif code not in (0, 1):
                    rec["checks"][p]["tail"] = out[-300:]
            if killed_by:
                rec["status"] = "killed"
                rec["killed_by"] = killed_by
                return rec
            if run_tests:
                code, out = sh("cargo test --workspace --no-fail-fast --offline 2>&1 | grep -E '^test result|FAILED|^error|could not compile' | head -20", cwd=self.repo, env=self.env, timeout=1800)
                ls = out.strip().splitlines()
                ok = bool(ls) and all(l.startswith("test result: ok") for l in ls)
                rec["suite_passes"] = ok
                rec["status"] = "SURVIVED" if ok else "survived-checks-but-killed-by-existing-tests"
                if not ok:
                    rec["suite_failures"] = [l for l in ls if not l.startswith("test result: ok")][:4]
            else:
                rec["status"] = "SURVIVED?"
            return rec
        finally:
            open(path, "w").write(orig)
            rec["secs"] = round(time.time() - t0, 1)


def main():
    ap = argparse.ArgumentParser()
    ap.add_argument("cmd", choices=["list", "run"])
    ap.add_argument("--files", nargs="*", default=[])
    ap.add_argument("--out", default=f"{VERIF}/work/mutation")
    ap.add_argument("--workers", type=int, default=4)
    ap.add_argument("--per-file", type=int, default=0)
    ap.add_argument("--ops", nargs="*", default=[])
    ap.add_argument("--seed", type=int, default=1)
    ap.add_argument("--scratch", default="/tmp/mut")
    ap.add_argument("--resume", action="store_true")
    ap.add_argument("--max", type=int, default=0)
    a = ap.parse_args()
    anchors = {}
    for l in open(f"{VERIF}/properties.jsonl"):
        p = json.loads(l)
        anchors[p["id"]] = p["anchors"]["files"]
    files = all_targets(a.files)
    work = []
    rng = random.Random(a.seed)
    total = 0
    for f in files:
        rel = os.path.relpath(f, REPO)
        lines, ms = mutants_of(f)
        if a.ops:
            ms = [m for m in ms if any(o in m["op"] for o in a.ops)]
        props = props_for(rel, anchors)
        if a.cmd == "list":
            print(f"{len(ms):5d} {rel} -> {' '.join(props)}")
            total += len(ms)
            continue
        if not props:
            continue
        rng.shuffle(ms)
        if a.per_file:
            ms = ms[:a.per_file]
        for m in ms:
            work.append((rel, lines, m, props))
    if a.cmd == "list":
        print(total, "candidate mutants")
        return
    rng.shuffle(work)
    if a.max:
        work = work[:a.max]
    os.makedirs(a.out, exist_ok=True)
    res_path = f"{a.out}/results.jsonl"
    done = set()
    if a.resume and os.path.exists(res_path):
        for l in open(res_path):
            r = json.loads(l)
            done.add((r["file"], r["line"], r["new"]))
    else:
        open(res_path, "w").close()
    work = [w for w in work if (w[0], w[2]["line"], w[2]["new"].strip()) not in done]
    print(len(work), "mutants to run with", a.workers, "workers", flush=True)
    lock = threading.Lock()
    it = iter(work)
    counts = {}

    def loop(idx):
        w = Worker(idx, a.scratch)
        try:
            w.setup()
        except AssertionError as e:
            print("worker setup failed", idx, str(e)[-500:], flush=True)
            return
        try:
            while True:
                with lock:
                    job = next(it, None)
                if job is None:
                    break
                rec = w.run_mutant(*job)
                with lock:
                    counts[rec["status"]] = counts.get(rec["status"], 0) + 1
                    with open(res_path, "a") as fh:
                        fh.write(json.dumps(rec) + "\n")
                    if rec["status"].startswith("SURVIVED"):
                        print(f"SURVIVED {rec['file']}:{rec['line']} [{rec['op']}]  {rec['old']}  ==>  {rec['new']}", flush=True)
                    n = sum(counts.values())
                    if n % 20 == 0:
                        print("progress", n, counts, flush=True)
        finally:
            w.teardown()

    ths = [threading.Thread(target=loop, args=(i,)) for i in range(a.workers)]
    for t in ths:
        t.start()
    for t in ths:
        t.join()
    print("done", counts)
    with open(f"{a.out}/survivors.txt", "w") as fh:
        for l in open(res_path):
            r = json.loads(l)
            if r["status"].startswith("SURVIVED"):
                fh.write(f"{r['file']}:{r['line']} [{r['op']}] checks={list(r['checks'])}\n   - {r['old']}\n   + {r['new']}\n")


if __name__ == "__main__":
    main()
