#!/usr/bin/env bash
# Run every check once (tier $1, default quick) and print one line per property.
cd /verif; mkdir -p work
tier="${1:-quick}"
for i in 01 02 03 04 05 06 07 08 09 10 11 12 13 14 15 16 17 18 19; do
  s=$(date +%s); ./check C$i --tier "$tier" > work/$tier-C$i.out 2>&1; rc=$?; e=$(date +%s)
  echo "C$i rc=$rc $((e-s))s alarms=$(grep -cE '^(VIOLATION|INCONCLUSIVE|KNOWN)' work/$tier-C$i.out) $(tail -1 work/$tier-C$i.out | cut -c1-160)"
done
