#!/usr/bin/env bash
# Silence on the unchanged tree at several seeds: runs every quick check at VERIF_SEED = $@ (default
# 1 2 3 4 5) in a sandbox copy (tools/devcheck.sh -s seeds) and prints any line that is not silent.
seeds=("$@"); [ ${#seeds[@]} -eq 0 ] && seeds=(1 2 3 4 5)
for s in "${seeds[@]}"; do
  for i in 01 02 03 04 05 06 07 08 09 10 11 12 13 14 15 16 17 18 19; do
    out=$(VERIF_SEED=$s /verif/tools/devcheck.sh -s seeds C$i --tier quick 2>&1); rc=$?
    n=$(echo "$out" | grep -cE '^(VIOLATION|INCONCLUSIVE|KNOWN|HARNESS)')
    if [ $rc -ne 0 ] || [ "$n" -ne 0 ]; then echo "seed=$s C$i rc=$rc :: $(echo "$out" | grep -E '^(VIOLATION|INCONCLUSIVE|KNOWN|HARNESS)' | head -3)"; fi
  done
  echo "seed=$s done"
done
