#!/usr/bin/env python3
"""Regression over the kept seeded changes: for every /verif/seeded/<id>/patch.diff apply it to /repo
(git apply), run the quick check of the property it breaks (plus the neighbours recorded in its meta),
undo it (git checkout -- .), and refresh meta.json's "checks_run_against_it". Needs a clean /repo.
usage: retry_seeded.py [ID-prefix ...]      e.g. retry_seeded.py C04 C17-m3"""
import glob, json, os, re, subprocess, sys
only = sys.argv[1:]
bad = []
for d in sorted(glob.glob("/verif/seeded/C*-m*")):
    sid = os.path.basename(d)
    if only and not any(sid.startswith(o) for o in only):
        continue
    meta = json.load(open(f"{d}/meta.json"))
    props = [meta["breaks_property"]] + [p for p in meta["checks_run_against_it"]["results"] if p != meta["breaks_property"]]
    r = subprocess.run(["/verif/tools/try_mutant.sh", f"{d}/patch.diff"] + props, capture_output=True, text=True).stdout
    caught = {}
    for line in r.splitlines():
        mo = re.match(r"(C\d+) exit=(\d+) secs=(\d+) violations=(\d+) :: (.*)", line)
        if mo:
            caught[mo.group(1)] = {"exit": int(mo.group(2)), "secs": int(mo.group(3)), "violation_signatures": int(mo.group(4)), "first_signatures": mo.group(5).split()[:6]}
    if not caught:
        print(sid, "COULD-NOT-RUN", r[-300:]); bad.append(sid); continue
    meta["checks_run_against_it"]["results"] = caught
    meta["caught_by_own_property_check"] = caught.get(meta["breaks_property"], {}).get("exit") == 1
    json.dump(meta, open(f"{d}/meta.json", "w"), indent=1)
    ok = meta["caught_by_own_property_check"]
    if not ok:
        bad.append(sid)
    print(sid, "caught" if ok else "NOT-CAUGHT", {k: (v["exit"], v["first_signatures"][:1]) for k, v in caught.items()}, flush=True)
print("not caught:", bad)
